//! Mode `slab`: histories over the real `PrefixesMap` (hook `VerifPrefixesMap`), printing after EVERY
//! operation the result and the slab as it is (root key, `nodes.len()`, occupied cells with count and
//! children list) plus the (key, count) dump.  Compared by checks/C15.py with `sm_trace` of
//! coq/Trie/SlabPrefixMap.v (same slab keys, same children lists, same occupancy).
use concordium_smart_contract_engine::v1::trie::low_level::verif_hooks::VerifPrefixesMap;
use hlib::{guarded, hex, Rng};
use serde_json::json;

fn key(rng: &mut Rng, pool: &[Vec<u8>]) -> Vec<u8> {
    if !pool.is_empty() && rng.chance(3, 5) {
        let k = rng.pick(pool).clone();
        match rng.below(4) {
            0 => k,
            1 => { let mut k = k; k.pop(); k }                              // proper prefix
            2 => { let mut k = k; k.push(*rng.pick(&[0u8, 1, 2, 255])); k } // extension
            _ => { let mut k = k; if let Some(l) = k.last_mut() { *l = *rng.pick(&[0u8, 1, 2, 255]); } k } // sibling
        }
    } else {
        let n = if rng.chance(1, 8) { 0 } else { rng.range(1, 4) as usize };
        (0..n).map(|_| *rng.pick(&[0u8, 1, 2, 255])).collect()
    }
}

pub fn run(seed: u64, n: usize) {
    hlib::quiet_panics();
    let mut rng = Rng::new(seed ^ 0xC15_51AB);
    for case in 0..n {
        let len = match rng.below(4) { 0 => rng.range(1, 6), 1 => rng.range(5, 20), _ => rng.range(15, 45) } as usize;
        let mut m = VerifPrefixesMap::new();
        let mut pool: Vec<Vec<u8>> = Vec::new();
        let mut ops = Vec::new();
        let mut tr = Vec::new();
        // phase bias: grow, then shrink (so that branches are pruned and keys are reused), then grow again
        for step in 0..len {
            let shrink = (step * 3 / len.max(1)) == 1;
            let r = rng.below(100);
            let (name, k, cnt): (&str, Vec<u8>, u32) = if r < (if shrink { 15 } else { 45 }) {
                ("i", key(&mut rng, &pool), 0)
            } else if r < 75 {
                let k = if !pool.is_empty() && rng.chance(4, 5) { rng.pick(&pool).clone() } else { key(&mut rng, &pool) };
                ("d", k, 0)
            } else if r < 84 {
                ("c", key(&mut rng, &pool), 0)
            } else if r < 93 {
                ("h", key(&mut rng, &pool), 0)
            } else {
                let k = if !pool.is_empty() { rng.pick(&pool).clone() } else { key(&mut rng, &pool) };
                ("s", k, *rng.pick(&[u32::MAX, u32::MAX - 1, 2, 1]))
            };
            let res = guarded(|| match name {
                "i" => m.insert(&k),
                "d" => m.delete(&k),
                "c" => m.check_has_no_prefix(&k),
                "h" => m.is_or_has_prefix(&k),
                _ => m.set_count(&k, cnt),
            });
            if name == "i" { pool.push(k.clone()); }
            ops.push(json!([name, hex(&k), cnt]));
            match res {
                Err(_) => { tr.push(json!("PANIC")); break; }
                Ok(b) => {
                    let (root, occ, cells) = m.slab_dump(256);
                    let cells: Vec<_> = cells.iter().map(|(k, c, kids)| json!([k, c, kids])).collect();
                    let dump: Vec<_> = m.dump().iter().map(|(k, c)| json!([hex(k), c])).collect();
                    tr.push(json!([b, root.map(|x| x as i64).unwrap_or(-1), occ, cells, dump, m.num_nodes(), m.is_empty()]));
                }
            }
        }
        println!("S {}", json!({"case": case, "ops": ops, "tr": tr}));
    }
}
