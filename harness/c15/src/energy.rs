pub fn run(_seed: u64, _n: usize) {}
