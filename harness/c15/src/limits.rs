//! Mode `limits`: the REAL handle encoding (`InstanceStateEntry::new` / `split`) on boundary-heavy
//! (generation, index) pairs, including indices >= 2^32 (no limit is checked by the code).
use concordium_smart_contract_engine::v1::InstanceStateEntry;
use hlib::Rng;
use serde_json::json;

pub fn run(seed: u64, n: usize) {
    let mut rng = Rng::new(seed ^ 0xC15_1171);
    for case in 0..n {
        let gen: u32 = rng.u32_edge();
        let idx: u64 = match rng.below(4) {
            0 => rng.u32_edge() as u64,
            1 => (1u64 << 32) + rng.u32_edge() as u64,
            2 => rng.below(1 << 20),
            _ => rng.u64_edge() >> rng.below(33),
        };
        let h: u64 = InstanceStateEntry::new(gen, idx as usize).into();
        let (g2, i2) = InstanceStateEntry::from(h).split();
        println!("L {}", json!({"case": case, "gen": gen, "idx": idx.to_string(), "h": h.to_string(), "g2": g2, "i2": i2 as u64}));
    }
}
