//! C20 harness: multiexp / wNAF digits (hook H3), encodings, secret sharing, key derivation.
//! Every line printed is one JSON object; every implementation call runs under `guarded`.
#![allow(deprecated)]
use ark_ec::{AffineRepr, CurveGroup, Group};
use ark_ff::{Field as ArkFieldTrait, PrimeField as ArkPrimeField, Zero};
use concordium_base::{
    common::{from_bytes, to_bytes, Deserial, Serial},
    contracts_common::ContractAddress,
    curve_arithmetic::{self as ca, arkworks_instances::ArkGroup, Curve, GenericMultiExp, MultiExp, PrimeField},
    id::{
        secret_sharing::{reveal, reveal_in_group, share, Threshold},
        types::AttributeTag,
    },
    pedersen_commitment::{CommitmentKey, Randomness as PedersenRandomness, Value as PedersenValue, VecCommitmentKey},
};
use curve25519_dalek::ristretto::RistrettoPoint;
use hlib::{guarded, hex, quiet_panics, unhex, Rng};
use key_derivation::{ConcordiumHdWallet, Net};
use rand::{rngs::StdRng, SeedableRng};
use serde_json::{json, Value as J};
use std::io::{BufRead, Cursor};

type G1 = ArkGroup<ark_ec::short_weierstrass::Projective<ark_bls12_381::g1::Config>>;
type G2 = ArkGroup<ark_ec::short_weierstrass::Projective<ark_bls12_381::g2::Config>>;
type Ed = RistrettoPoint;

// ------------------------------------------------------------------ 256-bit helpers (LE limbs)
type L4 = [u64; 4];
const BLS_R: L4 = [0xffffffff00000001, 0x53bda402fffe5bfe, 0x3339d80809a1d805, 0x73eda753299d7d48];
const ED_L: L4 = [0x5812631a5cf5d3ed, 0x14def9dea2f79cd6, 0, 0x1000000000000000];

fn lt(a: &L4, b: &L4) -> bool {
    for i in (0..4).rev() {
        if a[i] != b[i] {
            return a[i] < b[i];
        }
    }
    false
}
fn sub_small(a: &L4, k: u64) -> L4 {
    let mut r = *a;
    let mut borrow = k;
    for l in r.iter_mut() {
        let (v, b) = l.overflowing_sub(borrow);
        *l = v;
        borrow = b as u64;
        if borrow == 0 {
            break;
        }
    }
    r
}
fn add_small(a: &L4, k: u64) -> L4 {
    let mut r = *a;
    let mut carry = k;
    for l in r.iter_mut() {
        let (v, c) = l.overflowing_add(carry);
        *l = v;
        carry = c as u64;
        if carry == 0 {
            break;
        }
    }
    r
}
fn set_bit(a: &mut L4, i: usize) { if i < 256 { a[i / 64] |= 1u64 << (i % 64); } }
fn hex_l4(a: &L4) -> String { format!("{:016x}{:016x}{:016x}{:016x}", a[3], a[2], a[1], a[0]) }
fn l4_of_hex(s: &str) -> L4 {
    let s = format!("{:0>64}", s);
    let mut r = [0u64; 4];
    for i in 0..4 {
        r[3 - i] = u64::from_str_radix(&s[16 * i..16 * i + 16], 16).unwrap();
    }
    r
}
fn limbs_json(a: &[u64]) -> J { json!(a.iter().map(|x| format!("{:x}", x)).collect::<Vec<_>>()) }

/// A curve under test: its name, group order and a bound k such that 2^k < order.
trait TC: Curve {
    const NAME: &'static str;
    const ORDER: L4;
    const SAFE_BITS: usize;
}
impl TC for G1 { const NAME: &'static str = "g1"; const ORDER: L4 = BLS_R; const SAFE_BITS: usize = 254; }
impl TC for G2 { const NAME: &'static str = "g2"; const ORDER: L4 = BLS_R; const SAFE_BITS: usize = 254; }
impl TC for Ed { const NAME: &'static str = "ed"; const ORDER: L4 = ED_L; const SAFE_BITS: usize = 252; }

fn scalar_of<C: TC>(a: &L4) -> C::Scalar {
    <C::Scalar as PrimeField>::from_repr(&a[..]).expect("generator produced a reduced scalar")
}
fn l4_of_scalar<C: TC>(s: &C::Scalar) -> L4 {
    let v = s.into_repr();
    [v[0], v[1], v[2], v[3]]
}

/// Structured scalar generator: returns (class name, reduced scalar).
fn gen_scalar<C: TC>(r: &mut Rng) -> (&'static str, L4) {
    let ord = C::ORDER;
    let kmax = C::SAFE_BITS as u64;
    let (cls, mut v): (&'static str, L4) = match r.below(14) {
        0 => ("zero", [0; 4]),
        1 => ("one", [1, 0, 0, 0]),
        2 => ("order-1", sub_small(&ord, 1)),
        3 => ("order-small", sub_small(&ord, 1 + r.below(70000))),
        4 => { let mut a = [0; 4]; set_bit(&mut a, r.below(kmax + 1) as usize); ("pow2", a) }
        5 => { let mut a = [0; 4]; set_bit(&mut a, r.below(kmax + 1) as usize); ("pow2-1", sub_small(&a, 1)) }
        6 | 7 | 8 => {
            // all-ones window straddling a limb boundary, optionally with random low/high context
            let m = 64 * r.range(1, 3) as usize;
            let a = r.below(14) as usize;
            let b = r.below(14) as usize;
            let mut x = if r.chance(1, 2) { [0; 4] } else { [r.next(), r.next(), r.next(), r.next()] };
            if r.chance(1, 3) {
                // clear a gap around the window so that the run is isolated
                for i in m.saturating_sub(a + 3)..(m + b + 3).min(256) { x[i / 64] &= !(1u64 << (i % 64)); }
            }
            for i in (m - a)..(m + b) { set_bit(&mut x, i); }
            ("ones-at-limb-boundary", x)
        }
        9 => {
            // every limb 0, MAX or random: long carry chains
            let mut x = [0u64; 4];
            for l in x.iter_mut() { *l = match r.below(3) { 0 => 0, 1 => u64::MAX, _ => r.next() }; }
            ("limb-patterns", x)
        }
        10 => { let mut a = [0; 4]; set_bit(&mut a, r.range(1, kmax - 1) as usize);
                let k = r.below(40);
                ("pow2+-small", if r.chance(1, 2) { add_small(&a, k) } else { sub_small(&a, k + 1) }) }
        11 => ("small", [r.below(1 << 16), 0, 0, 0]),
        12 => ("edge-limbs", [r.u64_edge(), r.u64_edge(), r.u64_edge(), r.u64_edge()]),
        _ => ("random", [r.next(), r.next(), r.next(), r.next()]),
    };
    if !lt(&v, &ord) {
        // clear the top bits: the value drops below 2^SAFE_BITS < order
        let keep = C::SAFE_BITS - 192;
        v[3] &= (1u64 << keep) - 1;
    }
    (cls, v)
}

fn point_hex<C: Curve>(p: &C) -> String { hex(&to_bytes(p)) }

// ------------------------------------------------------------------ multiexp / wNAF
fn mexp_case<C: TC>(r: &mut Rng, idx: u64) -> J {
    let w: usize = match r.below(10) { 0..=3 => 4, 4 => 1, 5 => 2, 6 => 3, 7 => r.range(5, 8) as usize, 8 => r.range(9, 12) as usize, _ => r.range(1, 6) as usize };
    let len = match r.below(10) { 0 => 0, 1 | 2 => 1, 3 | 4 => 2, 5 | 6 => 3, 7 => r.range(4, 6) as usize, 8 => r.range(7, 12) as usize, _ => 2 };
    let len = if w > 8 { len.min(2) } else { len };
    let mut a: Vec<L4> = Vec::new();
    let mut pcls: Vec<&'static str> = Vec::new();
    for i in 0..len {
        let (c, v) = match r.below(8) {
            0 => ("identity", [0u64; 4]),
            1 => ("generator", [1, 0, 0, 0]),
            2 if i > 0 => ("repeated", a[r.below(i as u64) as usize]),
            3 => ("neg-generator", sub_small(&C::ORDER, 1)),
            _ => { let (_, v) = gen_scalar::<C>(r); ("multiple", v) }
        };
        a.push(v);
        pcls.push(c);
    }
    let mut scls = Vec::new();
    let mut sl: Vec<L4> = Vec::new();
    for _ in 0..len {
        let (c, v) = gen_scalar::<C>(r);
        scls.push(c);
        sl.push(v);
    }
    run_mexp::<C>(w, &a, &sl, pcls, scls, idx)
}

/// Run GenericMultiExp with window `w` on the points a_i * g and the scalars `sl`; record the digit
/// vectors (hook H3), the result, and the direct oracles.
fn run_mexp<C: TC>(w: usize, a: &[L4], sl: &[L4], pcls: Vec<&'static str>, scls: Vec<&'static str>, idx: u64) -> J {
    let g = C::one_point();
    let gs: Vec<C> = a.iter().map(|x| g.mul_by_scalar(&scalar_of::<C>(x))).collect();
    let ss: Vec<C::Scalar> = sl.iter().map(|x| scalar_of::<C>(x)).collect();
    // into_repr as the implementation sees it
    let reprs: Vec<Vec<u64>> = ss.iter().map(|s| s.into_repr()).collect();
    let _ = ca::verif_hooks::take_wnaf_digits();
    let res = guarded(|| GenericMultiExp::<C>::new(&gs, w).multiexp(&ss));
    let digits = ca::verif_hooks::take_wnaf_digits();
    // direct oracle: the naive sum, on the implementation alone
    let mut naive = C::zero_point();
    for (p, s) in gs.iter().zip(ss.iter()) { naive = naive.plus_point(&p.mul_by_scalar(s)); }
    // the algorithm the rest of the library uses for this curve (GenericMultiExp with w = 4 for
    // arkworks groups, dalek's multiscalar multiplication for ristretto)
    let tr = guarded(|| ca::multiexp::<C, C>(&gs, &ss));
    let (res_hex, naive_ok) = match &res { Ok(p) => (point_hex(p), *p == naive), Err(_) => ("PANIC".to_string(), false) };
    let trait_ok = match &tr { Ok(p) => *p == naive, Err(_) => false };
    json!({"k":"mexp","i":idx,"c":C::NAME,"w":w,"nb":<C::Scalar as PrimeField>::NUM_BITS,
        "a":a.iter().map(hex_l4).collect::<Vec<_>>(), "pcls":pcls,
        "s":reprs.iter().map(|v| limbs_json(v)).collect::<Vec<_>>(), "scls":scls,
        "d":digits, "res":res_hex, "naive_ok":naive_ok, "trait_ok":trait_ok})
}

/// stdin lines "curve w n a_1 .. a_n s_1 .. s_n" (hex): re-run one multiexp case (replay).
fn one() {
    for line in std::io::stdin().lock().lines() {
        let line = line.unwrap();
        let t: Vec<&str> = line.split_whitespace().collect();
        if t.len() < 3 { continue; }
        let w: usize = t[1].parse().unwrap();
        let n: usize = t[2].parse().unwrap();
        let a: Vec<L4> = t[3..3 + n].iter().map(|x| l4_of_hex(x)).collect();
        let s: Vec<L4> = t[3 + n..3 + 2 * n].iter().map(|x| l4_of_hex(x)).collect();
        let j = match t[0] { "g1" => run_mexp::<G1>(w, &a, &s, vec![], vec![], 0), "g2" => run_mexp::<G2>(w, &a, &s, vec![], vec![], 0), _ => run_mexp::<Ed>(w, &a, &s, vec![], vec![], 0) };
        println!("{}", j);
    }
}

/// stdin lines "g1|g2|ed|sbls|sed hexbytes": decode once more (replay).
fn decode() {
    for line in std::io::stdin().lock().lines() {
        let line = line.unwrap();
        let t: Vec<&str> = line.split_whitespace().collect();
        if t.is_empty() { continue; }
        let b = if t.len() > 1 { unhex(t[1]) } else { vec![] };
        let (acc, same) = match t[0] {
            "g1" => { let x = try_decode::<G1>(&b); (x.0, x.2) }
            "g2" => { let x = try_decode::<G2>(&b); (x.0, x.2) }
            "ed" => { let x = try_decode::<Ed>(&b); (x.0, x.2) }
            "sbls" => { let x = try_decode::<<G1 as Curve>::Scalar>(&b); (x.0, x.2) }
            _ => { let x = try_decode::<<Ed as Curve>::Scalar>(&b); (x.0, x.2) }
        };
        println!("{}", json!({"accepted":acc,"reenc_same":same}));
    }
}

fn pedersen_case<C: TC>(r: &mut Rng, idx: u64) -> J {
    let g0 = C::one_point();
    let (_, ag) = gen_scalar::<C>(r);
    let (_, ah) = gen_scalar::<C>(r);
    let (c1, v) = gen_scalar::<C>(r);
    let (c2, rr) = gen_scalar::<C>(r);
    let ck = CommitmentKey::<C>::new(g0.mul_by_scalar(&scalar_of::<C>(&ag)), g0.mul_by_scalar(&scalar_of::<C>(&ah)));
    let vs = scalar_of::<C>(&v);
    let rs = scalar_of::<C>(&rr);
    let res = guarded(|| ck.hide_worker(&vs, &rs));
    let naive = ck.g.mul_by_scalar(&vs).plus_point(&ck.h.mul_by_scalar(&rs));
    let (res_hex, ok) = match &res { Ok(c) => (point_hex(&c.0), c.0 == naive), Err(_) => ("PANIC".into(), false) };
    json!({"k":"pedersen","i":idx,"c":C::NAME,"w":4,"nb":<C::Scalar as PrimeField>::NUM_BITS,
        "a":[hex_l4(&ag), hex_l4(&ah)], "s":[limbs_json(&v), limbs_json(&rr)], "scls":[c1, c2],
        "res":res_hex, "naive_ok":ok})
}

// ------------------------------------------------------------------ vector / scalar Pedersen commitments
/// Randomness classes for the commitment cases: 0, 1, order-1, structured.
fn vcom_rand<C: TC>(r: &mut Rng, cls: u64) -> (&'static str, L4) {
    match cls { 0 => ("zero", [0; 4]), 1 => ("one", [1, 0, 0, 0]), 2 => ("order-1", sub_small(&C::ORDER, 1)),
        _ => { let (_, v) = gen_scalar::<C>(r); if v == [0; 4] { ("random", [r.next() | 2, r.next(), 0, 0]) } else { ("random", v) } } }
}
/// Non-zero multiplier of the generator, distinct from the ones in `used`.
fn vcom_base<C: TC>(r: &mut Rng, used: &[L4]) -> L4 {
    loop {
        let v = match r.below(4) { 0 => [r.range(1, 40), 0, 0, 0], 1 => sub_small(&C::ORDER, r.range(1, 40)), _ => gen_scalar::<C>(r).1 };
        if v != [0; 4] && !used.contains(&v) { return v; }
    }
}
/// VecCommitmentKey with n bases a_i*g and h = ah*g; commit to the first k values.  The expected result is the
/// naive sum_{i<k} v_i*g_i + r*h with the curve's own add/mul (and, in the check, (sum v_i a_i + r ah)*g).
fn vcom_case<C: TC>(r: &mut Rng, n: usize, k: usize, rcls: u64, zero_vals: bool) -> J {
    let g0 = C::one_point();
    let mut a: Vec<L4> = Vec::new();
    for _ in 0..n { let v = vcom_base::<C>(r, &a); a.push(v); }
    let ah = vcom_base::<C>(r, &a);
    let gs: Vec<C> = a.iter().map(|x| g0.mul_by_scalar(&scalar_of::<C>(x))).collect();
    let h = g0.mul_by_scalar(&scalar_of::<C>(&ah));
    let key = VecCommitmentKey::<C>::new(gs.clone(), h);
    let mut vcls = Vec::new();
    let mut v: Vec<L4> = Vec::new();
    for _ in 0..k { let (c, x) = if zero_vals { ("zero", [0u64; 4]) } else { gen_scalar::<C>(r) }; vcls.push(c); v.push(x); }
    let (rc, rr) = vcom_rand::<C>(r, rcls);
    let vs: Vec<C::Scalar> = v.iter().map(|x| scalar_of::<C>(x)).collect();
    let rs = scalar_of::<C>(&rr);
    let rnd = PedersenRandomness::<C>::new(rs);
    let mut naive = C::zero_point();
    for i in 0..k { naive = naive.plus_point(&gs[i].mul_by_scalar(&vs[i])); }
    naive = naive.plus_point(&h.mul_by_scalar(&rs));
    let res = guarded(|| key.hide_worker(&vs, &rs));
    let res2 = guarded(|| key.hide(&vs, &rnd));
    let (res_hex, naive_ok, hide_same) = match (&res, &res2) {
        (Ok(Some(c)), Ok(Some(c2))) => (point_hex(&c.0), c.0 == naive, c.0 == c2.0),
        (Ok(None), _) => ("NONE".to_string(), false, false),
        (Ok(Some(c)), _) => (point_hex(&c.0), c.0 == naive, false),
        (Err(_), _) => ("PANIC".to_string(), false, false) };
    // open: accepts the naive commitment, rejects it for the randomness + 1 (h is not the identity)
    let ncm = concordium_base::pedersen_commitment::Commitment(naive);
    let open_ok = guarded(|| key.open(&vs, &rnd, &ncm)).unwrap_or(false);
    let mut r1 = rs; <C::Scalar as concordium_base::curve_arithmetic::Field>::add_assign(&mut r1, &<C::Scalar as concordium_base::curve_arithmetic::Field>::one());
    let open_rej = guarded(|| !key.open(&vs, &PedersenRandomness::<C>::new(r1), &ncm)).unwrap_or(false);
    // one value too many: None
    let mut over = vs.clone();
    while over.len() <= n { over.push(rs); }
    let over_none = matches!(guarded(|| key.hide_worker(&over, &rs)), Ok(None));
    json!({"k":"vcom","c":C::NAME,"n":n,"kk":k,"a":a.iter().map(hex_l4).collect::<Vec<_>>(),"ah":hex_l4(&ah),
        "v":v.iter().map(hex_l4).collect::<Vec<_>>(),"vcls":vcls,"r":hex_l4(&rr),"rcls":rc,
        "res":res_hex,"naive_ok":naive_ok,"hide_same":hide_same,"open_ok":open_ok,"open_rej":open_rej,"over_none":over_none})
}
/// Scalar CommitmentKey (g,h) = (ag*g0, ah*g0): hide / open of (value, randomness), incl. the 0 boundaries.
fn ckey_case<C: TC>(r: &mut Rng, vc: u64, rcls: u64) -> J {
    let g0 = C::one_point();
    let ag = vcom_base::<C>(r, &[]);
    let ah = vcom_base::<C>(r, &[ag]);
    let ck = CommitmentKey::<C>::new(g0.mul_by_scalar(&scalar_of::<C>(&ag)), g0.mul_by_scalar(&scalar_of::<C>(&ah)));
    let (c1, v) = vcom_rand::<C>(r, vc);
    let (c2, rr) = vcom_rand::<C>(r, rcls);
    let vs = scalar_of::<C>(&v);
    let rs = scalar_of::<C>(&rr);
    let val = PedersenValue::<C>::new(vs);
    let rnd = PedersenRandomness::<C>::new(rs);
    let naive = ck.g.mul_by_scalar(&vs).plus_point(&ck.h.mul_by_scalar(&rs));
    let res = guarded(|| ck.hide(&val, &rnd));
    let (res_hex, naive_ok) = match &res { Ok(c) => (point_hex(&c.0), c.0 == naive), Err(_) => ("PANIC".to_string(), false) };
    let ncm = concordium_base::pedersen_commitment::Commitment(naive);
    let open_ok = guarded(|| ck.open(&val, &rnd, &ncm)).unwrap_or(false);
    let mut r1 = rs; <C::Scalar as concordium_base::curve_arithmetic::Field>::add_assign(&mut r1, &<C::Scalar as concordium_base::curve_arithmetic::Field>::one());
    let open_rej = guarded(|| !ck.open(&val, &PedersenRandomness::<C>::new(r1), &ncm)).unwrap_or(false);
    let zero_is_identity = if v == [0; 4] && rr == [0; 4] { match &res { Ok(c) => c.0 == C::zero_point(), Err(_) => false } } else { true };
    json!({"k":"ckey","c":C::NAME,"n":1,"kk":1,"a":[hex_l4(&ag)],"ah":hex_l4(&ah),"v":[hex_l4(&v)],"vcls":[c1],"r":hex_l4(&rr),"rcls":c2,
        "res":res_hex,"naive_ok":naive_ok,"hide_same":true,"open_ok":open_ok,"open_rej":open_rej,"over_none":zero_is_identity})
}
fn vcom_curve<C: TC>(r: &mut Rng, rounds: u64) {
    for round in 0..rounds {
        for n in 1..=6usize {
            for k in 0..=n {
                for rcls in 0..4u64 { println!("{}", vcom_case::<C>(r, n, k, rcls, false)); }
                if round == 0 { println!("{}", vcom_case::<C>(r, n, k, 0, true)); println!("{}", vcom_case::<C>(r, n, k, 3, true)); }
            }
        }
        for vc in 0..4u64 { for rcls in 0..4u64 { println!("{}", ckey_case::<C>(r, vc, rcls)); } }
    }
}
fn vcom(seed: u64, rounds: u64) {
    let mut r = Rng::new(seed ^ 0x7C0);
    vcom_curve::<G1>(&mut r, rounds);
    vcom_curve::<Ed>(&mut r, rounds);
    vcom_curve::<G2>(&mut r, (rounds + 1) / 2);
}

fn mexp(seed: u64, n: u64) {
    let mut r = Rng::new(seed ^ 0xC20);
    // fixed boundary cases first: single scalars of every special shape with the default window
    for i in 0..n {
        let j = match i % 8 { 0 | 1 | 2 | 3 => mexp_case::<G1>(&mut r, i), 4 | 5 => mexp_case::<Ed>(&mut r, i),
            6 => mexp_case::<G2>(&mut r, i), _ => if r.chance(1, 2) { pedersen_case::<G1>(&mut r, i) } else { pedersen_case::<Ed>(&mut r, i) } };
        println!("{}", j);
    }
}

/// Digit vectors only, in volume: one scalar per call, table of a single point (cheap for G1).
fn wnaf(seed: u64, n: u64) {
    let mut r = Rng::new(seed ^ 0x3A7);
    let g = [G1::one_point()];
    let ge = [Ed::one_point()];
    // deterministic sweep: ones-runs across every limb boundary for every window size 1..=8
    let mut fixed: Vec<(usize, L4)> = Vec::new();
    for w in 1..=8usize {
        for m in [64usize, 128, 192] {
            for a in 0..=(w + 2) {
                for b in 0..=(w + 2) {
                    if a + b == 0 { continue; }
                    let mut x = [0u64; 4];
                    for i in (m - a)..(m + b) { set_bit(&mut x, i); }
                    fixed.push((w, x));
                }
            }
        }
        fixed.push((w, sub_small(&BLS_R, 1)));
        fixed.push((w, [0; 4]));
        fixed.push((w, [1, 0, 0, 0]));
        for k in [63usize, 64, 65, 127, 128, 129, 191, 192, 193, 253, 254] {
            let mut x = [0u64; 4];
            set_bit(&mut x, k);
            fixed.push((w, x));
            fixed.push((w, sub_small(&x, 1)));
        }
    }
    let total = n as usize;
    let mut count = 0usize;
    let emit = |c: &str, w: usize, v: &[u64], d: Option<Vec<Vec<i64>>>, cls: &str| {
        println!("{}", json!({"k":"wnaf","c":c,"w":w,"s":[limbs_json(v)],"d":d,"cls":cls}));
    };
    for (w, x) in fixed.iter() {
        if count >= total { break; }
        if !lt(x, &BLS_R) { continue; }
        let s = scalar_of::<G1>(x);
        let _ = ca::verif_hooks::take_wnaf_digits();
        let _ = guarded(|| GenericMultiExp::<G1>::new(&g, *w).multiexp(&[s]));
        emit("g1", *w, &s.into_repr(), ca::verif_hooks::take_wnaf_digits(), "sweep");
        count += 1;
    }
    while count < total {
        let w = match r.below(6) { 0 | 1 => 4, 2 => r.range(1, 3) as usize, 3 => r.range(5, 8) as usize, 4 => r.range(9, 14) as usize, _ => r.range(1, 8) as usize };
        if r.chance(1, 4) {
            let (cls, x) = gen_scalar::<Ed>(&mut r);
            let s = scalar_of::<Ed>(&x);
            let _ = ca::verif_hooks::take_wnaf_digits();
            let _ = guarded(|| GenericMultiExp::<Ed>::new(&ge, w).multiexp(&[s]));
            emit("ed", w, &s.into_repr(), ca::verif_hooks::take_wnaf_digits(), cls);
        } else {
            let (cls, x) = gen_scalar::<G1>(&mut r);
            let s = scalar_of::<G1>(&x);
            let _ = ca::verif_hooks::take_wnaf_digits();
            let _ = guarded(|| GenericMultiExp::<G1>::new(&g, w).multiexp(&[s]));
            emit("g1", w, &s.into_repr(), ca::verif_hooks::take_wnaf_digits(), cls);
        }
        count += 1;
    }
}

/// stdin lines "curve dloghex pointhex": does dlog * generator encode to pointhex?
fn dlog() {
    for line in std::io::stdin().lock().lines() {
        let line = line.unwrap();
        let t: Vec<&str> = line.split_whitespace().collect();
        if t.len() != 3 { continue; }
        let v = l4_of_hex(t[1]);
        let ok = match t[0] {
            "g1" => lt(&v, &BLS_R) && point_hex(&G1::one_point().mul_by_scalar(&scalar_of::<G1>(&v))) == t[2],
            "g2" => lt(&v, &BLS_R) && point_hex(&G2::one_point().mul_by_scalar(&scalar_of::<G2>(&v))) == t[2],
            _ => lt(&v, &ED_L) && point_hex(&Ed::one_point().mul_by_scalar(&scalar_of::<Ed>(&v))) == t[2],
        };
        println!("{}", if ok { 1 } else { 0 });
    }
}

// ------------------------------------------------------------------ encodings
fn try_decode<A: Deserial + Serial + PartialEq>(bytes: &[u8]) -> (bool, Option<A>, Option<bool>) {
    let res = guarded(|| from_bytes::<A, _>(&mut Cursor::new(bytes.to_vec())));
    match res {
        Ok(Ok(v)) => { let re = to_bytes(&v); let same = re == bytes; (true, Some(v), Some(same)) }
        Ok(Err(_)) => (false, None, None),
        Err(_) => (false, None, Some(false)), // panic: reported as accepted=false, reenc=false => flagged below
    }
}

fn dec_line(c: &str, kind: &str, expect: &str, bytes: &[u8], acc: bool, same: Option<bool>, extra: J) {
    println!("{}", json!({"k":"dec","c":c,"kind":kind,"expect":expect,"bytes":hex(bytes),"accepted":acc,"reenc_same":same,"x":extra}));
}

const FQ_MODULUS_BE: &str = "1a0111ea397fe69a4b1ba7b6434bacd764774b84f38512bf6730d2a0f6b0f6241eabfffeb153ffffb9feffffffffaaab";

fn be_add(a: &[u8], b: &[u8]) -> Vec<u8> {
    let mut r = vec![0u8; a.len()];
    let mut c = 0u16;
    for i in (0..a.len()).rev() { let s = a[i] as u16 + b[i] as u16 + c; r[i] = s as u8; c = s >> 8; }
    r
}

fn enc_points_ark<P: ark_ec::short_weierstrass::SWCurveConfig>(r: &mut Rng, n: u64, name: &str, len: usize)
where
    ArkGroup<ark_ec::short_weierstrass::Projective<P>>: Curve + TC,
{
    type Pr<P> = ark_ec::short_weierstrass::Projective<P>;
    type Af<P> = ark_ec::short_weierstrass::Affine<P>;
    let g = <ArkGroup<Pr<P>> as Curve>::one_point();
    let modulus = unhex(FQ_MODULUS_BE);
    let order = <<Pr<P> as Group>::ScalarField as ArkPrimeField>::MODULUS;
    for i in 0..n {
        // a valid point
        let (_, a) = if i == 0 { ("", [0u64; 4]) } else if i == 1 { ("", [1, 0, 0, 0]) } else { gen_scalar::<ArkGroup<Pr<P>>>(r) };
        let p = g.mul_by_scalar(&scalar_of::<ArkGroup<Pr<P>>>(&a));
        let bytes = to_bytes(&p);
        let (acc, v, same) = try_decode::<ArkGroup<Pr<P>>>(&bytes);
        let eq = v.map(|q| q == p).unwrap_or(false);
        dec_line(name, "valid", "accept", &bytes, acc && eq && bytes.len() == len, same, json!({"a":hex_l4(&a)}));
        let is_zero = p.is_zero_point();
        // compression flag cleared
        let mut b = bytes.clone(); b[0] &= 0x7f;
        let (acc, _, same) = try_decode::<ArkGroup<Pr<P>>>(&b);
        dec_line(name, "compression-flag-cleared", "reject", &b, acc, same, J::Null);
        // sort flag flipped: the other root (a different, valid point) - or, for infinity, non-canonical
        let mut b = bytes.clone(); b[0] ^= 0x20;
        let (acc, v, same) = try_decode::<ArkGroup<Pr<P>>>(&b);
        if is_zero {
            dec_line(name, "infinity-with-sort-flag", "reject", &b, acc, same, J::Null);
        } else {
            let neg_ok = v.map(|q| q == p.inverse_point()).unwrap_or(false);
            dec_line(name, "sort-flag-flipped", "accept", &b, acc && neg_ok, same, J::Null);
        }
        // infinity flag set on a non-zero x
        if !is_zero {
            let mut b = bytes.clone(); b[0] |= 0x40;
            let (acc, _, same) = try_decode::<ArkGroup<Pr<P>>>(&b);
            dec_line(name, "infinity-flag-with-nonzero-x", "reject", &b, acc, same, J::Null);
            let mut b = vec![0u8; len]; b[0] = 0xc0; let k = 1 + r.below(len as u64 - 1) as usize; b[k] = 1 + r.below(255) as u8;
            let (acc, _, same) = try_decode::<ArkGroup<Pr<P>>>(&b);
            dec_line(name, "infinity-flag-with-junk", "reject", &b, acc, same, J::Null);
        }
        // truncated
        let b = bytes[..len - 1 - r.below(3) as usize].to_vec();
        let (acc, _, same) = try_decode::<ArkGroup<Pr<P>>>(&b);
        dec_line(name, "truncated", "reject", &b, acc, same, J::Null);
        // first coordinate component >= p : x + p still fits in 381 bits when x is small enough
        {
            let mut b = vec![0u8; len];
            let small: Vec<u8> = { let mut t = vec![0u8; 48]; let rb = r.bytes(40); t[8..].copy_from_slice(&rb); if r.chance(1, 4) { vec![0u8; 48] } else { t } };
            let xp = be_add(&small, &modulus);
            if xp[0] < 0x20 {
                b[..48].copy_from_slice(&xp);
                if len == 96 { let rb = r.bytes(48); b[48..].copy_from_slice(&rb); b[48] &= 0x0f; }
                b[0] |= 0x80 | if r.chance(1, 2) { 0x20 } else { 0 };
                let (acc, _, same) = try_decode::<ArkGroup<Pr<P>>>(&b);
                dec_line(name, "coordinate>=p", "reject", &b, acc, same, J::Null);
            }
            if len == 96 {
                // second component (c0) >= p
                let mut b = bytes.clone();
                let xp = be_add(&small, &modulus);
                b[48..].copy_from_slice(&xp);
                let (acc, _, same) = try_decode::<ArkGroup<Pr<P>>>(&b);
                dec_line(name, "coordinate-c0>=p", "reject", &b, acc, same, J::Null);
            }
        }
        // random x: off curve, or on curve but (almost surely) outside the prime-order subgroup
        {
            let mut b = r.bytes(len);
            b[0] = (b[0] & 0x1f) | 0x80 | if r.chance(1, 2) { 0x20 } else { 0 };
            b[0] &= 0xef | 0x80; // keep x below 2^380 so that it is a field element
            b[0] &= !0x10;
            if len == 96 { b[48] &= 0x0f; }
            // classify independently of the decoder
            let x = {
                use ark_serialize::CanonicalDeserialize;
                let mut le: Vec<u8> = Vec::new();
                if len == 48 { let mut t = b.clone(); t[0] &= 0x1f; t.reverse(); le = t; }
                else { let mut c1 = b[..48].to_vec(); c1[0] &= 0x1f; c1.reverse(); let mut c0 = b[48..].to_vec(); c0.reverse(); le.extend(c0); le.extend(c1); }
                P::BaseField::deserialize_uncompressed(&le[..]).ok()
            };
            if let Some(x) = x {
                let rhs = x * x * x + P::COEFF_A * x + P::COEFF_B;
                let on_curve = rhs.legendre().is_qr();
                let (acc, _, same) = try_decode::<ArkGroup<Pr<P>>>(&b);
                if !on_curve {
                    dec_line(name, "off-curve-x", "reject", &b, acc, same, J::Null);
                } else {
                    let y = rhs.sqrt().unwrap();
                    let q = Af::<P>::new_unchecked(x, y);
                    // subgroup membership by plain multiplication with the group order (independent of
                    // the endomorphism-based check the decoder uses)
                    let in_sub = q.into_group().mul_bigint(order).is_zero();
                    dec_line(name, if in_sub { "random-x-in-subgroup" } else { "wrong-subgroup" }, if in_sub { "accept" } else { "reject" }, &b, acc, same, J::Null);
                }
            }
        }
        // a wrong-subgroup point obtained by clearing only part of the cofactor is the same class as above;
        // fully random bytes: accepted => canonical
        let b = r.bytes(len);
        let (acc, _, same) = try_decode::<ArkGroup<Pr<P>>>(&b);
        dec_line(name, "random-bytes", "any", &b, acc, same, J::Null);
    }
}

fn enc(seed: u64, n: u64) {
    let mut r = Rng::new(seed ^ 0xE2C);
    enc_points_ark::<ark_bls12_381::g1::Config>(&mut r, n, "g1", 48);
    enc_points_ark::<ark_bls12_381::g2::Config>(&mut r, (n / 3).max(3), "g2", 96);
    // ristretto points
    let g = Ed::one_point();
    for i in 0..n {
        let (_, a) = if i == 0 { ("", [0u64; 4]) } else { gen_scalar::<Ed>(&mut r) };
        let p = g.mul_by_scalar(&scalar_of::<Ed>(&a));
        let bytes = to_bytes(&p);
        let (acc, v, same) = try_decode::<Ed>(&bytes);
        let eq = v.map(|q| q == p).unwrap_or(false);
        dec_line("ed", "valid", "accept", &bytes, acc && eq && bytes.len() == 32, same, json!({"a":hex_l4(&a)}));
        // top bit set
        let mut b = bytes.clone(); b[31] |= 0x80;
        let (acc, _, same) = try_decode::<Ed>(&b);
        dec_line("ed", "top-bit-set", "reject", &b, acc, same, J::Null);
        // negative representative p - s (low bit set) for s != 0
        if bytes.iter().any(|x| *x != 0) {
            let mut pm = [0xffu8; 32]; pm[0] = 0xed; pm[31] = 0x7f; // 2^255 - 19, little endian
            let mut b = [0u8; 32];
            let mut borrow = 0i16;
            for k in 0..32 { let d = pm[k] as i16 - bytes[k] as i16 - borrow; if d < 0 { b[k] = (d + 256) as u8; borrow = 1 } else { b[k] = d as u8; borrow = 0 } }
            let (acc, _, same) = try_decode::<Ed>(&b);
            dec_line("ed", "negative-s", "reject", &b, acc, same, J::Null);
        }
        // s >= p
        let mut b = [0xffu8; 32]; b[31] = 0x7f; b[0] = 0xed + (r.below(19) as u8);
        let (acc, _, same) = try_decode::<Ed>(&b);
        dec_line("ed", "s>=p", "reject", &b, acc, same, J::Null);
        let b = bytes[..31].to_vec();
        let (acc, _, same) = try_decode::<Ed>(&b);
        dec_line("ed", "truncated", "reject", &b, acc, same, J::Null);
        let mut b = r.bytes(32); if r.chance(1, 2) { b[31] &= 0x7f; b[0] &= 0xfe; }
        let (acc, _, same) = try_decode::<Ed>(&b);
        dec_line("ed", "random-bytes", "any", &b, acc, same, J::Null);
    }
    // scalars: canonical codec, compared with the model by the check
    for i in 0..(4 * n) {
        // BLS Fr, 32 bytes big endian
        let v: L4 = match i % 8 {
            0 => gen_scalar::<G1>(&mut r).1,
            1 => BLS_R, 2 => add_small(&BLS_R, 1 + r.below(1000)), 3 => [u64::MAX; 4],
            4 => sub_small(&BLS_R, 1), 5 => { let mut x = BLS_R; x[3] |= 0x8000000000000000; x }
            6 => { let mut x = [r.next(), r.next(), r.next(), r.next()]; if r.chance(1, 2) { x[3] = BLS_R[3]; x[2] = BLS_R[2]; x[1] = BLS_R[1]; } x }
            _ => [r.next(), r.next(), r.next(), r.next()],
        };
        let bytes = unhex(&hex_l4(&v));
        let res = guarded(|| from_bytes::<<G1 as Curve>::Scalar, _>(&mut Cursor::new(bytes.clone())));
        let (out, same) = match res { Ok(Ok(s)) => (hex_l4(&l4_of_scalar::<G1>(&s)), Some(to_bytes(&s) == bytes)), Ok(Err(_)) => ("None".into(), None), Err(_) => ("PANIC".into(), None) };
        println!("{}", json!({"k":"sdec","c":"bls","bytes":hex(&bytes),"r":out,"reenc_same":same,"below":lt(&v,&BLS_R)}));
        // ristretto scalar, 32 bytes little endian
        let v: L4 = match i % 8 {
            0 => gen_scalar::<Ed>(&mut r).1,
            1 => ED_L, 2 => add_small(&ED_L, 1 + r.below(1000)), 3 => [u64::MAX; 4],
            4 => sub_small(&ED_L, 1), 5 => { let mut x = gen_scalar::<Ed>(&mut r).1; x[3] |= 1u64 << (60 + r.below(4)); x }
            6 => { let mut x = [r.next(), r.next(), 0, ED_L[3]]; if r.chance(1, 2) { x[1] = ED_L[1]; } x }
            _ => [r.next(), r.next(), r.next(), r.next() >> r.below(8)],
        };
        let mut bytes = unhex(&hex_l4(&v)); bytes.reverse();
        let res = guarded(|| from_bytes::<<Ed as Curve>::Scalar, _>(&mut Cursor::new(bytes.clone())));
        let (out, same) = match res { Ok(Ok(s)) => (hex_l4(&l4_of_scalar::<Ed>(&s)), Some(to_bytes(&s) == bytes)), Ok(Err(_)) => ("None".into(), None), Err(_) => ("PANIC".into(), None) };
        println!("{}", json!({"k":"sdec","c":"ed","bytes":hex(&bytes),"r":out,"reenc_same":same,"below":lt(&v,&ED_L)}));
        // scalar_from_bytes
        let blen = match r.below(6) { 0 => r.below(9) as usize, 1 => 31, 2 => 32, 3 => 33 + r.below(20) as usize, _ => r.below(40) as usize };
        let mut bs = r.bytes(blen);
        if r.chance(1, 3) { for b in bs.iter_mut() { *b = 0xff; } }
        let o1 = guarded(|| G1::scalar_from_bytes(&bs));
        let o2 = guarded(|| Ed::scalar_from_bytes(&bs));
        println!("{}", json!({"k":"sfb","bytes":hex(&bs),
            "bls": o1.map(|s| hex_l4(&l4_of_scalar::<G1>(&s))).unwrap_or("PANIC".into()),
            "ed": o2.map(|s| hex_l4(&l4_of_scalar::<Ed>(&s))).unwrap_or("PANIC".into())}));
    }
    // hash_to_group: deterministic, lands in the prime-order subgroup, encodes canonically
    for i in 0..n {
        let m = match i { 0 => vec![], 1 => vec![0u8], _ => { let l = r.below(200) as usize; r.bytes(l) } };
        let h1 = guarded(|| G1::hash_to_group(&m).map(|p| p)).ok().and_then(|x| x.ok());
        let h1b = guarded(|| G1::hash_to_group(&m)).ok().and_then(|x| x.ok());
        let ok1 = match (&h1, &h1b) { (Some(p), Some(q)) => {
            let ins = p.into_ark().mul_bigint(<ark_bls12_381::Fr as ArkPrimeField>::MODULUS).is_zero();
            let on = p.into_ark().into_affine().is_on_curve();
            let rt = try_decode::<G1>(&to_bytes(p));
            p == q && ins && on && rt.0 && rt.2 == Some(true) } _ => false };
        let h2 = guarded(|| G2::hash_to_group(&m)).ok().and_then(|x| x.ok());
        let h2b = guarded(|| G2::hash_to_group(&m)).ok().and_then(|x| x.ok());
        let ok2 = match (&h2, &h2b) { (Some(p), Some(q)) => {
            let ins = p.into_ark().mul_bigint(<ark_bls12_381::Fr as ArkPrimeField>::MODULUS).is_zero();
            let on = p.into_ark().into_affine().is_on_curve();
            let rt = try_decode::<G2>(&to_bytes(p));
            p == q && ins && on && rt.0 && rt.2 == Some(true) } _ => false };
        let h3 = guarded(|| Ed::hash_to_group(&m)).ok().and_then(|x| x.ok());
        let h3b = guarded(|| Ed::hash_to_group(&m)).ok().and_then(|x| x.ok());
        let ok3 = match (&h3, &h3b) { (Some(p), Some(q)) => { let rt = try_decode::<Ed>(&to_bytes(p)); p == q && rt.0 && rt.2 == Some(true)
            && p.mul_by_scalar(&scalar_of::<Ed>(&sub_small(&ED_L, 1))).plus_point(p).is_zero_point() } _ => false };
        println!("{}", json!({"k":"hash","m":hex(&m),"g1":ok1,"g2":ok2,"ed":ok3,
            "h1":h1.map(|p| point_hex(&p)),"h2":h2.map(|p| point_hex(&p)),"h3":h3.map(|p| point_hex(&p))}));
    }
}

// ------------------------------------------------------------------ secret sharing
fn shamir_curve<C: TC>(r: &mut Rng, csprng: &mut StdRng, nmax: usize, rounds: u64) {
    let g = C::one_point();
    for round in 0..rounds {
        for n in 1..=nmax {
            for t in 1..=n {
                let (_, sec) = if round == 0 && t == 2 { ("", [0u64; 4]) } else { gen_scalar::<C>(r) };
                let secret = scalar_of::<C>(&sec);
                // distinct non-zero points
                let mut xs: Vec<u64> = Vec::new();
                while xs.len() < n {
                    let x = match (round + n as u64) % 3 { 0 => (xs.len() + 1) as u64, 1 => 1 + r.below(12), _ => match r.below(4) { 0 => u64::MAX - r.below(3), 1 => r.next(), 2 => 1 + r.below(300), _ => (1u64 << 32) + r.below(4) } };
                    if x != 0 && !xs.contains(&x) { xs.push(x); }
                }
                if round % 2 == 1 { for i in (1..xs.len()).rev() { let j = r.below(i as u64 + 1) as usize; xs.swap(i, j); } }
                let sd = match guarded(|| share::<C, _, _, _>(&secret, xs.iter().copied(), Threshold::try_new(t as u8).unwrap(), csprng)) {
                    Ok(sd) => sd,
                    Err(_) => { println!("{}", json!({"k":"share","c":C::NAME,"n":n,"t":t,"PANIC":true})); continue; }
                };
                let coeffs: Vec<L4> = sd.coefficients.iter().map(|c| l4_of_scalar::<C>(c)).collect();
                let shares: Vec<L4> = sd.shares.iter().map(|c| l4_of_scalar::<C>(c)).collect();
                println!("{}", json!({"k":"share","c":C::NAME,"n":n,"t":t,"secret":hex_l4(&sec),
                    "coeffs":coeffs.iter().map(hex_l4).collect::<Vec<_>>(), "xs":xs.iter().map(|x| format!("{:x}", x)).collect::<Vec<_>>(),
                    "shares":shares.iter().map(hex_l4).collect::<Vec<_>>(),
                    "top_nonzero": coeffs.last().map(|c| c.iter().any(|l| *l != 0)).unwrap_or(true)}));
                // the base of the "in the exponent" variant
                let (_, b) = gen_scalar::<C>(r);
                let b = if b.iter().all(|l| *l == 0) { [5, 0, 0, 0] } else { b };
                let h = g.mul_by_scalar(&scalar_of::<C>(&b));
                let secret_point = h.mul_by_scalar(&secret);
                for mask in 0u32..(1u32 << n) {
                    let sz = mask.count_ones() as usize;
                    if sz + 1 < t { continue; }
                    let mut idx: Vec<usize> = (0..n).filter(|i| mask >> i & 1 == 1).collect();
                    if r.chance(1, 2) { idx.reverse(); }
                    let sub: Vec<(u64, PedersenValue<C>)> = idx.iter().map(|&i| (xs[i], sd.shares[i].clone())).collect();
                    let subg: Vec<(u64, C)> = idx.iter().map(|&i| (xs[i], h.mul_by_scalar(&sd.shares[i]))).collect();
                    let rv = guarded(|| reveal::<u64, C>(&sub));
                    let rg = guarded(|| reveal_in_group::<u64, C>(&subg));
                    let (rvh, f_eq) = match &rv { Ok(v) => (hex_l4(&l4_of_scalar::<C>(v)), *v == secret), Err(_) => ("PANIC".into(), false) };
                    let (rgh, g_eq, g_consistent) = match (&rg, &rv) { (Ok(p), Ok(v)) => (point_hex(p), *p == secret_point, *p == h.mul_by_scalar(v)), _ => ("PANIC".into(), false, false) };
                    println!("{}", json!({"k":"reveal","c":C::NAME,"n":n,"t":t,"size":sz,
                        "xs":idx.iter().map(|&i| format!("{:x}", xs[i])).collect::<Vec<_>>(),
                        "ys":idx.iter().map(|&i| hex_l4(&shares[i])).collect::<Vec<_>>(),
                        "b":hex_l4(&b),"secret":hex_l4(&sec),"field":rvh,"field_is_secret":f_eq,
                        "group":rgh,"group_is_secret":g_eq,"group_matches_field":g_consistent}));
                }
            }
        }
    }
}

fn shamir(seed: u64, rounds: u64) {
    let mut r = Rng::new(seed ^ 0x5A);
    let mut csprng = StdRng::seed_from_u64(seed);
    shamir_curve::<G1>(&mut r, &mut csprng, 6, rounds);
    shamir_curve::<Ed>(&mut r, &mut csprng, 4, 1);
}

// ------------------------------------------------------------------ key derivation
const TEST_SEED_1: &str = "efa5e27326f8fa0902e647b52449bf335b7b605adc387015ec903f41d95080eb71361cbc7fb78721dcd4f3926a337340aa1406df83332c44c1cdcfe100603860";

fn net_of(i: u64) -> Net { if i == 0 { Net::Mainnet } else { Net::Testnet } }

/// Run one getter; returns hex of the serialized secret or "Err".
fn getter(w: &ConcordiumHdWallet, kind: &str, a: &[u64]) -> String {
    let u = |i: usize| a[i] as u32;
    let res = guarded(|| -> Result<String, key_derivation::DeriveError> {
        Ok(match kind {
            "sign" => hex(&w.get_account_signing_key(u(0), u(1), u(2))?),
            "idcredsec" => hex(&to_bytes(&w.get_id_cred_sec(u(0), u(1))?)),
            "prf" => hex(&to_bytes(&w.get_prf_key(u(0), u(1))?)),
            "blind" => hex(&to_bytes(&w.get_blinding_randomness(u(0), u(1))?)),
            "attr" => hex(&to_bytes(&w.get_attribute_commitment_randomness(u(0), u(1), u(2), AttributeTag(a[3] as u8))?)),
            "vcsign" => hex(&w.get_verifiable_credential_signing_key(ContractAddress::new(a[0], a[1]), u(2))?),
            _ => hex(&w.get_verifiable_credential_backup_encryption_key()?),
        })
    });
    match res { Ok(Ok(s)) => s, Ok(Err(_)) => "Err".into(), Err(_) => "PANIC".into() }
}

fn public_matches(w: &ConcordiumHdWallet, kind: &str, a: &[u64]) -> Option<bool> {
    use ed25519_dalek::{Signer, SigningKey, Verifier};
    let u = |i: usize| a[i] as u32;
    let (sk, pk) = match kind {
        "sign" => (w.get_account_signing_key(u(0), u(1), u(2)).ok()?, w.get_account_public_key(u(0), u(1), u(2)).ok()?),
        "vcsign" => (w.get_verifiable_credential_signing_key(ContractAddress::new(a[0], a[1]), u(2)).ok()?,
                     w.get_verifiable_credential_public_key(ContractAddress::new(a[0], a[1]), u(2)).ok()?),
        _ => return None,
    };
    let signing = SigningKey::from_bytes(&sk);
    let msg = b"c20 public key matches secret key";
    let sig = signing.sign(msg);
    // public = secret * base: recompute the public key from the clamped SHA-512 expansion with dalek's ristretto-free API
    let direct = signing.verifying_key() == pk;
    Some(direct && pk.verify(msg, &sig).is_ok())
}

fn hkdf_okm(ikm: &[u8], key_info: &[u8], round: usize) -> Vec<u8> {
    use hkdf::Hkdf;
    use sha2::{Digest, Sha256};
    let mut ikm = ikm.to_vec(); ikm.push(0);
    let mut l_bytes = key_info.to_vec(); l_bytes.push(0); l_bytes.push(48);
    let mut salt = Sha256::digest(&b"BLS-SIG-KEYGEN-SALT-"[..]);
    for _ in 0..round { salt = Sha256::digest(salt); }
    let (_, h) = Hkdf::<Sha256>::extract(Some(&salt), &ikm);
    let mut okm = vec![0u8; 48];
    h.expand(&l_bytes, &mut okm).unwrap();
    okm
}

fn kd(seed: u64, n: u64) {
    let mut r = Rng::new(seed ^ 0x4D);
    // repository test vectors
    let vectors: &[(u64, &str, &[u64], &str)] = &[
        (0, "sign", &[0, 55, 7], "e4d1693c86eb9438feb9cbc3d561fbd9299e3a8b3a676eb2483b135f8dbf6eb1"),
        (0, "idcredsec", &[2, 115], "33b9d19b2496f59ed853eb93b9d374482d2e03dd0a12e7807929d6ee54781bb1"),
        (0, "prf", &[3, 35], "4409e2e4acffeae641456b5f7406ecf3e1e8bd3472e2df67a9f1e8574f211bc5"),
        (0, "blind", &[4, 5713], "1e3633af2b1dbe5600becfea0324bae1f4fa29f90bdf419f6fba1ff520cb3167"),
        (0, "attr", &[5, 0, 4, 0], "6ef6ba6490fa37cd517d2b89a12b77edf756f89df5e6f5597440630cd4580b8f"),
        (1, "sign", &[0, 55, 7], "aff97882c6df085e91ae2695a32d39dccb8f4b8d68d2f0db9637c3a95f845e3c"),
        (1, "idcredsec", &[2, 115], "33c9c538e362c5ac836afc08210f4b5d881ba65a0a45b7e353586dad0a0f56df"),
        (1, "prf", &[3, 35], "41d794d0b06a7a31fb79bb76c44e6b87c63e78f9afe8a772fc64d20f3d9e8e82"),
        (1, "blind", &[4, 5713], "079eb7fe4a2e89007f411ede031543bd7f687d50341a5596e015c9f2f4c1f39b"),
        (1, "attr", &[5, 0, 4, 0], "409fa90314ec8fb4a2ae812fd77fe58bfac81765cad3990478ff7a73ba6d88ae"),
    ];
    let seed1: [u8; 64] = unhex(TEST_SEED_1).try_into().unwrap();
    for (net, kind, a, want) in vectors {
        let w = ConcordiumHdWallet { seed: seed1, net: net_of(*net) };
        let got = getter(&w, kind, a);
        println!("{}", json!({"k":"kdvec","net":net,"kind":kind,"a":a,"got":got,"want":want,"ok":got == *want}));
    }
    {
        let w = ConcordiumHdWallet { seed: seed1, net: Net::Mainnet };
        let pk = w.get_account_public_key(1, 341, 9).map(|p| hex(p.as_bytes())).unwrap_or("Err".into());
        println!("{}", json!({"k":"kdvec","net":0,"kind":"pub","a":[1,341,9],"got":pk,"want":"d54aab7218fc683cbd4d822f7c2b4e7406c41ae08913012fab0fa992fa008e98",
            "ok":pk=="d54aab7218fc683cbd4d822f7c2b4e7406c41ae08913012fab0fa992fa008e98"}));
        let w = ConcordiumHdWallet { seed: seed1, net: Net::Testnet };
        let pk = w.get_account_public_key(1, 341, 9).map(|p| hex(p.as_bytes())).unwrap_or("Err".into());
        println!("{}", json!({"k":"kdvec","net":1,"kind":"pub","a":[1,341,9],"got":pk,"want":"ef6fd561ca0291a57cdfee896245db9803a86da74c9a6c1bf0252b18f8033003",
            "ok":pk=="ef6fd561ca0291a57cdfee896245db9803a86da74c9a6c1bf0252b18f8033003"}));
    }
    // SLIP-10 vectors (private key, public key)
    let slip: &[(&str, &str, &str, &str)] = &[
        ("000102030405060708090a0b0c0d0e0f", "m/0'", "68e0fe46dfb67e368c75379acec591dad19df3cde26e63b93a8e704f1dade7a3", "8c8a13df77a28f3445213a0f432fde644acaa215fc72dcdf300d5efaa85d350c"),
        ("000102030405060708090a0b0c0d0e0f", "m/0'/1'/2'/2'/1000000000'", "8f94d394a8e8fd6b1bc2f3f49f5c47e385281d5c17e65324b0f62483e37e8793", "3c24da049451555d51a7014a37337aa4e12d41e485abccfa46b47dfb2af54b7a"),
        ("fffcf9f6f3f0edeae7e4e1dedbd8d5d2cfccc9c6c3c0bdbab7b4b1aeaba8a5a29f9c999693908d8a8784817e7b7875726f6c696663605d5a5754514e4b484542", "m/0'/2147483647'/1'/2147483646'/2'", "551d333177df541ad876a60ea71f00447931c0a9da16f227c11ea080d7391b8d", "47150c75db263559a70d5778bf36abbab30fb061ad69f69ece61a72b0cfa4fc0"),
    ];
    for (sd, path, sk, pk) in slip {
        let got = guarded(|| ed25519_hd_key_derivation::derive(path, &unhex(sd)).map(|k| k.private_key));
        let (gsk, gpk) = match got { Ok(Ok(k)) => (hex(&k), hex(ed25519_dalek::SigningKey::from_bytes(&k).verifying_key().as_bytes())), _ => ("Err".into(), "Err".into()) };
        println!("{}", json!({"k":"slip","path":path,"ok": gsk == *sk && gpk == *pk, "got":gsk}));
    }
    // keygen_bls vectors of the repository + random inputs against the HKDF output (model: OS2IP(okm) mod r)
    let kg: &[(&str, &str)] = &[
        ("09e74ad3ead373439388bf7cfb52b151c450632e67f3c84e6ed762bc0928d5eb", "57cb278c9deb055f12cc807c3068f2ce804654a54de54801f0cb6a774c211de2"),
        ("9dcce7d6b6a70ddb382d2c212273ad9b99d8ea206353313beabc14b7e5833a0f", "273e082676db5baff938c9aa5f92ea73689a3de4bf20f71c4710eba2ced4925e"),
        ("725150bb38d49fc2a7ad8a8cba1f0dc32c3a468739e88b9aa62c450ce3ce1f32", "397048d5f83ecb69fe96f3157bb5a350298248f8650b9092a8c55028fb577463"),
    ];
    for (ikm, want) in kg {
        let got = guarded(|| keygen_bls::keygen_bls(&unhex(ikm), b"")).ok().and_then(|x| x.ok()).map(|s| hex(&to_bytes(&s))).unwrap_or("Err".into());
        println!("{}", json!({"k":"kgvec","ok":got == *want,"got":got}));
    }
    for _ in 0..(4 * n) {
        let l = match r.below(4) { 0 => 32, 1 => r.below(5) as usize, _ => r.below(80) as usize };
        let ikm = r.bytes(l);
        let il = r.below(4) as usize * r.below(10) as usize;
        let info = r.bytes(il);
        let got = guarded(|| keygen_bls::keygen_bls(&ikm, &info)).ok().and_then(|x| x.ok()).map(|s| hex(&to_bytes(&s))).unwrap_or("Err".into());
        let again = guarded(|| keygen_bls::keygen_bls(&ikm, &info)).ok().and_then(|x| x.ok()).map(|s| hex(&to_bytes(&s))).unwrap_or("Err".into());
        println!("{}", json!({"k":"keygen","ikm":hex(&ikm),"info":hex(&info),"okm":hex(&hkdf_okm(&ikm, &info, 0)),"got":got,"deterministic":got==again}));
    }
    // random wallets: every getter, boundary indices
    let idx = |r: &mut Rng| -> u64 { match r.below(8) { 0 => 0, 1 => (1u64 << 31) - 1, 2 => 1u64 << 31, 3 => u32::MAX as u64, 4 => (1u64 << 31) + r.below(100), _ => r.below(1 << 12) } };
    for wi in 0..n {
        let seed: [u8; 64] = if wi == 0 { seed1 } else { r.bytes(64).try_into().unwrap() };
        for net in 0..2u64 {
            let w = ConcordiumHdWallet { seed, net: net_of(net) };
            let reps = 3;
            for _ in 0..reps {
                let cases: Vec<(&str, Vec<u64>)> = vec![
                    ("sign", vec![idx(&mut r), idx(&mut r), idx(&mut r)]),
                    ("idcredsec", vec![idx(&mut r), idx(&mut r)]),
                    ("prf", vec![idx(&mut r), idx(&mut r)]),
                    ("blind", vec![idx(&mut r), idx(&mut r)]),
                    ("attr", vec![idx(&mut r), idx(&mut r), idx(&mut r), r.below(256)]),
                    ("vcsign", vec![r.u64_edge(), r.u64_edge(), idx(&mut r)]),
                    ("vcbackup", vec![]),
                    // neighbours that differ in one place only
                    ("sign", vec![0, 0, 0]), ("sign", vec![0, 0, 1]), ("sign", vec![0, 1, 0]), ("sign", vec![1, 0, 0]),
                    ("idcredsec", vec![0, 0]), ("prf", vec![0, 0]), ("blind", vec![0, 0]), ("attr", vec![0, 0, 0, 0]), ("attr", vec![0, 0, 0, 1]),
                    ("sign", vec![3, 7, 11]), ("sign", vec![7, 3, 11]), ("sign", vec![3, 11, 7]), ("idcredsec", vec![3, 7]), ("idcredsec", vec![7, 3]),
                    ("prf", vec![3, 7]), ("prf", vec![7, 3]), ("blind", vec![3, 7]), ("blind", vec![7, 3]),
                    ("attr", vec![3, 7, 11, 13]), ("attr", vec![7, 3, 11, 13]), ("attr", vec![3, 11, 7, 13]), ("attr", vec![3, 7, 13, 11]),
                    ("vcsign", vec![3, 7, 11]), ("vcsign", vec![7, 3, 11]), ("vcsign", vec![3, 11, 7]),
                    ("vcsign", vec![0, 0, 0]), ("vcsign", vec![1, 0, 0]), ("vcsign", vec![0, 1, 0]), ("vcsign", vec![1 << 16, 0, 0]), ("vcsign", vec![0, 1 << 48, 0]),
                ];
                // the wrappers around the wallet getters: CredentialContext (HasAttributeRandomness, get_cred_id_exponent)
                // must agree with the direct getters for the SAME (ip, identity, credential, tag), ip != identity index
                {
                    use concordium_base::id::types::{HasAttributeRandomness, IpIdentity};
                    let h31 = 1u64 << 31;
                    let ctxs: Vec<[u64; 4]> = vec![[3, 7, 2, 5], [7, 3, 2, 5], [0, 1, 0, 0], [1, 0, 0, 0], [h31 - 1, 0, 255, 255], [0, h31 - 1, 1, 254],
                        [h31, 5, 0, 0], [5, h31, 0, 0], [idx(&mut r), idx(&mut r), r.below(256), r.below(256)], [r.below(1 << 12), (1 << 12) + r.below(1 << 12), r.below(256), r.below(256)]];
                    for a in ctxs {
                        let ctx = key_derivation::CredentialContext { wallet: w.clone(), identity_provider_index: IpIdentity(a[0] as u32), identity_index: a[1] as u32, credential_index: a[2] as u8 };
                        let via = guarded(|| ctx.get_attribute_commitment_randomness(&AttributeTag(a[3] as u8)).map(|x| hex(&to_bytes(&x))));
                        let got = match via { Ok(Ok(s)) => s, Ok(Err(_)) => "Err".to_string(), Err(_) => "PANIC".to_string() };
                        let direct = getter(&w, "attr", &a);
                        println!("{}", json!({"k":"kd","via":"CredentialContext::get_attribute_commitment_randomness","seed":hex(&seed),"net":net,"kind":"attr",
                            "a":a.iter().map(|x| format!("{:x}", x)).collect::<Vec<_>>(),"got":got,"deterministic":true,"public_matches":J::Null,"direct_agrees":got==direct}));
                        // credential registration id exponent: 1 / (prf_key(ip, id) + credential_index)
                        let e = guarded(|| ctx.get_cred_id_exponent().map(|o| o.map(|x| hex(&to_bytes(&x)))));
                        let got = match e { Ok(Ok(Some(s))) => s, Ok(Ok(None)) => "NoExp".to_string(), Ok(Err(_)) => "Err".to_string(), Err(_) => "PANIC".to_string() };
                        let direct = match guarded(|| w.get_prf_key(a[0] as u32, a[1] as u32).map(|k| k.prf_exponent(a[2] as u8).ok().map(|x| hex(&to_bytes(&x))))) {
                            Ok(Ok(Some(s))) => s, Ok(Ok(None)) => "NoExp".to_string(), Ok(Err(_)) => "Err".to_string(), Err(_) => "PANIC".to_string() };
                        println!("{}", json!({"k":"kdctx","seed":hex(&seed),"net":net,"a":a.iter().map(|x| format!("{:x}", x)).collect::<Vec<_>>(),
                            "got":got,"direct_agrees":got==direct}));
                    }
                }
                for (kind, a) in cases {
                    let got = getter(&w, kind, &a);
                    let again = getter(&w, kind, &a);
                    let pm = public_matches(&w, kind, &a);
                    println!("{}", json!({"k":"kd","seed":hex(&seed),"net":net,"kind":kind,"a":a.iter().map(|x| format!("{:x}", x)).collect::<Vec<_>>(),
                        "got":got,"deterministic":got==again,"public_matches":pm}));
                }
            }
        }
    }
}

/// stdin lines "seedhex bls|raw idx idx ..." : derive along the explicit (already hardened) path.
fn derive() {
    for line in std::io::stdin().lock().lines() {
        let line = line.unwrap();
        let t: Vec<&str> = line.split_whitespace().collect();
        if t.len() < 2 { continue; }
        let seed = unhex(t[0]);
        let path: Vec<u32> = t[2..].iter().map(|x| x.parse::<u64>().unwrap() as u32).collect();
        let res = guarded(|| ed25519_hd_key_derivation::derive_from_parsed_path(&path, &seed).map(|k| k.private_key));
        match res {
            Ok(Ok(k)) => {
                if t[1] == "bls" {
                    let s = keygen_bls::keygen_bls(&k, b"").map(|s| hex(&to_bytes(&s))).unwrap_or("Err".into());
                    println!("{}", s);
                } else { println!("{}", hex(&k)); }
            }
            _ => println!("Err"),
        }
    }
}

/// stdin lines "hexbytes": decode as a G1 point; print "None", "inf" or the affine coordinates "x y" (hex).
fn g1xy() {
    use ark_ff::BigInteger;
    for line in std::io::stdin().lock().lines() {
        let line = line.unwrap();
        let b = unhex(line.trim());
        let res = guarded(|| from_bytes::<G1, _>(&mut Cursor::new(b.clone())));
        match res {
            Ok(Ok(p)) => {
                let a = p.into_ark().into_affine();
                match a.xy() {
                    None => println!("inf"),
                    Some((x, y)) => println!("{} {}", hex(&x.into_bigint().to_bytes_be()), hex(&y.into_bigint().to_bytes_be())),
                }
            }
            Ok(Err(_)) => println!("None"),
            Err(_) => println!("PANIC"),
        }
    }
}

fn main() {
    quiet_panics();
    let args: Vec<String> = std::env::args().collect();
    let mode = args.get(1).map(|s| s.as_str()).unwrap_or("");
    let seed: u64 = args.get(2).and_then(|s| s.parse().ok()).unwrap_or(1);
    let n: u64 = args.get(3).and_then(|s| s.parse().ok()).unwrap_or(10);
    match mode {
        "mexp" => mexp(seed, n),
        "vcom" => vcom(seed, n),
        "wnaf" => wnaf(seed, n),
        "dlog" => dlog(),
        "enc" => enc(seed, n),
        "shamir" => shamir(seed, n),
        "kd" => kd(seed, n),
        "derive" => derive(),
        "one" => one(),
        "decode" => decode(),
        "g1xy" => g1xy(),
        _ => { eprintln!("usage: c20 mexp|wnaf|enc|shamir|kd <seed> <n> | dlog | derive"); std::process::exit(2) }
    }
}
