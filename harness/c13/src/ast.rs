//! Program representation shared by the generator, the Wasm binary encoder and the
//! line format read by the OCaml model runner.
//!
//! Line format (whitespace separated tokens):
//!   T n {np t*np nr t*nr}*n   I n {tyidx modname itemname}*n   M has min hasmax max   G n {mut t val}*n   B has size
//!   E n {off k f*k}*n   D n {off k byte*k}*n   F n {tyidx nl t*nl nops op*nops}*n
//!   X k fidx*k nargs {t val}*nargs
//! (C13 copy of harness/c01/src/ast.rs, extended with imported functions: `Call`, element segments
//! use the module's function index space (imports first); `X` entries and export names `f<i>` use
//! the index into the DEFINED functions.)
//! Types are `7f` (i32) / `7e` (i64) / `40` (empty block type).  An op is one token: the Wasm
//! opcode byte in hex followed by `:`-separated immediates (decimal), e.g. `6a`, `41:-5`,
//! `02:7f`, `0e:2:0:1:0` (br_table: count, labels, default), `28:OFFSET:ALIGN`.
//! `fe:N` is the metering pseudo-instruction TickEnergy (never in generated programs).

#[derive(Clone, Copy, PartialEq, Eq, Debug, Hash)]
pub enum VT {
    I32,
    I64,
}
impl VT {
    pub fn byte(self) -> u8 {
        match self {
            VT::I32 => 0x7f,
            VT::I64 => 0x7e,
        }
    }
    pub fn tok(self) -> &'static str {
        match self {
            VT::I32 => "7f",
            VT::I64 => "7e",
        }
    }
    pub fn from_tok(s: &str) -> Option<VT> {
        match s {
            "7f" => Some(VT::I32),
            "7e" => Some(VT::I64),
            _ => None,
        }
    }
}
pub type BT = Option<VT>;
pub fn bt_tok(b: BT) -> &'static str {
    match b {
        None => "40",
        Some(t) => t.tok(),
    }
}
fn bt_from(s: &str) -> Option<BT> {
    if s == "40" {
        Some(None)
    } else {
        VT::from_tok(s).map(Some)
    }
}

#[derive(Clone, PartialEq, Eq, Debug)]
pub enum Op {
    Block(BT),
    Loop(BT),
    If(BT),
    Else,
    End,
    Br(u32),
    BrIf(u32),
    BrTable(Vec<u32>, u32),
    Call(u32),
    CallIndirect(u32),
    LocalGet(u32),
    LocalSet(u32),
    LocalTee(u32),
    GlobalGet(u32),
    GlobalSet(u32),
    /// load/store: opcode byte, offset, align
    Mem(u8, u32, u32),
    I32Const(i32),
    I64Const(i64),
    /// any opcode without immediates (memory.size/grow included: 0x3f, 0x40)
    Plain(u8),
    Tick(u32),
}

impl Op {
    pub fn tok(&self) -> String {
        match self {
            Op::Block(b) => format!("02:{}", bt_tok(*b)),
            Op::Loop(b) => format!("03:{}", bt_tok(*b)),
            Op::If(b) => format!("04:{}", bt_tok(*b)),
            Op::Else => "05".into(),
            Op::End => "0b".into(),
            Op::Br(l) => format!("0c:{}", l),
            Op::BrIf(l) => format!("0d:{}", l),
            Op::BrTable(ls, d) => {
                let mut s = format!("0e:{}", ls.len());
                for l in ls {
                    s += &format!(":{}", l);
                }
                s + &format!(":{}", d)
            }
            Op::Call(f) => format!("10:{}", f),
            Op::CallIndirect(t) => format!("11:{}", t),
            Op::LocalGet(i) => format!("20:{}", i),
            Op::LocalSet(i) => format!("21:{}", i),
            Op::LocalTee(i) => format!("22:{}", i),
            Op::GlobalGet(i) => format!("23:{}", i),
            Op::GlobalSet(i) => format!("24:{}", i),
            Op::Mem(b, o, a) => format!("{:02x}:{}:{}", b, o, a),
            Op::I32Const(c) => format!("41:{}", c),
            Op::I64Const(c) => format!("42:{}", c),
            Op::Plain(b) => format!("{:02x}", b),
            Op::Tick(n) => format!("fe:{}", n),
        }
    }
    pub fn from_tok(s: &str) -> Option<Op> {
        let mut it = s.split(':');
        let b = u8::from_str_radix(it.next()?, 16).ok()?;
        let rest: Vec<&str> = it.collect();
        let n = |i: usize| -> Option<u32> { rest.get(i)?.parse().ok() };
        Some(match b {
            0x02 => Op::Block(bt_from(rest.first()?)?),
            0x03 => Op::Loop(bt_from(rest.first()?)?),
            0x04 => Op::If(bt_from(rest.first()?)?),
            0x05 => Op::Else,
            0x0b => Op::End,
            0x0c => Op::Br(n(0)?),
            0x0d => Op::BrIf(n(0)?),
            0x0e => {
                let k = n(0)? as usize;
                let mut ls = vec![];
                for i in 0..k {
                    ls.push(n(1 + i)?);
                }
                Op::BrTable(ls, n(1 + k)?)
            }
            0x10 => Op::Call(n(0)?),
            0x11 => Op::CallIndirect(n(0)?),
            0x20 => Op::LocalGet(n(0)?),
            0x21 => Op::LocalSet(n(0)?),
            0x22 => Op::LocalTee(n(0)?),
            0x23 => Op::GlobalGet(n(0)?),
            0x24 => Op::GlobalSet(n(0)?),
            0x28..=0x3e => Op::Mem(b, n(0)?, n(1)?),
            0x41 => Op::I32Const(rest.first()?.parse().ok()?),
            0x42 => Op::I64Const(rest.first()?.parse().ok()?),
            0xfe => Op::Tick(n(0)?),
            _ => Op::Plain(b),
        })
    }
}

#[derive(Clone, PartialEq, Eq, Debug, Hash)]
pub struct Sig {
    pub params: Vec<VT>,
    pub result: Option<VT>,
}
#[derive(Clone, Debug)]
pub struct Func {
    pub ty: u32,
    pub locals: Vec<VT>,
    pub body: Vec<Op>, // including the final End
}
#[derive(Clone, Debug, Default)]
pub struct Module {
    pub types: Vec<Sig>,
    pub imports: Vec<(String, String, u32)>,
    /// explicit export list (name, index into the defined functions); empty = export every function as f<i>
    pub exports: Vec<(String, u32)>,
    pub funcs: Vec<Func>,
    pub table: Option<u32>,
    pub elems: Vec<(u32, Vec<u32>)>,
    pub mem: Option<(u32, Option<u32>)>,
    pub data: Vec<(u32, Vec<u8>)>,
    pub globals: Vec<(bool, VT, i64)>,
}
#[derive(Clone, Debug)]
pub struct Case {
    pub module: Module,
    pub entries: Vec<u32>,
    pub args: Vec<(VT, i64)>,
}

impl Case {
    pub fn to_line(&self) -> String {
        let m = &self.module;
        let mut t: Vec<String> = vec![];
        t.push("T".into());
        t.push(m.types.len().to_string());
        for s in &m.types {
            t.push(s.params.len().to_string());
            for p in &s.params {
                t.push(p.tok().into());
            }
            match s.result {
                None => t.push("0".into()),
                Some(r) => {
                    t.push("1".into());
                    t.push(r.tok().into())
                }
            }
        }
        t.push("I".into());
        t.push(m.imports.len().to_string());
        for (mn, it, ty) in &m.imports {
            t.push(ty.to_string());
            t.push(mn.clone());
            t.push(it.clone());
        }
        t.push("M".into());
        match m.mem {
            None => t.extend(["0", "0", "0", "0"].iter().map(|s| s.to_string())),
            Some((min, max)) => {
                t.push("1".into());
                t.push(min.to_string());
                match max {
                    None => t.extend(["0", "0"].iter().map(|s| s.to_string())),
                    Some(x) => {
                        t.push("1".into());
                        t.push(x.to_string())
                    }
                }
            }
        }
        t.push("G".into());
        t.push(m.globals.len().to_string());
        for (mu, ty, v) in &m.globals {
            t.push((*mu as u8).to_string());
            t.push(ty.tok().into());
            t.push(v.to_string());
        }
        t.push("B".into());
        match m.table {
            None => t.extend(["0", "0"].iter().map(|s| s.to_string())),
            Some(n) => {
                t.push("1".into());
                t.push(n.to_string())
            }
        }
        t.push("E".into());
        t.push(m.elems.len().to_string());
        for (off, fs) in &m.elems {
            t.push(off.to_string());
            t.push(fs.len().to_string());
            for f in fs {
                t.push(f.to_string());
            }
        }
        t.push("D".into());
        t.push(m.data.len().to_string());
        for (off, bs) in &m.data {
            t.push(off.to_string());
            t.push(bs.len().to_string());
            for b in bs {
                t.push(b.to_string());
            }
        }
        t.push("F".into());
        t.push(m.funcs.len().to_string());
        for f in &m.funcs {
            t.push(f.ty.to_string());
            t.push(f.locals.len().to_string());
            for l in &f.locals {
                t.push(l.tok().into());
            }
            t.push(f.body.len().to_string());
            for o in &f.body {
                t.push(o.tok());
            }
        }
        t.push("X".into());
        t.push(self.entries.len().to_string());
        for e in &self.entries {
            t.push(e.to_string());
        }
        t.push(self.args.len().to_string());
        for (ty, v) in &self.args {
            t.push(ty.tok().into());
            t.push(v.to_string());
        }
        t.join(" ")
    }

    pub fn from_line(line: &str) -> Option<Case> {
        let toks: Vec<&str> = line.split_whitespace().collect();
        let mut p = 0usize;
        let mut next = || -> Option<&str> {
            let t = toks.get(p).copied();
            p += 1;
            t
        };
        macro_rules! num {
            () => {
                next()?.parse::<i64>().ok()?
            };
        }
        macro_rules! expect {
            ($s:expr) => {
                if next()? != $s {
                    return None;
                }
            };
        }
        let mut m = Module::default();
        expect!("T");
        let n = num!();
        for _ in 0..n {
            let np = num!();
            let mut params = vec![];
            for _ in 0..np {
                params.push(VT::from_tok(next()?)?);
            }
            let nr = num!();
            let result = if nr == 1 { Some(VT::from_tok(next()?)?) } else { None };
            m.types.push(Sig { params, result });
        }
        expect!("I");
        let n = num!();
        for _ in 0..n {
            let ty = num!() as u32;
            let mn = next()?.to_string();
            let it = next()?.to_string();
            m.imports.push((mn, it, ty));
        }
        expect!("M");
        let (has, min, hasmax, max) = (num!(), num!(), num!(), num!());
        if has == 1 {
            m.mem = Some((min as u32, if hasmax == 1 { Some(max as u32) } else { None }));
        }
        expect!("G");
        let n = num!();
        for _ in 0..n {
            let mu = num!() == 1;
            let ty = VT::from_tok(next()?)?;
            let v = num!();
            m.globals.push((mu, ty, v));
        }
        expect!("B");
        let (has, size) = (num!(), num!());
        if has == 1 {
            m.table = Some(size as u32);
        }
        expect!("E");
        let n = num!();
        for _ in 0..n {
            let off = num!() as u32;
            let k = num!();
            let mut fs = vec![];
            for _ in 0..k {
                fs.push(num!() as u32);
            }
            m.elems.push((off, fs));
        }
        expect!("D");
        let n = num!();
        for _ in 0..n {
            let off = num!() as u32;
            let k = num!();
            let mut bs = vec![];
            for _ in 0..k {
                bs.push(num!() as u8);
            }
            m.data.push((off, bs));
        }
        expect!("F");
        let n = num!();
        for _ in 0..n {
            let ty = num!() as u32;
            let nl = num!();
            let mut locals = vec![];
            for _ in 0..nl {
                locals.push(VT::from_tok(next()?)?);
            }
            let nops = num!();
            let mut body = vec![];
            for _ in 0..nops {
                body.push(Op::from_tok(next()?)?);
            }
            m.funcs.push(Func { ty, locals, body });
        }
        expect!("X");
        let k = num!();
        let mut entries = vec![];
        for _ in 0..k {
            entries.push(num!() as u32);
        }
        let na = num!();
        let mut args = vec![];
        for _ in 0..na {
            let ty = VT::from_tok(next()?)?;
            args.push((ty, num!()));
        }
        Some(Case { module: m, entries, args })
    }
}

// ---------------------------------------------------------------- binary encoder
fn uleb(out: &mut Vec<u8>, mut x: u64) {
    loop {
        let b = (x & 0x7f) as u8;
        x >>= 7;
        if x == 0 {
            out.push(b);
            return;
        }
        out.push(b | 0x80);
    }
}
fn sleb(out: &mut Vec<u8>, mut x: i64) {
    loop {
        let b = (x & 0x7f) as u8;
        x >>= 7;
        let done = (x == 0 && b & 0x40 == 0) || (x == -1 && b & 0x40 != 0);
        if done {
            out.push(b);
            return;
        }
        out.push(b | 0x80);
    }
}
fn section(out: &mut Vec<u8>, id: u8, body: Vec<u8>) {
    out.push(id);
    uleb(out, body.len() as u64);
    out.extend(body);
}
fn bt_byte(b: BT) -> u8 {
    match b {
        None => 0x40,
        Some(t) => t.byte(),
    }
}
pub fn encode_op(out: &mut Vec<u8>, op: &Op) {
    match op {
        Op::Block(b) => {
            out.push(0x02);
            out.push(bt_byte(*b))
        }
        Op::Loop(b) => {
            out.push(0x03);
            out.push(bt_byte(*b))
        }
        Op::If(b) => {
            out.push(0x04);
            out.push(bt_byte(*b))
        }
        Op::Else => out.push(0x05),
        Op::End => out.push(0x0b),
        Op::Br(l) => {
            out.push(0x0c);
            uleb(out, *l as u64)
        }
        Op::BrIf(l) => {
            out.push(0x0d);
            uleb(out, *l as u64)
        }
        Op::BrTable(ls, d) => {
            out.push(0x0e);
            uleb(out, ls.len() as u64);
            for l in ls {
                uleb(out, *l as u64);
            }
            uleb(out, *d as u64)
        }
        Op::Call(f) => {
            out.push(0x10);
            uleb(out, *f as u64)
        }
        Op::CallIndirect(t) => {
            out.push(0x11);
            uleb(out, *t as u64);
            out.push(0x00)
        }
        Op::LocalGet(i) => {
            out.push(0x20);
            uleb(out, *i as u64)
        }
        Op::LocalSet(i) => {
            out.push(0x21);
            uleb(out, *i as u64)
        }
        Op::LocalTee(i) => {
            out.push(0x22);
            uleb(out, *i as u64)
        }
        Op::GlobalGet(i) => {
            out.push(0x23);
            uleb(out, *i as u64)
        }
        Op::GlobalSet(i) => {
            out.push(0x24);
            uleb(out, *i as u64)
        }
        Op::Mem(b, o, a) => {
            out.push(*b);
            uleb(out, *a as u64);
            uleb(out, *o as u64)
        }
        Op::I32Const(c) => {
            out.push(0x41);
            sleb(out, *c as i64)
        }
        Op::I64Const(c) => {
            out.push(0x42);
            sleb(out, *c)
        }
        Op::Plain(b) => {
            out.push(*b);
            if *b == 0x3f || *b == 0x40 {
                out.push(0x00)
            }
        }
        Op::Tick(_) => out.push(0xfe), // not encodable: makes the module unparseable on purpose
    }
}

impl Module {
    pub fn encode(&self) -> Vec<u8> {
        let mut out = vec![0x00, 0x61, 0x73, 0x6d, 0x01, 0x00, 0x00, 0x00];
        // type
        let mut b = vec![];
        uleb(&mut b, self.types.len() as u64);
        for s in &self.types {
            b.push(0x60);
            uleb(&mut b, s.params.len() as u64);
            for p in &s.params {
                b.push(p.byte());
            }
            match s.result {
                None => b.push(0),
                Some(r) => {
                    b.push(1);
                    b.push(r.byte())
                }
            }
        }
        section(&mut out, 1, b);
        if !self.imports.is_empty() {
            let mut b = vec![];
            uleb(&mut b, self.imports.len() as u64);
            for (mn, it, ty) in &self.imports {
                uleb(&mut b, mn.len() as u64);
                b.extend(mn.as_bytes());
                uleb(&mut b, it.len() as u64);
                b.extend(it.as_bytes());
                b.push(0x00);
                uleb(&mut b, *ty as u64);
            }
            section(&mut out, 2, b);
        }
        // function
        let mut b = vec![];
        uleb(&mut b, self.funcs.len() as u64);
        for f in &self.funcs {
            uleb(&mut b, f.ty as u64);
        }
        section(&mut out, 3, b);
        if let Some(n) = self.table {
            let mut b = vec![];
            uleb(&mut b, 1);
            b.push(0x70);
            b.push(0x00);
            uleb(&mut b, n as u64);
            section(&mut out, 4, b);
        }
        if let Some((min, max)) = self.mem {
            let mut b = vec![];
            uleb(&mut b, 1);
            match max {
                None => {
                    b.push(0x00);
                    uleb(&mut b, min as u64)
                }
                Some(x) => {
                    b.push(0x01);
                    uleb(&mut b, min as u64);
                    uleb(&mut b, x as u64)
                }
            }
            section(&mut out, 5, b);
        }
        if !self.globals.is_empty() {
            let mut b = vec![];
            uleb(&mut b, self.globals.len() as u64);
            for (mu, ty, v) in &self.globals {
                b.push(ty.byte());
                b.push(*mu as u8);
                match ty {
                    VT::I32 => {
                        b.push(0x41);
                        sleb(&mut b, *v as i32 as i64)
                    }
                    VT::I64 => {
                        b.push(0x42);
                        sleb(&mut b, *v)
                    }
                }
                b.push(0x0b);
            }
            section(&mut out, 6, b);
        }
        // export every function as f<i>
        let mut b = vec![];
        let exps: Vec<(String, usize)> = if self.exports.is_empty() {
            (0..self.funcs.len()).map(|i| (format!("f{}", i), i)).collect()
        } else {
            self.exports.iter().map(|(n, i)| (n.clone(), *i as usize)).collect()
        };
        uleb(&mut b, exps.len() as u64);
        for (name, i) in exps {
            uleb(&mut b, name.len() as u64);
            b.extend(name.as_bytes());
            b.push(0x00);
            uleb(&mut b, (i + self.imports.len()) as u64);
        }
        section(&mut out, 7, b);
        if !self.elems.is_empty() {
            let mut b = vec![];
            uleb(&mut b, self.elems.len() as u64);
            for (off, fs) in &self.elems {
                uleb(&mut b, 0);
                b.push(0x41);
                sleb(&mut b, *off as i32 as i64);
                b.push(0x0b);
                uleb(&mut b, fs.len() as u64);
                for f in fs {
                    uleb(&mut b, *f as u64);
                }
            }
            section(&mut out, 9, b);
        }
        // code
        let mut b = vec![];
        uleb(&mut b, self.funcs.len() as u64);
        for f in &self.funcs {
            let mut c = vec![];
            // locals, run-length grouped
            let mut groups: Vec<(u32, VT)> = vec![];
            for l in &f.locals {
                match groups.last_mut() {
                    Some((n, t)) if *t == *l => *n += 1,
                    _ => groups.push((1, *l)),
                }
            }
            uleb(&mut c, groups.len() as u64);
            for (n, t) in groups {
                uleb(&mut c, n as u64);
                c.push(t.byte());
            }
            for o in &f.body {
                encode_op(&mut c, o);
            }
            uleb(&mut b, c.len() as u64);
            b.extend(c);
        }
        section(&mut out, 10, b);
        if !self.data.is_empty() {
            let mut b = vec![];
            uleb(&mut b, self.data.len() as u64);
            for (off, bs) in &self.data {
                uleb(&mut b, 0);
                b.push(0x41);
                sleb(&mut b, *off as i32 as i64);
                b.push(0x0b);
                uleb(&mut b, bs.len() as u64);
                b.extend(bs);
            }
            section(&mut out, 11, b);
        }
        out
    }
}
