//! (e) the import section of a stored V1 artifact: `Output for ImportFunc` / `Parseable for ImportFunc`
//! (wasm-chain-integration/src/v1/types.rs) must be inverse to each other for EVERY host function, and a
//! stored artifact must call the same host function as the fresh one.  Re-serialising a loaded artifact is
//! blind to a wrong tag that is itself a valid tag (24 -> Invoker -> 24), so this mode checks
//!   (1) per variant of `ImportFunc` (exhaustive `match` in `ordinal`: a new variant does not compile until
//!       it is added here): output -> parse gives the same variant (Debug identity), and all tags are distinct;
//!   (2) per host function NAME accepted by `ConcordiumAllowedImports` (upgrade and debug enabled): a module
//!       importing it, instantiated with metering (which adds `concordium_metering.account_memory`),
//!       serialised and parsed back has the same processed import list, and the name maps to the variant
//!       of the table;
//!   (3) per context getter: a receive function that returns what the getter reports, run on the fresh and on
//!       the stored artifact in a context where invoker, owner, sender, self address, balance, slot time,
//!       policies, parameter and entrypoint are pairwise different: same outcome, return value and energy.
use crate::ast::*;
use concordium_contracts_common::{AccountAddress, Address, Amount, ChainMetadata, ContractAddress, OwnedEntrypointName, ReceiveName, Timestamp};
use concordium_smart_contract_engine::{
    v0, v1,
    v1::{trie, CommonFunc as C, ImportFunc as I, InitOnlyFunc as IO, ReceiveOnlyFunc as R},
    InterpreterEnergy,
};
use concordium_wasm::{
    artifact::{Artifact, CompiledFunction, OwnedArtifact},
    output::Output,
    parse::Parseable,
    utils::{instantiate_with_metering, parse_artifact},
    validate::ValidationConfig,
    CostConfigurationV1,
};
use hlib::{guarded, hex};
use serde_json::{json, Value as J};
use std::sync::Arc;

type Art1 = Arc<Artifact<v1::ProcessedImports, CompiledFunction>>;
type Ctx1 = v1::ReceiveContext<Vec<u8>>;

/// Exhaustive (no wildcard): adding a variant to the engine breaks the build of the harness until the
/// variant is added here and to `TABLE`.
fn ordinal(f: &I) -> usize {
    match f {
        I::ChargeMemoryAlloc => 0,
        I::Common(c) => match c {
            C::GetParameterSize => 1,
            C::GetParameterSection => 2,
            C::GetPolicySection => 3,
            C::LogEvent => 4,
            C::GetSlotTime => 5,
            C::WriteOutput => 6,
            C::StateLookupEntry => 7,
            C::StateCreateEntry => 8,
            C::StateDeleteEntry => 9,
            C::StateDeletePrefix => 10,
            C::StateIteratePrefix => 11,
            C::StateIteratorNext => 12,
            C::StateIteratorDelete => 13,
            C::StateIteratorKeySize => 14,
            C::StateIteratorKeyRead => 15,
            C::StateEntryRead => 16,
            C::StateEntryWrite => 17,
            C::StateEntrySize => 18,
            C::StateEntryResize => 19,
            C::VerifyEd25519 => 20,
            C::VerifySecp256k1 => 21,
            C::HashSHA2_256 => 22,
            C::HashSHA3_256 => 23,
            C::HashKeccak256 => 24,
            C::DebugPrint => 25,
        },
        I::InitOnly(i) => match i {
            IO::GetInitOrigin => 26,
        },
        I::ReceiveOnly(r) => match r {
            R::Invoke => 27,
            R::GetReceiveInvoker => 28,
            R::GetReceiveSelfAddress => 29,
            R::GetReceiveSelfBalance => 30,
            R::GetReceiveSender => 31,
            R::GetReceiveOwner => 32,
            R::GetReceiveEntrypointSize => 33,
            R::GetReceiveEntryPoint => 34,
            R::Upgrade => 35,
        },
    }
}
const NVARIANTS: usize = 36;

const A: VT = VT::I32;
const L: VT = VT::I64;
/// variant, module, name, type as accepted by `validate_import_function`
fn table() -> Vec<(I, &'static str, &'static str, Vec<VT>, Option<VT>)> {
    let c = "concordium";
    vec![
        (I::ChargeMemoryAlloc, "concordium_metering", "account_memory", vec![A], None),
        (I::Common(C::GetParameterSize), c, "get_parameter_size", vec![A], Some(A)),
        (I::Common(C::GetParameterSection), c, "get_parameter_section", vec![A, A, A, A], Some(A)),
        (I::Common(C::GetPolicySection), c, "get_policy_section", vec![A, A, A], Some(A)),
        (I::Common(C::LogEvent), c, "log_event", vec![A, A], Some(A)),
        (I::Common(C::GetSlotTime), c, "get_slot_time", vec![], Some(L)),
        (I::Common(C::WriteOutput), c, "write_output", vec![A, A, A], Some(A)),
        (I::Common(C::StateLookupEntry), c, "state_lookup_entry", vec![A, A], Some(L)),
        (I::Common(C::StateCreateEntry), c, "state_create_entry", vec![A, A], Some(L)),
        (I::Common(C::StateDeleteEntry), c, "state_delete_entry", vec![A, A], Some(A)),
        (I::Common(C::StateDeletePrefix), c, "state_delete_prefix", vec![A, A], Some(A)),
        (I::Common(C::StateIteratePrefix), c, "state_iterate_prefix", vec![A, A], Some(L)),
        (I::Common(C::StateIteratorNext), c, "state_iterator_next", vec![L], Some(L)),
        (I::Common(C::StateIteratorDelete), c, "state_iterator_delete", vec![L], Some(A)),
        (I::Common(C::StateIteratorKeySize), c, "state_iterator_key_size", vec![L], Some(A)),
        (I::Common(C::StateIteratorKeyRead), c, "state_iterator_key_read", vec![L, A, A, A], Some(A)),
        (I::Common(C::StateEntryRead), c, "state_entry_read", vec![L, A, A, A], Some(A)),
        (I::Common(C::StateEntryWrite), c, "state_entry_write", vec![L, A, A, A], Some(A)),
        (I::Common(C::StateEntrySize), c, "state_entry_size", vec![L], Some(A)),
        (I::Common(C::StateEntryResize), c, "state_entry_resize", vec![L, A], Some(A)),
        (I::Common(C::VerifyEd25519), c, "verify_ed25519_signature", vec![A, A, A, A], Some(A)),
        (I::Common(C::VerifySecp256k1), c, "verify_ecdsa_secp256k1_signature", vec![A, A, A], Some(A)),
        (I::Common(C::HashSHA2_256), c, "hash_sha2_256", vec![A, A, A], None),
        (I::Common(C::HashSHA3_256), c, "hash_sha3_256", vec![A, A, A], None),
        (I::Common(C::HashKeccak256), c, "hash_keccak_256", vec![A, A, A], None),
        (I::Common(C::DebugPrint), c, "debug_print", vec![A, A, A, A, A, A], None),
        (I::InitOnly(IO::GetInitOrigin), c, "get_init_origin", vec![A], None),
        (I::ReceiveOnly(R::Invoke), c, "invoke", vec![A, A, A], Some(L)),
        (I::ReceiveOnly(R::GetReceiveInvoker), c, "get_receive_invoker", vec![A], None),
        (I::ReceiveOnly(R::GetReceiveSelfAddress), c, "get_receive_self_address", vec![A], None),
        (I::ReceiveOnly(R::GetReceiveSelfBalance), c, "get_receive_self_balance", vec![], Some(L)),
        (I::ReceiveOnly(R::GetReceiveSender), c, "get_receive_sender", vec![A], None),
        (I::ReceiveOnly(R::GetReceiveOwner), c, "get_receive_owner", vec![A], None),
        (I::ReceiveOnly(R::GetReceiveEntrypointSize), c, "get_receive_entrypoint_size", vec![], Some(A)),
        (I::ReceiveOnly(R::GetReceiveEntryPoint), c, "get_receive_entrypoint", vec![A], None),
        (I::ReceiveOnly(R::Upgrade), c, "upgrade", vec![A], Some(L)),
    ]
}

fn c32(v: u32) -> Op { Op::I32Const(v as i32) }

/// `c.recv`: call the host function (import 0) so that what it reports ends up in memory[0..40], return
/// these 40 bytes with `write_output` (import 1, or import 0 if the function under test is write_output).
fn getter_module(name: &str, ps: &[VT], res: Option<VT>) -> Option<Module> {
    let mut m = Module::default();
    m.types.push(Sig { params: ps.to_vec(), result: res });
    m.types.push(Sig { params: vec![A, A, A], result: Some(A) });
    m.types.push(Sig { params: vec![L], result: Some(A) });
    m.imports.push(("concordium".into(), name.into(), 0));
    m.imports.push(("concordium".into(), "write_output".into(), 1));
    m.mem = Some((1, Some(1)));
    let store = |b: &mut Vec<Op>, r: Option<VT>| {
        if r == Some(A) { b.push(Op::Plain(0xad)); }
        b.push(Op::Mem(0x37, 0, 3));
    };
    let mut b: Vec<Op> = vec![];
    match (name, ps.len(), res) {
        ("get_parameter_size", ..) => { b.extend([c32(0), c32(0), Op::Call(0)]); store(&mut b, res); }
        ("get_parameter_section", ..) => { b.extend([c32(32), c32(0), c32(0), c32(5), c32(0), Op::Call(0)]); store(&mut b, res); }
        ("get_policy_section", ..) => { b.extend([c32(32), c32(0), c32(24), c32(0), Op::Call(0)]); store(&mut b, res); }
        (_, 1, None) => b.extend([c32(0), Op::Call(0)]),
        (_, 0, Some(_)) => { b.extend([c32(0), Op::Call(0)]); store(&mut b, res); }
        _ => return None,
    }
    b.extend([c32(0), c32(40), c32(0), Op::Call(1), Op::Plain(0x1a), c32(0), Op::End]);
    m.funcs.push(Func { ty: 2, locals: vec![], body: b });
    m.exports = vec![("c.recv".into(), 0)];
    Some(m)
}

/// a module that only imports the function (and a do-nothing entrypoint)
fn import_only_module(name: &str, ps: &[VT], res: Option<VT>) -> Module {
    let mut m = Module::default();
    m.types.push(Sig { params: ps.to_vec(), result: res });
    m.types.push(Sig { params: vec![L], result: Some(A) });
    m.imports.push(("concordium".into(), name.into(), 0));
    m.mem = Some((1, Some(2)));
    // memory.grow makes the metering transformation use account_memory
    m.funcs.push(Func { ty: 1, locals: vec![], body: vec![c32(1), Op::Plain(0x40), Op::Plain(0x1a), c32(0), Op::End] });
    m.exports = vec![("c.recv".into(), 0)];
    m
}

fn addr(base: u8) -> AccountAddress {
    let mut a = [0u8; 32];
    for (i, x) in a.iter_mut().enumerate() { *x = base + i as u8; }
    AccountAddress(a)
}
/// all the values a getter can report are pairwise different
fn ctx() -> Ctx1 {
    v1::ReceiveContext {
        common: v0::ReceiveContext {
            metadata: ChainMetadata { slot_time: Timestamp::from_timestamp_millis(0x0102030405060708) },
            invoker: addr(0x30),
            self_address: ContractAddress { index: 0x1111_2222, subindex: 0x33 },
            self_balance: Amount::from_micro_ccd(0x0a0b_0c0d_0e0f),
            sender: Address::Account(addr(0x70)),
            owner: addr(0x50),
            sender_policies: (0xc0u8..0xd8).collect(),
        },
        entrypoint: OwnedEntrypointName::new_unchecked("recv".into()),
    }
}

fn run(art: &Art1) -> String {
    let r = guarded(|| {
        let mut ms = trie::PersistentState::from_iterator(std::iter::empty::<(&[u8], Vec<u8>)>()).thaw();
        let mut loader = trie::Loader { inner: Vec::<u8>::new() };
        let inner = ms.get_inner(&mut loader);
        let st = v1::InstanceState::new(loader, inner);
        let rr = v1::invoke_receive::<_, CompiledFunction, CompiledFunction, Art1, Ctx1, Ctx1, ()>(
            art.clone(),
            ctx(),
            v1::ReceiveInvocation { amount: Amount::from_micro_ccd(77), receive_name: ReceiveName::new_unchecked("c.recv"), parameter: &[9, 8, 7, 6, 5, 4, 3], energy: InterpreterEnergy::new(1_000_000) },
            st,
            v1::ReceiveParams::new_p7(),
        );
        match rr {
            Err(e) => format!("invalid {}", e),
            Ok(v1::ReceiveResult::Success { return_value, remaining_energy, .. }) => format!("success rv={} rem={}", hex(&return_value), remaining_energy.energy),
            Ok(v1::ReceiveResult::Reject { reason, return_value, remaining_energy, .. }) => format!("reject {} rv={} rem={}", reason, hex(&return_value), remaining_energy.energy),
            Ok(v1::ReceiveResult::Trap { error, remaining_energy, .. }) => format!("trap {:#} rem={}", error, remaining_energy.energy),
            Ok(v1::ReceiveResult::OutOfEnergy { .. }) => "ooe".into(),
            Ok(v1::ReceiveResult::Interrupt { .. }) => "interrupt".into(),
        }
    });
    match r { Ok(s) => s, Err(p) => format!("PANIC {}", p) }
}

fn compile(m: &Module) -> Result<(Artifact<v1::ProcessedImports, CompiledFunction>, Vec<u8>, Art1), String> {
    let bytes = m.encode();
    let imp = v1::ConcordiumAllowedImports { support_upgrade: true, enable_debug: true };
    let fresh = match guarded(|| instantiate_with_metering::<v1::ProcessedImports>(ValidationConfig::V1, CostConfigurationV1, &imp, &bytes)) {
        Ok(Ok(m)) => m.artifact,
        Ok(Err(e)) => return Err(format!("rejected: {:#}", e)),
        Err(p) => return Err(format!("PANIC {}", p)),
    };
    let mut abytes = vec![];
    fresh.output(&mut abytes).map_err(|e| format!("output failed: {}", e))?;
    let stored: Art1 = match guarded(|| parse_artifact::<v1::ProcessedImports>(&abytes).map(|b| Arc::new(OwnedArtifact::from(b)))) {
        Ok(Ok(a)) => a,
        Ok(Err(e)) => return Err(format!("parse rejects own output: {}", e)),
        Err(p) => return Err(format!("parse PANIC {}", p)),
    };
    Ok((fresh, abytes, stored))
}

pub fn run_all() {
    let tab = table();
    let mut viol: Vec<J> = vec![];
    let mut bad = |name: &str, kind: &str, msg: String| {
        println!("IMPORT-ROUNDTRIP-MISMATCH {} {}: {}", name, kind, msg);
        viol.push(json!({"name": name, "kind": kind, "msg": msg}));
    };
    // the table covers every variant exactly once
    let mut seen = vec![0u32; NVARIANTS];
    for (f, ..) in &tab { seen[ordinal(f)] += 1; }
    if tab.len() != NVARIANTS || seen.iter().any(|c| *c != 1) { bad("-", "harness-table", format!("table does not cover the {} variants exactly once: {:?}", NVARIANTS, seen)); }
    // (1) per variant
    let mut tags: Vec<(u8, String)> = vec![];
    let mut n_variant = 0u64;
    for (f, _, name, ..) in &tab {
        n_variant += 1;
        let want = format!("{:?}", f);
        let mut out = vec![];
        if f.output(&mut out).is_err() || out.len() != 1 { bad(name, "variant", format!("output of {} gives {}", want, hex(&out))); continue; }
        if let Some((_, other)) = tags.iter().find(|(t, _)| *t == out[0]) { bad(name, "variant", format!("tag {} of {} is also the tag of {}", out[0], want, other)); }
        tags.push((out[0], want.clone()));
        let mut cur = std::io::Cursor::new(&out[..]);
        match guarded(|| { let r = <I as Parseable<()>>::parse((), &mut cur); r.map(|g| format!("{:?}", g)).map_err(|e| e.to_string()) }) {
            Ok(Ok(got)) => if got != want { bad(name, "variant", format!("{} is stored as tag {} which loads as {}", want, out[0], got)); },
            Ok(Err(e)) => bad(name, "variant", format!("{} is stored as tag {} which does not load: {}", want, out[0], e)),
            Err(p) => bad(name, "variant", format!("parse panics: {}", p)),
        }
    }
    // (2) per name, through instantiate / output / parse_artifact
    let mut n_module = 0u64;
    let mut n_metering_import = 0u64;
    for (f, module, name, ps, res) in &tab {
        if *module != "concordium" { continue; }
        n_module += 1;
        match compile(&import_only_module(name, ps, *res)) {
            Err(e) => bad(name, "module", e),
            Ok((fresh, _, stored)) => {
                let a = format!("{:?}", fresh.imports);
                let b = format!("{:?}", stored.imports);
                if a != b { bad(name, "module", format!("imports of the fresh artifact {} but of the stored artifact {}", a, b)); }
                if !a.contains(&format!("tag: {:?},", f)) { bad(name, "module", format!("the name is processed to {} and not to {:?}", a, f)); }
                if a.contains("ChargeMemoryAlloc") { n_metering_import += 1; }
            }
        }
    }
    // (3) behaviour of the getters, fresh against stored
    let mut n_getter = 0u64;
    let mut results: Vec<(String, String)> = vec![];
    for (_, module, name, ps, res) in &tab {
        if *module != "concordium" { continue; }
        let m = match getter_module(name, ps, *res) { Some(m) => m, None => continue };
        n_getter += 1;
        match compile(&m) {
            Err(e) => bad(name, "getter", e),
            Ok((fresh, _, stored)) => {
                let a = run(&Arc::new(fresh));
                let b = run(&stored);
                if a != b { bad(name, "getter", format!("fresh artifact: {} stored artifact: {}", a, b)); }
                results.push((name.to_string(), a));
            }
        }
    }
    // the context really separates the getters: no two successful getters return the same bytes
    let mut distinct = true;
    for i in 0..results.len() { for j in 0..i { if results[i].1 == results[j].1 { distinct = false; } } }
    println!("{}", json!({"import_stats": {"variants": n_variant, "distinct_tags": tags.len(), "modules": n_module, "modules_with_metering_import": n_metering_import,
        "getters_run": n_getter, "getter_results_pairwise_distinct": distinct,
        "getters": results.iter().map(|(n, r)| json!([n, r])).collect::<Vec<_>>()}, "viol": viol}));
}
