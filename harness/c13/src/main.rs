//! C13 harness: stored artifacts and interrupted executions behave identically when resumed.
//!
//! Direct oracles on the implementation (the property itself, implementation vs implementation):
//!  (a) fresh artifact vs `output` -> `parse_artifact` (borrowed, zero-copy) vs owned: byte identity of
//!      re-serialisation and identical run outcomes;
//!  (b) a host that interrupts at a chosen subset of the DYNAMIC host calls (`Interrupted` + `RunConfig`),
//!      resumed with `push_value` + `run_config`, vs the same run with the host answering directly:
//!      same outcome, memory, host-call sequence, tick sequence; run twice => identical;
//!  (c) `engine` mode: `v1::invoke_receive` / `resume_receive` (see engine.rs).
//! Plus everything the model side needs (program line, compiler input, artifact bytes, outcomes).
//!
//! usage:  c13 gen <seed> <n> [start]       generated modules
//!         c13 corpus <seed> <file.wasm>... repository modules
//!         c13 engine <seed> <n>            end to end through the v1 engine
//!         c13 imports                      per host function: ImportFunc tag round trip, stored-vs-fresh getters
//!         c13 overlong                     is an over-long LEB128 accepted by parse_artifact? (observation)
mod ast;
mod classify;
mod engine;
mod gen;
mod imports;
use ast::*;
use concordium_wasm::{
    artifact::{Artifact, ArtifactNamedImport, CompiledFunction, CompiledFunctionBytes, OwnedArtifact, RunnableCode, StackValue},
    machine::{ExecutionOutcome, Host, RunResult, RuntimeStack, Value},
    output::Output,
    types::{BlockType, FunctionType, Name, OpCode, ValueType},
    utils,
    validate::{ValidateImportExport, ValidationConfig},
    CostConfigurationV0, CostConfigurationV1,
};
use hlib::{guarded, hex, quiet_panics, Rng};
use serde_json::{json, Value as J};
use std::sync::atomic::{AtomicU64, Ordering};

pub struct AllowAll;
impl ValidateImportExport for AllowAll {
    fn validate_import_function(&self, _d: bool, _m: &Name, _i: &Name, _t: &FunctionType) -> bool { true }
    fn validate_export_function(&self, _i: &Name, _t: &FunctionType) -> bool { true }
}

// ------------------------------------------------------------------ host
/// Which dynamic host calls interrupt (index = number of host calls made before this one).
#[derive(Clone, Debug)]
pub enum Sched {
    Never,
    All,
    Mask(Vec<bool>),
    /// pseudo-random with density num/den, keyed by a seed
    Hash(u64, u64, u64),
}
impl Sched {
    fn interrupts(&self, n: u64) -> bool {
        match self {
            Sched::Never => false,
            Sched::All => true,
            Sched::Mask(m) => m.get(n as usize).copied().unwrap_or(false),
            Sched::Hash(seed, num, den) => {
                let mut r = Rng::new(seed.wrapping_mul(0x1000193).wrapping_add(n));
                r.below(*den) < *num
            }
        }
    }
    fn show(&self, ncalls: u64) -> String {
        (0..ncalls.min(64)).map(|i| if self.interrupts(i) { '1' } else { '0' }).collect()
    }
}

fn fnv(h: &mut u64, x: u64) {
    for i in 0..8 {
        *h ^= (x >> (8 * i)) & 0xff;
        *h = h.wrapping_mul(0x100000001b3);
    }
}

/// The deterministic host answer for dynamic call `n` of import key `k` with the given arguments.
/// (Mirrored by ocaml/driver_c13.ml.)  Returns (fail, memory write selector, response).
pub fn host_mix(n: u64, k: u64, args: &[u64]) -> u64 {
    let mut x = (n + 1).wrapping_mul(0x9E3779B97F4A7C15) ^ (k + 1).wrapping_mul(0xBF58476D1CE4E5B9);
    for a in args {
        x = (x ^ a).wrapping_mul(0x94D049BB133111EB);
        x ^= x >> 29;
    }
    x
}

pub struct Pending {
    pub n: u64,
    pub response: Option<u64>,
}

pub struct HostS<'s> {
    sched: &'s Sched,
    pub ncalls: u64,
    pub nint: u64,
    pub trace: u64,
    pub trace_len: u64,
    pub energy: u64,
    energy_left: u64,
    pub hcalls: Vec<String>,
    pub ticks: Vec<u64>,
    pub fail_enabled: bool,
}
impl<'s> HostS<'s> {
    fn new(sched: &'s Sched, budget: u64) -> Self {
        HostS { sched, ncalls: 0, nint: 0, trace: 0xcbf29ce484222325, trace_len: 0, energy: 0, energy_left: budget, hcalls: vec![], ticks: vec![], fail_enabled: true }
    }
    fn ev(&mut self, tag: u64, x: u64) {
        fnv(&mut self.trace, tag);
        fnv(&mut self.trace, x);
        self.trace_len += 1;
    }
    fn charge(&mut self, e: u64) -> RunResult<()> {
        self.energy = self.energy.wrapping_add(e);
        if e > self.energy_left {
            self.energy_left = 0;
            anyhow::bail!("OutOfEnergy")
        }
        self.energy_left -= e;
        Ok(())
    }
}
pub fn import_key(f: &ArtifactNamedImport) -> u64 {
    if f.matches("concordium_metering", "account_memory") {
        return 1000;
    }
    if f.get_mod_name() == "host" {
        if let Some(k) = f.get_item_name().strip_prefix('h').and_then(|s| s.parse::<u64>().ok()) {
            return k;
        }
    }
    let mut h = 0xcbf29ce484222325u64;
    for b in f.get_mod_name().bytes().chain(std::iter::once(b'.')).chain(f.get_item_name().bytes()) {
        h ^= b as u64;
        h = h.wrapping_mul(0x100000001b3);
    }
    2000 + h % 1000
}
impl<'s> Host<ArtifactNamedImport> for HostS<'s> {
    type Interrupt = Pending;
    fn tick_initial_memory(&mut self, n: u32) -> RunResult<()> {
        self.ev(1, n as u64);
        self.charge(n as u64 * 100)
    }
    fn call(&mut self, f: &ArtifactNamedImport, memory: &mut [u8], stack: &mut RuntimeStack) -> RunResult<Option<Pending>> {
        use concordium_wasm::artifact::TryFromImport;
        let ty = f.ty();
        let k = import_key(f);
        let mut args: Vec<u64> = vec![0; ty.parameters.len()];
        for (i, p) in ty.parameters.iter().enumerate().rev() {
            args[i] = match p {
                ValueType::I32 => unsafe { stack.pop_u32() as u64 },
                ValueType::I64 => unsafe { stack.pop_u64() },
            };
        }
        let n = self.ncalls;
        self.ncalls += 1;
        let x = host_mix(n, k, &args);
        self.ev(2, n);
        self.ev(3, k);
        for a in &args {
            self.ev(4, *a);
        }
        let (fail, resp): (bool, u64) = if k == 1000 {
            (false, args.first().copied().unwrap_or(0))
        } else {
            let raw = if (x >> 3) % 4 == 0 { x % 16 } else { x >> 7 };
            (self.fail_enabled && x % 97 == 0, raw)
        };
        if fail {
            if self.hcalls.len() < 48 {
                self.hcalls.push(format!("{}:{}>fail", k, args.iter().map(|a| a.to_string()).collect::<Vec<_>>().join(",")));
            }
            self.ev(5, 0);
            anyhow::bail!("host failure")
        }
        // the host writes into the caller's memory (as real host functions do), before any interrupt
        if k != 1000 && !memory.is_empty() && (x >> 8) % 4 == 0 {
            let addr = ((x >> 16) % memory.len() as u64) as usize;
            memory[addr] = (x >> 40) as u8;
            self.ev(6, addr as u64);
        }
        let resp = match ty.result {
            None => None,
            Some(ValueType::I32) => Some(resp & 0xffff_ffff),
            Some(ValueType::I64) => Some(resp),
        };
        if self.hcalls.len() < 48 {
            self.hcalls.push(format!(
                "{}:{}>{}",
                k,
                args.iter().map(|a| a.to_string()).collect::<Vec<_>>().join(","),
                resp.map(|r| r.to_string()).unwrap_or_else(|| "-".into())
            ));
        }
        self.ev(7, resp.unwrap_or(u64::MAX));
        if self.sched.interrupts(n) {
            self.nint += 1;
            Ok(Some(Pending { n, response: resp }))
        } else {
            if let Some(r) = resp {
                stack.push(StackValue { long: r as i64 });
            }
            Ok(None)
        }
    }
    fn tick_energy(&mut self, e: u64) -> RunResult<()> {
        self.ev(8, e);
        if self.ticks.len() < 64 { self.ticks.push(e); }
        self.charge(e)
    }
    fn track_call(&mut self) -> RunResult<()> {
        self.ev(9, 0);
        Ok(())
    }
    fn track_return(&mut self) { self.ev(10, 0); }
}

// ------------------------------------------------------------------ outcomes
#[derive(Clone, Debug, PartialEq)]
pub struct Outcome {
    /// "ok <result>" | "trap <message>" | "PANIC <message>"
    pub head: String,
    pub pages: u64,
    pub memrem: u64,
    pub memhash: u64,
    pub nzcount: u64,
    pub nz: String,
    pub energy: u64,
    pub trace: u64,
    pub trace_len: u64,
    pub ncalls: u64,
    pub hcalls: String,
    pub ticks: String,
    pub nint: u64,
}
impl Outcome {
    /// everything the property compares (the number of interrupts taken is not an observable)
    pub fn key(&self) -> String {
        format!("{} P{}+{} MH{:016x}/{} E{} T{:016x}/{} N{}", self.head, self.pages, self.memrem, self.memhash, self.nzcount, self.energy, self.trace, self.trace_len, self.ncalls)
    }
    fn json(&self) -> J {
        json!({"head": self.head, "pages": self.pages, "memrem": self.memrem, "nz": self.nz, "nzcount": self.nzcount,
               "energy": self.energy.to_string(), "ncalls": self.ncalls, "hcalls": self.hcalls, "ticks": self.ticks, "nint": self.nint, "tlen": self.trace_len})
    }
}

fn scan_memory(memory: &[u8], want_nz: bool) -> (u64, u64, String) {
    let mut h = 0xcbf29ce484222325u64;
    let mut count = 0u64;
    let mut nz: Vec<String> = vec![];
    for (ci, ch) in memory.chunks(4096).enumerate() {
        if ch.iter().all(|b| *b == 0) { continue; }
        for (j, b) in ch.iter().enumerate() {
            if *b != 0 {
                count += 1;
                fnv(&mut h, (ci * 4096 + j) as u64);
                fnv(&mut h, *b as u64);
                if want_nz && nz.len() < 4000 { nz.push(format!("{}:{}", ci * 4096 + j, b)); }
            }
        }
    }
    (h, count, nz.join(" "))
}

static PROGRESS: AtomicU64 = AtomicU64::new(0);

/// Run `name(args)` on `art`; every interrupt is answered by `push_value` of the recorded response
/// followed by `run_config`, until the execution terminates.
pub fn drive<C: RunnableCode>(art: &Artifact<ArtifactNamedImport, C>, name: &str, args: &[Value], sched: &Sched, budget: u64, want_nz: bool) -> Outcome {
    PROGRESS.fetch_add(1, Ordering::SeqCst);
    let mut host = HostS::new(sched, budget);
    let r = guarded(|| {
        let mut r = art.run(&mut host, name, args);
        loop {
            match r {
                Ok(ExecutionOutcome::Interrupted { reason, config }) => {
                    PROGRESS.fetch_add(1, Ordering::SeqCst);
                    let mut config = config;
                    if let Some(v) = reason.response {
                        config.push_value(v);
                    }
                    r = art.run_config(&mut host, config);
                }
                other => break other,
            }
        }
    });
    let (head, mem): (String, Option<Vec<u8>>) = match r {
        Err(p) => (format!("PANIC {}", p), None),
        Ok(Err(e)) => (format!("trap {}", e), None),
        Ok(Ok(ExecutionOutcome::Interrupted { .. })) => ("PANIC unreachable-interrupt".into(), None),
        Ok(Ok(ExecutionOutcome::Success { result, memory })) => {
            let res = match result { None => "-".to_string(), Some(Value::I32(x)) => format!("7f:{}", x), Some(Value::I64(x)) => format!("7e:{}", x) };
            (format!("ok {}", res), Some(memory))
        }
    };
    let (pages, memrem, (memhash, nzcount, nz)) = match &mem {
        Some(m) => ((m.len() / 65536) as u64, (m.len() % 65536) as u64, scan_memory(m, want_nz)),
        None => (0, 0, (0, 0, String::new())),
    };
    Outcome { head, pages, memrem, memhash, nzcount, nz, energy: host.energy, trace: host.trace, trace_len: host.trace_len, ncalls: host.ncalls,
              hcalls: host.hcalls.join("+"), ticks: host.ticks.iter().map(|t| t.to_string()).collect::<Vec<_>>().join(","), nint: host.nint }
}

// ------------------------------------------------------------------ instantiate / reload
type ArtO = Artifact<ArtifactNamedImport, CompiledFunction>;
type ArtB<'a> = Artifact<ArtifactNamedImport, CompiledFunctionBytes<'a>>;

fn instantiate(cfg: &str, bytes: &[u8]) -> Result<ArtO, String> {
    let vc = if cfg.starts_with("v0") { ValidationConfig::V0 } else { ValidationConfig::V1 };
    let r = match &cfg[2..] {
        "" => utils::instantiate::<ArtifactNamedImport, _>(vc, &AllowAll, bytes),
        "m0" => utils::instantiate_with_metering::<ArtifactNamedImport>(vc, CostConfigurationV0, &AllowAll, bytes),
        _ => utils::instantiate_with_metering::<ArtifactNamedImport>(vc, CostConfigurationV1, &AllowAll, bytes),
    };
    r.map(|m| m.artifact).map_err(|e| format!("{}", e))
}

fn out_bytes<C: RunnableCode>(a: &Artifact<ArtifactNamedImport, C>) -> Result<Vec<u8>, String> {
    let mut v = vec![];
    match guarded(|| a.output(&mut v)) {
        Ok(Ok(())) => Ok(v),
        Ok(Err(e)) => Err(format!("output error {}", e)),
        Err(p) => Err(format!("PANIC {}", p)),
    }
}

fn opcode_tok(o: &OpCode) -> String {
    let bt = |b: &BlockType| match b { BlockType::EmptyType => "40", BlockType::ValueType(ValueType::I32) => "7f", BlockType::ValueType(ValueType::I64) => "7e" };
    use OpCode::*;
    let mem = |b: u8, m: &concordium_wasm::types::MemArg| format!("{:02x}:{}:{}", b, m.offset, m.align);
    match o {
        End => "0b".into(), Nop => "01".into(), Unreachable => "00".into(),
        Block(b) => format!("02:{}", bt(b)), Loop(b) => format!("03:{}", bt(b)), If { ty } => format!("04:{}", bt(ty)), Else => "05".into(),
        Br(l) => format!("0c:{}", l), BrIf(l) => format!("0d:{}", l),
        BrTable { labels, default } => { let mut s = format!("0e:{}", labels.len()); for l in labels { s += &format!(":{}", l); } s + &format!(":{}", default) }
        Return => "0f".into(), Call(f) => format!("10:{}", f), CallIndirect(t) => format!("11:{}", t),
        Drop => "1a".into(), Select => "1b".into(),
        LocalGet(i) => format!("20:{}", i), LocalSet(i) => format!("21:{}", i), LocalTee(i) => format!("22:{}", i),
        GlobalGet(i) => format!("23:{}", i), GlobalSet(i) => format!("24:{}", i),
        I32Load(m) => mem(0x28, m), I64Load(m) => mem(0x29, m), I32Load8S(m) => mem(0x2c, m), I32Load8U(m) => mem(0x2d, m),
        I32Load16S(m) => mem(0x2e, m), I32Load16U(m) => mem(0x2f, m), I64Load8S(m) => mem(0x30, m), I64Load8U(m) => mem(0x31, m),
        I64Load16S(m) => mem(0x32, m), I64Load16U(m) => mem(0x33, m), I64Load32S(m) => mem(0x34, m), I64Load32U(m) => mem(0x35, m),
        I32Store(m) => mem(0x36, m), I64Store(m) => mem(0x37, m), I32Store8(m) => mem(0x3a, m), I32Store16(m) => mem(0x3b, m),
        I64Store8(m) => mem(0x3c, m), I64Store16(m) => mem(0x3d, m), I64Store32(m) => mem(0x3e, m),
        MemorySize => "3f".into(), MemoryGrow => "40".into(),
        I32Const(c) => format!("41:{}", c), I64Const(c) => format!("42:{}", c),
        I32Eqz => "45".into(), I32Eq => "46".into(), I32Ne => "47".into(), I32LtS => "48".into(), I32LtU => "49".into(), I32GtS => "4a".into(),
        I32GtU => "4b".into(), I32LeS => "4c".into(), I32LeU => "4d".into(), I32GeS => "4e".into(), I32GeU => "4f".into(),
        I64Eqz => "50".into(), I64Eq => "51".into(), I64Ne => "52".into(), I64LtS => "53".into(), I64LtU => "54".into(), I64GtS => "55".into(),
        I64GtU => "56".into(), I64LeS => "57".into(), I64LeU => "58".into(), I64GeS => "59".into(), I64GeU => "5a".into(),
        I32Clz => "67".into(), I32Ctz => "68".into(), I32Popcnt => "69".into(), I32Add => "6a".into(), I32Sub => "6b".into(), I32Mul => "6c".into(),
        I32DivS => "6d".into(), I32DivU => "6e".into(), I32RemS => "6f".into(), I32RemU => "70".into(), I32And => "71".into(), I32Or => "72".into(),
        I32Xor => "73".into(), I32Shl => "74".into(), I32ShrS => "75".into(), I32ShrU => "76".into(), I32Rotl => "77".into(), I32Rotr => "78".into(),
        I64Clz => "79".into(), I64Ctz => "7a".into(), I64Popcnt => "7b".into(), I64Add => "7c".into(), I64Sub => "7d".into(), I64Mul => "7e".into(),
        I64DivS => "7f".into(), I64DivU => "80".into(), I64RemS => "81".into(), I64RemU => "82".into(), I64And => "83".into(), I64Or => "84".into(),
        I64Xor => "85".into(), I64Shl => "86".into(), I64ShrS => "87".into(), I64ShrU => "88".into(), I64Rotl => "89".into(), I64Rotr => "8a".into(),
        I32WrapI64 => "a7".into(), I64ExtendI32S => "ac".into(), I64ExtendI32U => "ad".into(),
        I32Extend8S => "c0".into(), I32Extend16S => "c1".into(), I64Extend8S => "c2".into(), I64Extend16S => "c3".into(), I64Extend32S => "c4".into(),
        TickEnergy(n) => format!("fe:{}", n),
    }
}

/// The opcode sequences the compiler receives (validate [+ inject metering]), as in harness/c01.
fn compiler_input(cfg: &str, bytes: &[u8]) -> Result<Vec<String>, String> {
    use concordium_wasm::{parse::parse_skeleton, validate::validate_module};
    let vc = if cfg.starts_with("v0") { ValidationConfig::V0 } else { ValidationConfig::V1 };
    let sk = parse_skeleton(bytes).map_err(|e| e.to_string())?;
    let mut module = validate_module(vc, &AllowAll, &sk).map_err(|e| e.to_string())?;
    match &cfg[2..] {
        "" => {}
        "m0" => module.inject_metering(CostConfigurationV0).map_err(|e| e.to_string())?,
        _ => module.inject_metering(CostConfigurationV1).map_err(|e| e.to_string())?,
    }
    Ok(module.code.impls.iter().map(|c| c.expr.instrs.iter().map(opcode_tok).collect::<Vec<_>>().join(" ")).collect())
}

// ------------------------------------------------------------------ the oracles on one artifact
pub struct Tally {
    pub runs: u64,
    pub scheds: u64,
    pub interrupts: u64,
    pub reload_runs: u64,
    pub max_calls: u64,
    pub calls_hist: [u64; 6],
}

fn schedules(r: &mut Rng, ncalls: u64, thorough: bool) -> Vec<Sched> {
    let mut v = vec![];
    if ncalls == 0 {
        return vec![Sched::All];
    }
    if ncalls <= 4 {
        // every non-empty subset of the dynamic calls
        for m in 1u64..(1 << ncalls) {
            v.push(Sched::Mask((0..ncalls).map(|i| (m >> i) & 1 == 1).collect()));
        }
        return v;
    }
    v.push(Sched::All);
    v.push(Sched::Mask((0..ncalls).map(|i| i % 2 == 0).collect()));
    v.push(Sched::Mask((0..ncalls).map(|i| i % 2 == 1).collect()));
    v.push(Sched::Mask((0..ncalls).map(|i| i == 0).collect()));
    v.push(Sched::Mask((0..ncalls).map(|i| i + 1 == ncalls).collect()));
    let k = if thorough { 8 } else { 3 };
    for _ in 0..k {
        v.push(Sched::Hash(r.next(), 1, 2));
    }
    v.push(Sched::Hash(r.next(), 1, 8));
    v.push(Sched::Hash(r.next(), 7, 8));
    if ncalls <= 12 {
        // every single call alone
        for j in 1..ncalls - 1 {
            v.push(Sched::Mask((0..ncalls).map(|i| i == j).collect()));
        }
    }
    v
}

fn vals(args: &[(VT, i64)]) -> Vec<Value> {
    args.iter().map(|(t, v)| match t { VT::I32 => Value::I32(*v as i32), VT::I64 => Value::I64(*v) }).collect()
}
fn show_args(args: &[(VT, i64)]) -> String {
    args.iter().map(|(t, v)| format!("{}:{}", t.tok(), v)).collect::<Vec<_>>().join(" ")
}

/// All direct oracles for one (artifact, entry name, argument vector).  Returns the direct outcome,
/// the masks tried (as strings) and appends violations.
#[allow(clippy::too_many_arguments)]
fn oracles(fresh: &ArtO, borrowed: Option<&ArtB>, owned: Option<&ArtO>, name: &str, args: &[(VT, i64)], r: &mut Rng, budget: u64, thorough: bool,
           want_nz: bool, tally: &mut Tally, viol: &mut Vec<J>, ctx: &J) -> (Outcome, Vec<String>) {
    let a = vals(args);
    let d = drive(fresh, name, &a, &Sched::Never, budget, want_nz);
    tally.runs += 1;
    tally.max_calls = tally.max_calls.max(d.ncalls);
    tally.calls_hist[match d.ncalls { 0 => 0, 1 => 1, 2..=4 => 2, 5..=12 => 3, 13..=40 => 4, _ => 5 }] += 1;
    let mut report = |kind: &str, sched: String, x: &Outcome, y: &Outcome, viol: &mut Vec<J>| {
        if viol.len() < 6 {
            viol.push(json!({"kind": kind, "ctx": ctx, "entry": name, "args": show_args(args), "schedule": sched,
                             "expected": x.key(), "actual": y.key(), "expected_hcalls": x.hcalls, "actual_hcalls": y.hcalls}));
        }
    };
    if d.head.starts_with("PANIC") {
        report("panic-direct", "-".into(), &d, &d, viol);
    }
    // determinism
    let d2 = drive(fresh, name, &a, &Sched::Never, budget, false);
    if d2.key() != d.key() { report("nondeterministic-direct", "-".into(), &d, &d2, viol); }
    // reloaded forms, direct
    if let Some(b) = borrowed {
        let x = drive(b, name, &a, &Sched::Never, budget, false);
        tally.reload_runs += 1;
        if x.key() != d.key() { report("reloaded-borrowed-differs", "-".into(), &d, &x, viol); }
    }
    if let Some(o) = owned {
        let x = drive(o, name, &a, &Sched::Never, budget, false);
        tally.reload_runs += 1;
        if x.key() != d.key() { report("reloaded-owned-differs", "-".into(), &d, &x, viol); }
    }
    // interrupt schedules
    let scheds = schedules(r, d.ncalls, thorough);
    let mut shown = vec![];
    for (i, s) in scheds.iter().enumerate() {
        let x = drive(fresh, name, &a, s, budget, false);
        tally.scheds += 1;
        tally.interrupts += x.nint;
        if shown.len() < 4 { shown.push(s.show(d.ncalls)); }
        if x.key() != d.key() { report("resumed-differs", s.show(d.ncalls.max(x.ncalls)), &d, &x, viol); }
        if i == 0 {
            let y = drive(fresh, name, &a, s, budget, false);
            if y.key() != x.key() || y.nint != x.nint { report("nondeterministic-resumed", s.show(d.ncalls), &x, &y, viol); }
        }
    }
    // interrupts on the reloaded forms
    let s = if d.ncalls <= 1 { Sched::All } else { Sched::Hash(r.next(), 1, 2) };
    if let Some(b) = borrowed {
        let x = drive(b, name, &a, &s, budget, false);
        tally.scheds += 1;
        if x.key() != d.key() { report("resumed-on-borrowed-differs", s.show(d.ncalls), &d, &x, viol); }
        let x = drive(b, name, &a, &Sched::All, budget, false);
        if x.key() != d.key() { report("resumed-on-borrowed-differs", Sched::All.show(d.ncalls), &d, &x, viol); }
    }
    if let Some(o) = owned {
        let x = drive(o, name, &a, &s, budget, false);
        tally.scheds += 1;
        if x.key() != d.key() { report("resumed-on-owned-differs", s.show(d.ncalls), &d, &x, viol); }
    }
    (d, shown)
}

/// Reload oracle (a): bytes, re-serialisation of the borrowed and of the owned form.
fn reload_check(fresh: &ArtO, viol: &mut Vec<J>, ctx: &J) -> Option<Vec<u8>> {
    let bytes = match out_bytes(fresh) {
        Ok(b) => b,
        Err(e) => { viol.push(json!({"kind": "output-failed", "ctx": ctx, "msg": e})); return None; }
    };
    let parsed = guarded(|| utils::parse_artifact::<ArtifactNamedImport>(&bytes));
    match parsed {
        Err(p) => { viol.push(json!({"kind": "parse-panic", "ctx": ctx, "msg": p})); return None; }
        Ok(Err(e)) => { viol.push(json!({"kind": "parse-rejects-own-output", "ctx": ctx, "msg": e.to_string()})); return None; }
        Ok(Ok(b)) => {
            match out_bytes(&b) {
                Ok(b2) => if b2 != bytes {
                    let pos = b2.iter().zip(bytes.iter()).position(|(x, y)| x != y).unwrap_or(b2.len().min(bytes.len()));
                    viol.push(json!({"kind": "reserialise-borrowed-differs", "ctx": ctx, "first_diff_at": pos, "len_fresh": bytes.len(), "len_re": b2.len(),
                                     "fresh_at": hex(&bytes[pos.saturating_sub(4)..(pos + 8).min(bytes.len())]), "re_at": hex(&b2[pos.saturating_sub(4)..(pos + 8).min(b2.len())])}));
                },
                Err(e) => viol.push(json!({"kind": "output-failed-borrowed", "ctx": ctx, "msg": e})),
            }
            let o: ArtO = OwnedArtifact::from(b);
            match out_bytes(&o) {
                Ok(b3) => if b3 != bytes {
                    let pos = b3.iter().zip(bytes.iter()).position(|(x, y)| x != y).unwrap_or(b3.len().min(bytes.len()));
                    viol.push(json!({"kind": "reserialise-owned-differs", "ctx": ctx, "first_diff_at": pos, "len_fresh": bytes.len(), "len_re": b3.len()}));
                },
                Err(e) => viol.push(json!({"kind": "output-failed-owned", "ctx": ctx, "msg": e})),
            }
        }
    }
    // a trailing byte must be left unconsumed by the cursor-based parser: parse_artifact ignores it
    Some(bytes)
}

fn extra_args(r: &mut Rng, tys: &[VT]) -> Vec<(VT, i64)> {
    tys.iter().map(|t| (*t, if *t == VT::I32 { gen::edge32(r) as i64 } else { gen::edge64(r) })).collect()
}

const CONFIGS: [&str; 2] = ["v1", "v1m1"];

fn process(id: &str, case: &Case, r: &mut Rng, thorough: bool, tally: &mut Tally, extra: J) {
    let line = case.to_line();
    let bytes = case.module.encode();
    let mut viol: Vec<J> = vec![];
    let mut res = serde_json::Map::new();
    // rotate a third configuration in now and then
    let mut cfgs: Vec<&str> = CONFIGS.to_vec();
    if r.chance(1, 8) { cfgs.push(*r.pick(&["v0", "v0m0", "v1m0"])); }
    for cfg in cfgs {
        let ctx = json!({"id": id, "cfg": cfg});
        let fresh = match guarded(|| instantiate(cfg, &bytes)) {
            Err(p) => { res.insert(cfg.into(), json!({"inst": "PANIC", "msg": p})); viol.push(json!({"kind": "instantiate-panic", "ctx": ctx, "msg": p})); continue; }
            Ok(Err(e)) => { res.insert(cfg.into(), json!({"inst": "rejected", "msg": e})); continue; }
            Ok(Ok(a)) => a,
        };
        let abytes = match reload_check(&fresh, &mut viol, &ctx) {
            Some(b) => b,
            None => { res.insert(cfg.into(), json!({"inst": "ok", "reload": "failed"})); continue; }
        };
        let borrowed: ArtB = match utils::parse_artifact::<ArtifactNamedImport>(&abytes) { Ok(b) => b, Err(_) => continue };
        let owned: ArtO = match utils::parse_artifact::<ArtifactNamedImport>(&abytes) { Ok(b) => OwnedArtifact::from(b), Err(_) => continue };
        let main_tys: Vec<VT> = case.args.iter().map(|(t, _)| *t).collect();
        let mut argsets: Vec<Vec<(VT, i64)>> = vec![case.args.clone()];
        if !main_tys.is_empty() {
            argsets.push(extra_args(r, &main_tys));
            if thorough { argsets.push(extra_args(r, &main_tys)); }
        }
        let mut runs: Vec<J> = vec![];
        for (ai, args) in argsets.iter().enumerate() {
            for e in case.entries.iter() {
                let name = format!("f{}", e);
                let (d, shown) = oracles(&fresh, Some(&borrowed), Some(&owned), &name, args, r, 1_000_000_000, thorough, ai == 0, tally, &mut viol, &ctx);
                if ai == 0 {
                    let mut j = d.json();
                    j["entry"] = json!(e);
                    j["scheds"] = json!(shown);
                    runs.push(j);
                }
            }
        }
        let input = guarded(|| compiler_input(cfg, &bytes));
        res.insert(cfg.into(), json!({"inst": "ok", "art": hex(&abytes), "runs": runs,
                                      "in": match input { Ok(Ok(j)) => json!(j), Ok(Err(e)) => json!(e), Err(p) => json!(p) }}));
    }
    println!("{}", json!({"id": id, "prog": line, "res": res, "viol": viol, "x": extra}));
}

fn watchdog() {
    std::thread::spawn(|| {
        let mut last = u64::MAX;
        let mut stale = 0;
        loop {
            std::thread::sleep(std::time::Duration::from_millis(500));
            let p = PROGRESS.load(Ordering::SeqCst);
            if p == last { stale += 1 } else { stale = 0; last = p }
            if stale >= 60 {
                println!("{}", json!({"HANG": 1}));
                std::process::exit(3);
            }
        }
    });
}

fn corpus_file(path: &str, r: &mut Rng, tally: &mut Tally) {
    let bytes = match std::fs::read(path) { Ok(b) => b, Err(e) => { println!("{}", json!({"file": path, "skip": format!("read: {}", e)})); return; } };
    let mut viol: Vec<J> = vec![];
    let mut done = serde_json::Map::new();
    for cfg in ["v1m1", "v1"] {
        let ctx = json!({"file": path, "cfg": cfg});
        let fresh = match guarded(|| instantiate(cfg, &bytes)) {
            Err(p) => { viol.push(json!({"kind": "instantiate-panic", "ctx": ctx, "msg": p})); continue; }
            Ok(Err(e)) => { done.insert(cfg.into(), json!({"inst": "rejected", "msg": e})); continue; }
            Ok(Ok(a)) => a,
        };
        let abytes = match reload_check(&fresh, &mut viol, &ctx) { Some(b) => b, None => continue };
        let mut nruns = 0;
        // execution only with metering (bounded by the energy budget)
        if cfg == "v1m1" {
            let borrowed: ArtB = match utils::parse_artifact::<ArtifactNamedImport>(&abytes) { Ok(b) => b, Err(_) => continue };
            let owned: ArtO = match utils::parse_artifact::<ArtifactNamedImport>(&abytes) { Ok(b) => OwnedArtifact::from(b), Err(_) => continue };
            let exports: Vec<(String, u32)> = fresh.export.iter().map(|(n, i)| (n.as_ref().to_string(), *i)).collect();
            for (name, idx) in exports.iter().take(12) {
                let li = match (*idx as usize).checked_sub(fresh.imports.len()) { Some(x) => x, None => continue };
                let f = match fresh.code.get(li) { Some(f) => f, None => continue };
                let tys: Vec<VT> = f.params().iter().map(|t| match t { ValueType::I32 => VT::I32, ValueType::I64 => VT::I64 }).collect();
                for _ in 0..2 {
                    let args = extra_args(r, &tys);
                    let _ = oracles(&fresh, Some(&borrowed), Some(&owned), name, &args, r, 400_000, false, false, tally, &mut viol, &ctx);
                    nruns += 1;
                }
            }
        }
        done.insert(cfg.into(), json!({"inst": "ok", "artifact_len": abytes.len(), "entry_runs": nruns}));
    }
    println!("{}", json!({"file": path, "res": done, "viol": viol}));
}

fn main() {
    quiet_panics();
    let a: Vec<String> = std::env::args().collect();
    let mode = a.get(1).map(|s| s.as_str()).unwrap_or("gen");
    watchdog();
    let mut tally = Tally { runs: 0, scheds: 0, interrupts: 0, reload_runs: 0, max_calls: 0, calls_hist: [0; 6] };
    match mode {
        "gen" => {
            let seed: u64 = a[2].parse().unwrap();
            let n: u64 = a[3].parse().unwrap();
            let start: u64 = a.get(4).map(|s| s.parse().unwrap()).unwrap_or(0);
            let thorough = a.get(5).map(|s| s == "thorough").unwrap_or(false);
            let mut st = gen::Stats::default();
            for i in start..n {
                let mut r = Rng::new(seed.wrapping_mul(1_000_003).wrapping_add(i));
                let (case, k) = gen::gen_case(&mut r, &mut st);
                println!("{}", json!({"START": i}));
                process(&format!("g{}-{}", seed, i), &case, &mut r, thorough, &mut tally, json!({"f1": k.allow_f1, "f2": k.allow_f2, "f3": k.allow_f3}));
            }
            println!("{}", json!({"stats": st.0, "tally": {"direct_runs": tally.runs, "schedules": tally.scheds, "interrupts": tally.interrupts,
                     "reload_runs": tally.reload_runs, "max_dynamic_calls": tally.max_calls, "calls_hist_0_1_4_12_40_more": tally.calls_hist}}));
        }
        "corpus" => {
            let seed: u64 = a[2].parse().unwrap();
            for (i, p) in a[3..].iter().enumerate() {
                let mut r = Rng::new(seed.wrapping_mul(7_000_003).wrapping_add(i as u64));
                println!("{}", json!({"START": p}));
                corpus_file(p, &mut r, &mut tally);
            }
            println!("{}", json!({"tally": {"direct_runs": tally.runs, "schedules": tally.scheds, "interrupts": tally.interrupts, "reload_runs": tally.reload_runs,
                     "max_dynamic_calls": tally.max_calls, "calls_hist_0_1_4_12_40_more": tally.calls_hist}}));
        }
        "engine" => {
            let seed: u64 = a[2].parse().unwrap();
            let n: u64 = a[3].parse().unwrap();
            engine::run(seed, n);
        }
        "imports" => imports::run_all(),
        "classify" => {
            let seed: u64 = a[2].parse().unwrap();
            let n: u64 = a[3].parse().unwrap();
            classify::run(seed, n);
        }
        "overlong" => {
            // observation: the artifact parser accepts over-long LEB128 forms, so byte canonicity holds
            // only for serialised artifacts (documented in design/C13.md; not a violation of the property)
            let m = Module { types: vec![Sig { params: vec![], result: None }], funcs: vec![Func { ty: 0, locals: vec![], body: vec![Op::End] }], ..Default::default() };
            let fresh = instantiate("v1", &m.encode()).unwrap();
            let bytes = out_bytes(&fresh).unwrap();
            // bytes[1] is the import count 0x00: write it as 0x80 0x00
            let mut alt = vec![bytes[0], 0x80, 0x00];
            alt.extend(&bytes[2..]);
            let r = utils::parse_artifact::<ArtifactNamedImport>(&alt);
            let (acc, same) = match r { Ok(b) => (true, out_bytes(&b).map(|x| x == alt).unwrap_or(false)), Err(_) => (false, false) };
            println!("{}", json!({"overlong_accepted": acc, "reserialises_to_input": same, "canonical": hex(&bytes), "input": hex(&alt)}));
        }
        _ => eprintln!("unknown mode"),
    }
}
