//! (d) outcome classification of the v1 engine: `process_receive_result` (through `invoke_receive` /
//! `resume_receive`) and the tail of `invoke_init`, against `Contract/V1Classify.v`
//! (`classify_scenario` / `classify_init`, evaluated by the extracted runner, commands CLS / CLI).
//!
//! A generated contract is a sequence of SECTIONS: 0-3 `log_event`s, 0-2 `write_output`s, optionally a
//! `state_create_entry`, and an end: an interrupt of one of the 10 kinds (`invoke` with tags 0-8, `upgrade`),
//! `return code`, `unreachable`, call depth beyond MAX_ACTIVATION_FRAMES, or an endless loop.
//! The cost of every section is MEASURED once with an ample budget; the model then has to predict,
//! for other budgets and for resumes with less energy than was handed out, every `ReceiveResult` in
//! order: variant, remaining energy, state-changed flag, logs handed out (per `should_clear_logs`),
//! interrupt kind, reject reason, return value.
use crate::ast::*;
use concordium_contracts_common::{AccountAddress, Address, Amount, ChainMetadata, ContractAddress, OwnedEntrypointName, ReceiveName, Timestamp};
use concordium_smart_contract_engine::{v0, v1, v1::trie, InterpreterEnergy};
use concordium_wasm::{
    artifact::{Artifact, CompiledFunction},
    utils::instantiate_with_metering,
    CostConfigurationV1,
    validate::ValidationConfig,
};
use hlib::{guarded, hex, Rng};
use serde_json::json;
use std::sync::Arc;

type Art1 = Arc<Artifact<v1::ProcessedImports, CompiledFunction>>;
type Ctx1 = v1::ReceiveContext<Vec<u8>>;
type RR1 = v1::ReceiveResult<CompiledFunction, (), Ctx1>;

#[derive(Clone, Debug, PartialEq)]
enum End {
    /// kind 0..=9 in the order of `Interrupt` (= `interrupt_kind` of the model)
    Interrupt(u8),
    Return(i32),
    Unreachable,
    Deep,
    Loop,
}
#[derive(Clone, Debug)]
struct Section {
    logs: Vec<(u32, u32)>, // (addr, len) into the data area
    outs: Vec<(u32, u32)>,
    create: bool,
    end: End,
}

const IMPORTS: [(&str, &[VT], Option<VT>); 5] = [
    ("invoke", &[VT::I32, VT::I32, VT::I32], Some(VT::I64)),
    ("upgrade", &[VT::I32], Some(VT::I64)),
    ("log_event", &[VT::I32, VT::I32], Some(VT::I32)),
    ("write_output", &[VT::I32, VT::I32, VT::I32], Some(VT::I32)),
    ("state_create_entry", &[VT::I32, VT::I32], Some(VT::I64)),
];
const INVOKE: u32 = 0;
const UPGRADE: u32 = 1;
const LOG: u32 = 2;
const WOUT: u32 = 3;
const CREATE: u32 = 4;
const NIMP: u32 = 5;
const F_REC: u32 = NIMP + 2;
const DATA_AT: u32 = 256;
const DATA_LEN: u32 = 256;
const AMPLE: u64 = 4_000_000;

fn c32(v: u32) -> Op { Op::I32Const(v as i32) }

fn data_area(seed: u64) -> Vec<u8> { Rng::new(seed ^ 0xDA7A).bytes(DATA_LEN as usize) }

fn section_ops(b: &mut Vec<Op>, i: usize, s: &Section, init: bool) {
    for (a, l) in &s.logs {
        b.extend([c32(*a), c32(*l), Op::Call(LOG), Op::Plain(0x1a)]);
    }
    for (a, l) in &s.outs {
        // write_output(addr, len, off); off += len   (local 1 = off)
        b.extend([c32(*a), c32(*l), Op::LocalGet(1), Op::Call(WOUT), Op::Plain(0x1a)]);
        b.extend([Op::LocalGet(1), c32(*l), Op::Plain(0x6a), Op::LocalSet(1)]);
    }
    if s.create {
        b.extend([c32(600 + i as u32), c32(1), Op::Call(CREATE), Op::Plain(0x1a)]);
    }
    match &s.end {
        End::Interrupt(k) => {
            assert!(!init);
            match k {
                0 => b.extend([c32(0), c32(0), c32(40), Op::Call(INVOKE), Op::Plain(0x1a)]),
                1 => b.extend([c32(1), c32(64), c32(30), Op::Call(INVOKE), Op::Plain(0x1a)]),
                2 => b.extend([c32(128), Op::Call(UPGRADE), Op::Plain(0x1a)]),
                3 => b.extend([c32(2), c32(0), c32(32), Op::Call(INVOKE), Op::Plain(0x1a)]),
                4 => b.extend([c32(3), c32(64), c32(16), Op::Call(INVOKE), Op::Plain(0x1a)]),
                5 => b.extend([c32(4), c32(0), c32(0), Op::Call(INVOKE), Op::Plain(0x1a)]),
                6 => b.extend([c32(5), c32(0), c32(40), Op::Call(INVOKE), Op::Plain(0x1a)]),
                7 => b.extend([c32(6), c32(0), c32(32), Op::Call(INVOKE), Op::Plain(0x1a)]),
                8 => b.extend([c32(7), c32(64), c32(16), Op::Call(INVOKE), Op::Plain(0x1a)]),
                _ => b.extend([c32(8), c32(64), c32(16), Op::Call(INVOKE), Op::Plain(0x1a)]),
            }
        }
        End::Return(code) => b.extend([Op::I32Const(*code), Op::Plain(0x0f)]),
        End::Unreachable => b.push(Op::Plain(0x00)),
        End::Deep => b.extend([c32(2000), Op::Call(F_REC), Op::Plain(0x1a)]),
        End::Loop => b.extend([Op::Loop(None), Op::Br(0), Op::End]),
    }
}

fn build(secs: &[Section], init_sec: &Section, seed: u64) -> Module {
    let mut m = Module::default();
    for (name, ps, r) in IMPORTS.iter() {
        m.types.push(Sig { params: ps.to_vec(), result: *r });
        m.imports.push(("concordium".into(), name.to_string(), (m.types.len() - 1) as u32));
    }
    m.types.push(Sig { params: vec![VT::I64], result: Some(VT::I32) }); // 5: entrypoints
    m.types.push(Sig { params: vec![VT::I32], result: Some(VT::I32) }); // 6: rec
    m.mem = Some((1, Some(2)));
    m.data.push((0, (0u8..40).collect())); // account address + amount
    // call payload: contract address (16), parameter length 0 (u16), name "ab" (u16 length + bytes), amount (8)
    let mut call = vec![0u8; 16];
    call.extend([0, 0, 2, 0, b'a', b'b']);
    call.extend([0u8; 8]);
    m.data.push((64, call));
    m.data.push((128, (100u8..132).collect())); // module reference
    m.data.push((DATA_AT, data_area(seed)));
    m.data.push((600, (0u8..16).map(|x| x + 1).collect())); // keys
    // recv (function 0)
    let mut b: Vec<Op> = vec![];
    for (i, s) in secs.iter().enumerate() { section_ops(&mut b, i, s, false); }
    b.extend([c32(0), Op::End]);
    m.funcs.push(Func { ty: 5, locals: vec![VT::I32], body: b });
    // init (function 1)
    let mut b: Vec<Op> = vec![];
    section_ops(&mut b, 0, init_sec, true);
    b.extend([c32(0), Op::End]);
    m.funcs.push(Func { ty: 5, locals: vec![VT::I32], body: b });
    // rec(n) (function 2)
    m.funcs.push(Func {
        ty: 6,
        locals: vec![],
        body: vec![Op::LocalGet(0), Op::Plain(0x45), Op::If(Some(VT::I32)), c32(0), Op::Else,
                   Op::LocalGet(0), c32(1), Op::Plain(0x6b), Op::Call(F_REC), c32(1), Op::Plain(0x6a), Op::End, Op::End],
    });
    m.exports = vec![("c.recv".into(), 0), ("init_c".into(), 1)];
    m
}

fn addr(base: u8) -> AccountAddress {
    let mut a = [0u8; 32];
    for (i, x) in a.iter_mut().enumerate() { *x = base + i as u8; }
    AccountAddress(a)
}
fn ctx() -> Ctx1 {
    v1::ReceiveContext {
        common: v0::ReceiveContext {
            metadata: ChainMetadata { slot_time: Timestamp::from_timestamp_millis(1) },
            invoker: addr(0x30),
            self_address: ContractAddress { index: 7, subindex: 0 },
            self_balance: Amount::from_micro_ccd(1000),
            sender: Address::Account(addr(0x70)),
            owner: addr(0x50),
            sender_policies: vec![],
        },
        entrypoint: OwnedEntrypointName::new_unchecked("recv".into()),
    }
}
fn new_loader() -> trie::Loader<Vec<u8>> { trie::Loader { inner: Vec::<u8>::new() } }

fn logs_str(l: &v0::Logs) -> String {
    let v: Vec<String> = l.iterate().map(|x| hex(x)).collect();
    if v.is_empty() { "-".into() } else { v.join(",") }
}
fn hex_or_dash(b: &[u8]) -> String { if b.is_empty() { "-".into() } else { hex(b) } }

fn kind_index(i: &v1::Interrupt) -> u8 {
    use v1::Interrupt::*;
    match i {
        Transfer { .. } => 0, Call { .. } => 1, Upgrade { .. } => 2, QueryAccountBalance { .. } => 3,
        QueryContractBalance { .. } => 4, QueryExchangeRates => 5, CheckAccountSignature { .. } => 6,
        QueryAccountKeys { .. } => 7, QueryContractModuleReference { .. } => 8, QueryContractName { .. } => 9,
    }
}

/// runs the receive method; `cuts[i]` is kept back by the embedder at the i-th resume.
/// Returns the results in order and, per result, (energy given to the section, energy left).
fn run_receive(art: &Art1, budget: u64, cuts: &[u64]) -> (Vec<String>, Vec<(u64, Option<u64>)>) {
    let mut res: Vec<String> = vec![];
    let mut en: Vec<(u64, Option<u64>)> = vec![];
    let r = guarded(|| {
        let mut ms = trie::PersistentState::from_iterator(std::iter::empty::<(&[u8], Vec<u8>)>()).thaw();
        let mut loader = new_loader();
        let inner = ms.get_inner(&mut loader);
        let st = v1::InstanceState::new(loader, inner);
        let mut given = budget;
        let mut step: Result<RR1, String> = v1::invoke_receive::<_, CompiledFunction, CompiledFunction, Art1, Ctx1, Ctx1, ()>(
            art.clone(),
            ctx(),
            v1::ReceiveInvocation { amount: Amount::from_micro_ccd(0), receive_name: ReceiveName::new_unchecked("c.recv"), parameter: &[], energy: InterpreterEnergy::new(budget) },
            st,
            v1::ReceiveParams::new_p7(),
        )
        .map_err(|e| format!("E {}", e.value.map(|v| v.to_string()).unwrap_or_else(|| "none".into())));
        let mut i = 0usize;
        loop {
            match step {
                Err(m) => { res.push(m); en.push((given, None)); return; }
                Ok(rr) => match rr {
                    v1::ReceiveResult::OutOfEnergy { .. } => { res.push("O".into()); en.push((given, None)); return; }
                    v1::ReceiveResult::Trap { remaining_energy, .. } => { res.push(format!("T {}", remaining_energy.energy)); en.push((given, Some(remaining_energy.energy))); return; }
                    v1::ReceiveResult::Reject { reason, return_value, remaining_energy, .. } => {
                        res.push(format!("R {} {} {}", reason, remaining_energy.energy, hex_or_dash(&return_value)));
                        en.push((given, Some(remaining_energy.energy)));
                        return;
                    }
                    v1::ReceiveResult::Success { return_value, remaining_energy, state_changed, logs, .. } => {
                        res.push(format!("S {} {} {} {}", remaining_energy.energy, state_changed as u8, logs_str(&logs), hex_or_dash(&return_value)));
                        en.push((given, Some(remaining_energy.energy)));
                        return;
                    }
                    v1::ReceiveResult::Interrupt { remaining_energy, state_changed, config, logs, interrupt, .. } => {
                        res.push(format!("I {} {} {} {}", remaining_energy.energy, state_changed as u8, logs_str(&logs), kind_index(&interrupt)));
                        en.push((given, Some(remaining_energy.energy)));
                        let cut = cuts.get(i).copied().unwrap_or(0);
                        i += 1;
                        given = remaining_energy.energy.saturating_sub(cut);
                        let resp = v1::InvokeResponse::Success { new_balance: Amount::from_micro_ccd(5), data: if i % 2 == 0 { Some(vec![1, 2]) } else { None } };
                        step = v1::resume_receive::<_, ()>(config, resp, InterpreterEnergy::new(given), &mut ms, false, new_loader()).map_err(|e| match e {
                            v1::ResumeError::TooManyInterrupts => "E toomany".to_string(),
                            v1::ResumeError::InvalidReturn { error } => format!("E {}", error.value.map(|v| v.to_string()).unwrap_or_else(|| "none".into())),
                        });
                    }
                },
            }
        }
    });
    if let Err(p) = r { res.push(format!("PANIC {}", p)); }
    (res, en)
}

fn run_init(art: &Art1, budget: u64) -> (String, Option<u64>) {
    let r = guarded(|| {
        let ictx: v0::InitContext<Vec<u8>> = v0::InitContext { metadata: ChainMetadata { slot_time: Timestamp::from_timestamp_millis(1) }, init_origin: addr(0x30), sender_policies: vec![] };
        let r = v1::invoke_init::<_, _, ()>(
            art.as_ref(),
            ictx,
            v1::InitInvocation { amount: Amount::from_micro_ccd(0), init_name: "init_c", parameter: &[], energy: InterpreterEnergy::new(budget) },
            false,
            new_loader(),
        );
        match r {
            Err(e) => (format!("E {}", e.value.map(|v| v.to_string()).unwrap_or_else(|| "none".into())), None),
            Ok(v1::InitResult::OutOfEnergy { .. }) => ("O".to_string(), None),
            Ok(v1::InitResult::Trap { remaining_energy, .. }) => (format!("T {}", remaining_energy.energy), Some(remaining_energy.energy)),
            Ok(v1::InitResult::Reject { reason, return_value, remaining_energy, .. }) => (format!("R {} {} {}", reason, remaining_energy.energy, hex_or_dash(&return_value)), Some(remaining_energy.energy)),
            Ok(v1::InitResult::Success { logs, return_value, remaining_energy, .. }) => (format!("S {} {} {}", remaining_energy.energy, logs_str(&logs), hex_or_dash(&return_value)), Some(remaining_energy.energy)),
        }
    });
    match r { Ok(x) => x, Err(p) => (format!("PANIC {}", p), None) }
}

fn gen_section(r: &mut Rng, end: End) -> Section {
    let slice = |r: &mut Rng| { let l = r.range(1, 6) as u32; (DATA_AT + r.below((DATA_LEN - l) as u64) as u32, l) };
    Section {
        logs: (0..*r.pick(&[0usize, 0, 1, 1, 2, 3])).map(|_| slice(r)).collect(),
        outs: (0..*r.pick(&[0usize, 1, 1, 2])).map(|_| slice(r)).collect(),
        create: r.chance(1, 4),
        end,
    }
}
fn gen_final(r: &mut Rng) -> End {
    match r.below(20) {
        0..=3 => End::Return(0),
        4..=6 => End::Return(*r.pick(&[1i32, 2, 7, 255, 65536, i32::MAX])),
        7..=11 => End::Return(*r.pick(&[-1i32, -2, -7, -42, -65536, i32::MIN, i32::MIN + 1])),
        12 => End::Return(r.next() as i32),
        13 | 14 => End::Unreachable,
        15 | 16 => End::Deep,
        17 => End::Loop,
        _ => End::Return(-(r.range(1, 1 << 30) as i32)),
    }
}

/// section in the token format of ocaml/driver_c13.ml: <cost> <logs> <out> <changed> <end>
fn sec_tokens(s: &Section, cost: u64, cut: u64, data: &[u8]) -> String {
    let sl = |(a, l): &(u32, u32)| hex(&data[(*a - DATA_AT) as usize..(*a - DATA_AT + *l) as usize]);
    let logs: Vec<String> = s.logs.iter().map(sl).collect();
    let out: String = s.outs.iter().map(sl).collect();
    format!("{} {} {} {} {}", cost,
        if logs.is_empty() { "-".to_string() } else { logs.join(",") },
        if out.is_empty() { "-".to_string() } else { out },
        s.create as u8,
        match &s.end {
            End::Interrupt(k) => format!("i:{}:{}", k, cut),
            End::Return(c) => format!("r:{}", *c as u32),
            End::Unreachable | End::Deep => "t".to_string(),
            End::Loop => "l".to_string(),
        })
}

pub fn run(seed: u64, n: u64) {
    let mut st = [0u64; 12]; // scenarios, receive runs, init runs, interrupts, by final: success/positive/reject/trap/deep/loop, clearing, non-clearing
    let mut hist_k = [0u64; 6];
    for ci in 0..n {
        crate::PROGRESS.fetch_add(1, std::sync::atomic::Ordering::SeqCst);
        let mut r = Rng::new(seed.wrapping_mul(11_000_027).wrapping_add(ci));
        let k = *r.pick(&[0usize, 1, 1, 2, 2, 3, 4, 5]);
        hist_k[k] += 1;
        let mut secs: Vec<Section> = (0..k).map(|_| { let kind = if r.chance(1, 2) { r.below(3) as u8 } else { r.range(3, 9) as u8 }; gen_section(&mut r, End::Interrupt(kind)) }).collect();
        let fin = gen_final(&mut r);
        match &fin { End::Return(0) => st[4] += 1, End::Return(c) if *c > 0 => st[5] += 1, End::Return(_) => st[6] += 1, End::Unreachable => st[7] += 1, End::Deep => st[8] += 1, End::Loop => st[9] += 1, _ => {} }
        secs.push(gen_section(&mut r, fin));
        for s in &secs { if let End::Interrupt(kd) = s.end { if kd < 3 { st[10] += 1 } else { st[11] += 1 } } }
        let init_sec = { let e = gen_final(&mut r); gen_section(&mut r, e) };
        let dseed = seed.wrapping_mul(31).wrapping_add(ci);
        let data = data_area(dseed);
        let bytes = build(&secs, &init_sec, dseed).encode();
        let imp = v1::ConcordiumAllowedImports { support_upgrade: true, enable_debug: false };
        let art: Art1 = match guarded(|| instantiate_with_metering::<v1::ProcessedImports>(ValidationConfig::V1, CostConfigurationV1, &imp, &bytes)) {
            Ok(Ok(m)) => Arc::new(m.artifact),
            Ok(Err(e)) => { println!("{}", json!({"cls_error": format!("contract rejected: {:#}", e), "index": ci})); continue; }
            Err(p) => { println!("{}", json!({"cls_error": format!("instantiate panic: {}", p), "index": ci})); continue; }
        };
        st[0] += 1;
        // calibration: ample budget, nothing kept back
        let (cal, en) = run_receive(&art, AMPLE, &[]);
        st[1] += 1;
        let costs: Vec<u64> = (0..secs.len()).map(|i| match en.get(i) { Some((g, Some(rem))) => g - rem, _ => 0 }).collect();
        let emit = |budget: u64, cuts: &[u64], res: &[String], what: &str| {
            let toks: Vec<String> = secs.iter().enumerate().map(|(i, s)| sec_tokens(s, costs[i], cuts.get(i).copied().unwrap_or(0), &data)).collect();
            println!("{}", json!({"cls": format!("CLS {} {} {}", budget, secs.len(), toks.join(" ")), "impl": res.join(" ; "), "index": ci, "variant": what,
                                  "sections": secs.iter().map(|s| format!("{:?}", s)).collect::<Vec<_>>()}));
        };
        emit(AMPLE, &[], &cal, "ample");
        if cal.len() != secs.len() && !matches!(secs.last().map(|s| &s.end), Some(End::Loop)) { /* the comparison with the model reports it */ }
        let total: u64 = costs.iter().sum();
        let mut variants: Vec<(u64, Vec<u64>, &str)> = vec![(total, vec![], "exact"), (total.saturating_sub(1), vec![], "exact-1"), (total + 1, vec![], "exact+1"),
                                                       (costs[0], vec![], "first-section-exact"), (costs[0].saturating_sub(1), vec![], "first-section-1"),
                                                       (r.below(total + 10), vec![], "random-budget")];
        // resumes with less energy than handed out: leave exactly / one less than / one more than the next section needs
        for v in 0..3 {
            let budget = if v == 0 { AMPLE } else { total + r.below(2000) };
            let mut rem = budget;
            let mut cuts = vec![];
            for i in 0..secs.len().saturating_sub(1) {
                rem = rem.saturating_sub(costs[i]);
                let need = costs[i + 1];
                let cut = match r.below(6) {
                    0 => 0,
                    1 => rem.saturating_sub(need),
                    2 => rem.saturating_sub(need) + 1,
                    3 => rem.saturating_sub(need + 1),
                    4 => rem,
                    _ => r.below(rem + 1),
                };
                cuts.push(cut);
                rem = rem.saturating_sub(cut);
            }
            variants.push((budget, cuts, "cuts"));
        }
        for (budget, cuts, what) in variants {
            crate::PROGRESS.fetch_add(1, std::sync::atomic::Ordering::SeqCst);
            let (res, _) = run_receive(&art, budget, &cuts);
            st[1] += 1;
            st[3] += res.iter().filter(|x| x.starts_with("I ")).count() as u64;
            emit(budget, &cuts, &res, what);
        }
        // init: one section
        let (ical, irem) = run_init(&art, AMPLE);
        st[2] += 1;
        let icost = irem.map(|x| AMPLE - x).unwrap_or(0);
        let iemit = |budget: u64, res: &str, what: &str| {
            println!("{}", json!({"cls": format!("CLI {} {}", budget, sec_tokens(&init_sec, icost, 0, &data)), "impl": res, "index": ci, "variant": what, "sections": [format!("{:?}", init_sec)]}));
        };
        iemit(AMPLE, &ical, "init-ample");
        // the cost is only known when the result reports the energy left (not for Err / OutOfEnergy)
        let ivariants: Vec<(u64, &str)> = if irem.is_some() { vec![(icost, "init-exact"), (icost.saturating_sub(1), "init-exact-1"), (r.below(icost + 5), "init-random")] } else { vec![] };
        for (budget, what) in ivariants {
            crate::PROGRESS.fetch_add(1, std::sync::atomic::Ordering::SeqCst);
            let (res, _) = run_init(&art, budget);
            st[2] += 1;
            iemit(budget, &res, what);
        }
    }
    println!("{}", json!({"classify_stats": {"contracts": st[0], "receive_runs": st[1], "init_runs": st[2], "interrupts_in_variants": st[3],
        "final_return_0": st[4], "final_return_positive": st[5], "final_return_negative": st[6], "final_unreachable": st[7], "final_call_depth": st[8], "final_loop": st[9],
        "interrupt_sections_clearing": st[10], "interrupt_sections_query": st[11], "interrupts_per_contract_0_to_5": hist_k}}));
}
