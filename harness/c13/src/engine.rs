//! (c) end to end through the v1 engine: `v1::invoke_receive` on a contract that performs `invoke`
//! host calls (every one of them interrupts), `resume_receive` with seeded responses, with and without
//! state changes during the interrupt (a re-entrant call of the same instance on the same mutable
//! state, as the node does), so that `InstanceState::migrate` must invalidate entry handles exactly
//! when the state changed.
//!
//! Oracles: (1) the contract's observations (the response word pushed by `resume_receive`, reads through a
//! handle obtained BEFORE the interrupt, the raw id and reads of a fresh lookup, memory grown before the
//! first interrupt) are printed and compared by checks/C13.py with the Coq model
//! `Contract/V1Resume.v` (`engine_scenario`, over `Trie/InstanceState.v`), which replaced the reference
//! that used to be hand-written here; (2) running the scenario twice gives the
//! same return value, logs, energy and final state; (3) the artifact reloaded from its serialisation
//! (`output` -> `parse_artifact` -> owned) gives the same.
use crate::ast::*;
use concordium_contracts_common::{AccountAddress, Address, Amount, ChainMetadata, ContractAddress, OwnedEntrypointName, ReceiveName, Timestamp};
use concordium_smart_contract_engine::{v0, v1, v1::trie, InterpreterEnergy};
use concordium_wasm::{
    artifact::{Artifact, CompiledFunction, OwnedArtifact},
    output::Output,
    utils::{instantiate, parse_artifact},
    validate::ValidationConfig,
};
use hlib::{guarded, hex, Rng};
use serde_json::{json, Value as J};
use std::sync::Arc;

type Art1 = Arc<Artifact<v1::ProcessedImports, CompiledFunction>>;
type Ctx1 = v1::ReceiveContext<Vec<u8>>;
type RR1 = v1::ReceiveResult<CompiledFunction, (), Ctx1>;

#[derive(Clone, Debug)]
struct Step {
    /// nested calls below the entrypoint when `invoke` is called (0 = in the entrypoint itself)
    depth: u32,
    /// nested calls made right after the resume, at that depth (0 = none): the call-depth budget
    /// (`activation_frames`) must have survived the interrupt
    recurse: u32,
    /// balance reported by a successful response
    balance: u64,
    /// response: 0 = success without data, 1 = success with data, 2..=12 = InvokeFailure number 1..=11,
    /// 13 = ContractReject { code, data }
    resp: u8,
    data: Vec<u8>,
    code: i32,
    /// the state is reported as updated on resume
    upd: bool,
    /// a re-entrant call writes this value to the entry during the interrupt (only with `upd`)
    reentrant_write: Option<u32>,
    /// after resuming, the contract replaces its stale handle by the fresh one
    refresh: bool,
    /// after resuming, the contract writes this value through the fresh handle
    contract_write: Option<u32>,
}

const IMPORTS: [(&str, &[VT], Option<VT>); 8] = [
    ("invoke", &[VT::I32, VT::I32, VT::I32], Some(VT::I64)),
    ("state_create_entry", &[VT::I32, VT::I32], Some(VT::I64)),
    ("state_lookup_entry", &[VT::I32, VT::I32], Some(VT::I64)),
    ("state_entry_write", &[VT::I64, VT::I32, VT::I32, VT::I32], Some(VT::I32)),
    ("state_entry_read", &[VT::I64, VT::I32, VT::I32, VT::I32], Some(VT::I32)),
    ("write_output", &[VT::I32, VT::I32, VT::I32], Some(VT::I32)),
    ("log_event", &[VT::I32, VT::I32], Some(VT::I32)),
    ("get_receive_self_balance", &[], Some(VT::I64)),
];
const INVOKE: u32 = 0;
const CREATE: u32 = 1;
const LOOKUP: u32 = 2;
const EWRITE: u32 = 3;
const EREAD: u32 = 4;
const WOUT: u32 = 5;
const LOG: u32 = 6;
const BALANCE: u32 = 7;
const NIMP: u32 = 8;
const F_AT_DEPTH: u32 = NIMP;
const F_REC: u32 = NIMP + 3;
pub const INITIAL_BALANCE: u64 = 1_000_000;

// locals of `recv`: 0 = amount (param), 1 = e (i64), 2 = off (i32), 3 = r (i64), 4 = t (i32), 5 = e2 (i64)
fn c32(v: u32) -> Op { Op::I32Const(v as i32) }
fn out_word(b: &mut Vec<Op>, addr: u32, len: u32) {
    // write_output(addr, len, off); off += len
    b.extend([c32(addr), c32(len), Op::LocalGet(2), Op::Call(WOUT), Op::Plain(0x1a)]);
    b.extend([Op::LocalGet(2), c32(len), Op::Plain(0x6a), Op::LocalSet(2)]);
}

fn build_contract(steps: &[Step]) -> Module {
    let mut m = Module::default();
    for (name, ps, r) in IMPORTS.iter() {
        m.types.push(Sig { params: ps.to_vec(), result: *r });
        m.imports.push(("concordium".into(), name.to_string(), (m.types.len() - 1) as u32));
    }
    m.types.push(Sig { params: vec![VT::I64], result: Some(VT::I32) }); // 8: entrypoints
    m.types.push(Sig { params: vec![VT::I32, VT::I32], result: Some(VT::I64) }); // 9: at_depth
    m.types.push(Sig { params: vec![VT::I32], result: Some(VT::I32) }); // 10: rec
    m.mem = Some((1, Some(4)));
    m.data.push((0, b"k".to_vec()));
    m.data.push((16, b"ABCD".to_vec()));
    // transfer payload at 32..72: account address 32 bytes, amount 8 bytes
    m.data.push((32, (0u8..40).collect()));
    // at_depth(d, n) (function 0): descend d - 1 more frames, then invoke; right after the resume make n nested
    // calls (rec(n - 1), result stored at 240); return the response word
    m.funcs.push(Func {
        ty: 9,
        locals: vec![VT::I64],
        body: vec![
            Op::LocalGet(0), c32(1), Op::Plain(0x4a), Op::If(Some(VT::I64)),
            Op::LocalGet(0), c32(1), Op::Plain(0x6b), Op::LocalGet(1), Op::Call(F_AT_DEPTH),
            Op::Else,
            c32(0), c32(32), c32(40), Op::Call(INVOKE), Op::LocalSet(2),
            Op::LocalGet(1), Op::If(None),
            c32(240), Op::LocalGet(1), c32(1), Op::Plain(0x6b), Op::Call(F_REC), Op::Mem(0x36, 0, 2),
            Op::End,
            Op::LocalGet(2),
            Op::End,
            Op::End,
        ],
    });
    // recv (function 1)
    let mut b: Vec<Op> = vec![];
    b.extend([c32(0), c32(1), Op::Call(CREATE), Op::LocalSet(1)]);
    b.extend([Op::LocalGet(1), c32(16), c32(4), c32(0), Op::Call(EWRITE), Op::Plain(0x1a)]);
    // grow the memory before the first interrupt and leave a mark in the new page
    b.extend([c32(1), Op::Plain(0x40), Op::Plain(0x1a), c32(65536 + 8), c32(0x5a5a_5a5a), Op::Mem(0x36, 0, 2)]);
    for (i, s) in steps.iter().enumerate() {
        // log the step number, reset the recursion result
        b.extend([c32(250), c32(i as u32), Op::Mem(0x3a, 0, 0), c32(250), c32(1), Op::Call(LOG), Op::Plain(0x1a)]);
        b.extend([c32(240), c32(u32::MAX), Op::Mem(0x36, 0, 2)]);
        if s.depth > 0 {
            b.extend([c32(s.depth), c32(s.recurse), Op::Call(F_AT_DEPTH), Op::LocalSet(3)]);
        } else {
            b.extend([c32(0), c32(32), c32(40), Op::Call(INVOKE), Op::LocalSet(3)]);
            if s.recurse > 0 {
                b.extend([c32(240), c32(s.recurse - 1), Op::Call(F_REC), Op::Mem(0x36, 0, 2)]);
            }
        }
        b.extend([c32(200), Op::LocalGet(3), Op::Mem(0x37, 0, 3)]);
        out_word(&mut b, 200, 8);
        b.extend([c32(224), Op::Call(BALANCE), Op::Mem(0x37, 0, 3)]);
        out_word(&mut b, 224, 8);
        out_word(&mut b, 240, 4);
        // read through the handle obtained before the interrupt
        b.extend([c32(300), c32(0), Op::Mem(0x36, 0, 2)]);
        b.extend([Op::LocalGet(1), c32(300), c32(4), c32(0), Op::Call(EREAD), Op::LocalSet(4)]);
        b.extend([c32(208), Op::LocalGet(4), Op::Mem(0x36, 0, 2)]);
        out_word(&mut b, 208, 4);
        out_word(&mut b, 300, 4);
        // fresh lookup
        b.extend([c32(0), c32(1), Op::Call(LOOKUP), Op::LocalSet(5)]);
        b.extend([c32(216), Op::LocalGet(5), Op::Mem(0x37, 0, 3)]);
        out_word(&mut b, 216, 8);
        b.extend([c32(300), c32(0), Op::Mem(0x36, 0, 2)]);
        b.extend([Op::LocalGet(5), c32(300), c32(4), c32(0), Op::Call(EREAD), Op::LocalSet(4)]);
        b.extend([c32(208), Op::LocalGet(4), Op::Mem(0x36, 0, 2)]);
        out_word(&mut b, 208, 4);
        out_word(&mut b, 300, 4);
        if s.refresh {
            b.extend([Op::LocalGet(5), Op::LocalSet(1)]);
        }
        if let Some(w) = s.contract_write {
            b.extend([c32(400), c32(w), Op::Mem(0x36, 0, 2)]);
            b.extend([Op::LocalGet(5), c32(400), c32(4), c32(0), Op::Call(EWRITE), Op::Plain(0x1a)]);
        }
    }
    b.extend([c32(250), c32(255), Op::Mem(0x3a, 0, 0), c32(250), c32(1), Op::Call(LOG), Op::Plain(0x1a)]);
    out_word(&mut b, 65536 + 8, 4);
    b.extend([c32(0), Op::End]);
    m.funcs.push(Func { ty: 8, locals: vec![VT::I64, VT::I32, VT::I64, VT::I32, VT::I64], body: b });
    // set (function 2): the re-entrant call: k := low 4 bytes of the amount
    let s: Vec<Op> = vec![
        c32(0), c32(1), Op::Call(LOOKUP), Op::LocalSet(1),
        c32(400), Op::LocalGet(0), Op::Mem(0x37, 0, 3),
        Op::LocalGet(1), c32(400), c32(4), c32(0), Op::Call(EWRITE), Op::Plain(0x1a),
        c32(0), Op::End,
    ];
    m.funcs.push(Func { ty: 8, locals: vec![VT::I64], body: s });
    // rec(n) (function 3): n more nested calls; returns n
    m.funcs.push(Func {
        ty: 10,
        locals: vec![],
        body: vec![Op::LocalGet(0), Op::Plain(0x45), Op::If(Some(VT::I32)), c32(0), Op::Else,
                   Op::LocalGet(0), c32(1), Op::Plain(0x6b), Op::Call(F_REC), c32(1), Op::Plain(0x6a), Op::End, Op::End],
    });
    m.exports = vec![("c.recv".into(), 1), ("c.set".into(), 2)];
    m
}

fn addr(base: u8) -> AccountAddress {
    let mut a = [0u8; 32];
    for (i, x) in a.iter_mut().enumerate() { *x = base + i as u8; }
    AccountAddress(a)
}
fn ctx(entry: &str) -> Ctx1 {
    v1::ReceiveContext {
        common: v0::ReceiveContext {
            metadata: ChainMetadata { slot_time: Timestamp::from_timestamp_millis(0x0102030405060708) },
            invoker: addr(0x30),
            self_address: ContractAddress { index: 7, subindex: 0 },
            self_balance: Amount::from_micro_ccd(INITIAL_BALANCE),
            sender: Address::Account(addr(0x70)),
            owner: addr(0x50),
            sender_policies: vec![],
        },
        entrypoint: OwnedEntrypointName::new_unchecked(entry.into()),
    }
}
fn new_loader() -> trie::Loader<Vec<u8>> { trie::Loader { inner: Vec::<u8>::new() } }

fn start(art: &Art1, ms: &mut trie::MutableState, name: &str, entry: &str, amount: u64, energy: u64) -> Result<RR1, String> {
    let mut loader = new_loader();
    let inner = ms.get_inner(&mut loader);
    let st = v1::InstanceState::new(loader, inner);
    v1::invoke_receive::<_, CompiledFunction, CompiledFunction, Art1, Ctx1, Ctx1, ()>(
        art.clone(),
        ctx(entry),
        v1::ReceiveInvocation { amount: Amount::from_micro_ccd(amount), receive_name: ReceiveName::new_unchecked(name), parameter: &[], energy: InterpreterEnergy::new(energy) },
        st,
        v1::ReceiveParams::new_p7(),
    )
    .map_err(|e| e.to_string())
}

#[derive(Debug, PartialEq, Clone)]
struct Obs {
    out: String,
    rv: Vec<u8>,
    rem: u64,
    state: Vec<(Vec<u8>, Vec<u8>)>,
    interrupts: usize,
    changed: Vec<bool>,
    /// logs handed out per section (one per interrupt, then the final one)
    logs: Vec<String>,
}

fn run_scenario(art: &Art1, steps: &[Step]) -> Obs {
    let mut o = Obs { out: "PANIC".into(), rv: vec![], rem: 0, state: vec![], interrupts: 0, changed: vec![], logs: vec![] };
    let mut logs_acc: Vec<String> = vec![];
    let section = |l: &v0::Logs| l.iterate().map(|x| hex(x)).collect::<Vec<_>>().join(",");
    let r = guarded(|| {
        let mut ms = trie::PersistentState::from_iterator(std::iter::empty::<(&[u8], Vec<u8>)>()).thaw();
        let mut step: Result<RR1, String> = start(art, &mut ms, "c.recv", "recv", 0, 2_000_000);
        let mut i = 0usize;
        loop {
            match step {
                Err(m) => return ("invalid ".to_string() + &m, vec![], 0, vec![], i, vec![]),
                Ok(rr) => match rr {
                    v1::ReceiveResult::OutOfEnergy { .. } => return ("ooe".into(), vec![], 0, vec![], i, vec![]),
                    v1::ReceiveResult::Trap { error, remaining_energy, .. } => return (format!("trap {:#}", error), vec![], remaining_energy.energy, vec![], i, vec![]),
                    v1::ReceiveResult::Reject { reason, return_value, remaining_energy, .. } => return (format!("reject {}", reason), return_value, remaining_energy.energy, vec![], i, vec![]),
                    v1::ReceiveResult::Success { return_value, remaining_energy, state_changed, logs, .. } => {
                        logs_acc.push(section(&logs));
                        let mut loader = new_loader();
                        let ps = ms.freeze(&mut loader, &mut trie::EmptyCollector);
                        let mut kv: Vec<(Vec<u8>, Vec<u8>)> = ps.into_iterator(&mut loader).collect();
                        kv.sort();
                        return ("success".into(), return_value, remaining_energy.energy, kv, i, vec![state_changed]);
                    }
                    v1::ReceiveResult::Interrupt { remaining_energy, config, logs, .. } => {
                        logs_acc.push(section(&logs));
                        if i >= steps.len() { return ("unexpected-interrupt".into(), vec![], 0, vec![], i, vec![]); }
                        let s = &steps[i];
                        i += 1;
                        if let (true, Some(w)) = (s.upd, s.reentrant_write) {
                            // re-entrancy: the same instance is invoked again on the same mutable state
                            match start(art, &mut ms, "c.set", "set", w as u64, 500_000) {
                                Ok(v1::ReceiveResult::Success { .. }) => {}
                                other => return (format!("reentrant call failed: {:?}", other.map(|_| "non-success")), vec![], 0, vec![], i, vec![]),
                            }
                        }
                        use v1::InvokeFailure::*;
                        let resp = match s.resp {
                            0 => v1::InvokeResponse::Success { new_balance: Amount::from_micro_ccd(s.balance), data: None },
                            1 => v1::InvokeResponse::Success { new_balance: Amount::from_micro_ccd(s.balance), data: Some(s.data.clone()) },
                            13 => v1::InvokeResponse::Failure { kind: ContractReject { code: s.code, data: s.data.clone() } },
                            k => v1::InvokeResponse::Failure { kind: match k - 1 {
                                1 => InsufficientAmount, 2 => NonExistentAccount, 3 => NonExistentContract, 4 => NonExistentEntrypoint,
                                5 => SendingV0Failed, 6 => RuntimeError, 7 => UpgradeInvalidModuleRef, 8 => UpgradeInvalidContractName,
                                9 => UpgradeInvalidVersion, 10 => SignatureDataMalformed, _ => SignatureCheckFailed } },
                        };
                        step = v1::resume_receive::<_, ()>(config, resp, remaining_energy, &mut ms, s.upd, new_loader()).map_err(|e| e.to_string());
                    }
                },
            }
        }
    });
    match r {
        Err(p) => { o.out = format!("PANIC {}", p); o }
        Ok((out, rv, rem, state, interrupts, changed)) => Obs { out, rv, rem, state, interrupts, changed, logs: logs_acc },
    }
}

/// the scenario in the token format of ocaml/driver_c13.ml (command ENG)
fn tokens(steps: &[Step]) -> String {
    let h4 = |w: &Option<u32>| w.map(|x| hex(&x.to_le_bytes())).unwrap_or_else(|| "-".into());
    let mut t = vec![format!("ENG {} {}", INITIAL_BALANCE, steps.len())];
    for s in steps {
        t.push(match s.resp { 0 => format!("s:{}", s.balance), 1 => format!("d:{}:{}", s.balance, hex(&s.data)), 13 => format!("r:{}:{}", s.code, hex(&s.data)), k => format!("f:{}", k - 1) });
        t.push((s.upd as u8).to_string());
        t.push(h4(&s.reentrant_write));
        t.push((s.refresh as u8).to_string());
        t.push(h4(&s.contract_write));
        t.push(s.depth.to_string());
        t.push(s.recurse.to_string());
    }
    t.join(" ")
}

pub fn run(seed: u64, n: u64) {
    let mut runs = 0u64;
    let mut interrupts = 0u64;
    let mut kinds = [0u64; 6];
    for ci in 0..n {
        let mut r = Rng::new(seed.wrapping_mul(9_000_011).wrapping_add(ci));
        let k = r.range(1, 4) as usize;
        // a third of the scenarios probe the call-depth budget (MAX_ACTIVATION_FRAMES = 1024) right after a resume
        let boundary: Option<usize> = if ci % 3 == 0 { Some(if r.chance(2, 3) { 0 } else { r.below(k as u64) as usize }) } else { None };
        let steps: Vec<Step> = (0..k)
            .map(|si| {
                let resp = match r.below(10) { 0..=2 => 0u8, 3..=5 => 1, 6 | 7 => 13, _ => r.range(2, 12) as u8 };
                let upd = resp < 2 && r.chance(1, 2);
                Step {
                    depth: if boundary == Some(si) { *r.pick(&[1u32, 2, 5]) } else { *r.pick(&[0u32, 0, 1, 1, 2, 5]) },
                    recurse: 0,
                    balance: r.below(1 << 40),
                    resp,
                    data: { let n = r.range(0, 4) as usize; r.bytes(n) },
                    code: -(r.range(1, 1 << 20) as i32) - if r.chance(1, 4) { i32::MAX - (1 << 21) } else { 0 },
                    upd,
                    reentrant_write: if upd && r.chance(3, 4) { Some(r.next() as u32) } else { None },
                    refresh: r.chance(1, 3),
                    contract_write: if r.chance(1, 3) { Some(r.next() as u32) } else { None },
                }
            })
            .collect();
        let mut steps = steps;
        for (si, s) in steps.iter_mut().enumerate() {
            s.recurse = if boundary == Some(si) {
                let d = s.depth;
                *r.pick(&[1022u32, 1023, 1024, 1025, 1024 - d - 1, 1024 - d, 1024 - d + 1])
            } else { *r.pick(&[0u32, 0, 1, 3]) };
        }
        for s in &steps {
            kinds[if s.upd { 0 } else { 1 }] += 1;
            if s.depth > 0 { kinds[2] += 1 }
            if s.reentrant_write.is_some() { kinds[3] += 1 }
            if s.refresh { kinds[4] += 1 }
            if s.resp >= 2 { kinds[5] += 1 }
        }
        let case = json!({"index": ci, "steps": steps.iter().map(|s| format!("{:?}", s)).collect::<Vec<_>>()});
        let mut viol: Vec<J> = vec![];
        let bytes = build_contract(&steps).encode();
        let imp = v1::ConcordiumAllowedImports { support_upgrade: true, enable_debug: false };
        let fresh = match guarded(|| instantiate::<v1::ProcessedImports, _>(ValidationConfig::V1, &imp, &bytes)) {
            Ok(Ok(m)) => m.artifact,
            Ok(Err(e)) => { println!("{}", json!({"case": case, "viol": [{"kind": "engine-contract-rejected", "msg": format!("{:#}", e)}]})); continue; }
            Err(p) => { println!("{}", json!({"case": case, "viol": [{"kind": "instantiate-panic", "msg": p}]})); continue; }
        };
        let mut abytes = vec![];
        if fresh.output(&mut abytes).is_err() { viol.push(json!({"kind": "output-failed"})); }
        let reloaded: Option<Art1> = match guarded(|| parse_artifact::<v1::ProcessedImports>(&abytes).map(|b| Arc::new(OwnedArtifact::from(b)))) {
            Ok(Ok(a)) => Some(a),
            Ok(Err(e)) => { viol.push(json!({"kind": "parse-rejects-own-output", "msg": e.to_string()})); None }
            Err(p) => { viol.push(json!({"kind": "parse-panic", "msg": p})); None }
        };
        if let Some(a) = &reloaded {
            let mut again = vec![];
            let _ = a.output(&mut again);
            if again != abytes { viol.push(json!({"kind": "reserialise-owned-differs(engine imports)"})); }
        }
        let fresh: Art1 = Arc::new(fresh);
        let a = run_scenario(&fresh, &steps);
        runs += 1;
        interrupts += a.interrupts as u64;
        let k_final = a.state.iter().find(|(k, _)| k == b"k").map(|(_, v)| hex(v));
        let b = run_scenario(&fresh, &steps);
        runs += 1;
        if a != b { viol.push(json!({"kind": "engine-nondeterministic", "first": format!("{:?}", a).chars().take(300).collect::<String>(), "second": format!("{:?}", b).chars().take(300).collect::<String>()})); }
        if let Some(ra) = &reloaded {
            let c = run_scenario(ra, &steps);
            runs += 1;
            if a != c { viol.push(json!({"kind": "engine-reloaded-differs", "fresh": format!("{:?}", a).chars().take(300).collect::<String>(), "reloaded": format!("{:?}", c).chars().take(300).collect::<String>()})); }
        }
        println!("{}", json!({"case": case, "eng": tokens(&steps), "out": a.out, "rv": hex(&a.rv), "final": k_final, "logs": a.logs.join("/"),
                              "interrupts": a.interrupts, "boundary": boundary.is_some(), "viol": viol}));
    }
    println!("{}", json!({"engine_stats": {"scenarios": n, "runs": runs, "interrupts": interrupts, "steps_state_updated": kinds[0], "steps_state_unchanged": kinds[1],
             "nested_invokes": kinds[2], "reentrant_writes": kinds[3], "handle_refreshes": kinds[4], "failure_responses": kinds[5]}}));
}
