//! (c) end to end through the v1 engine (filled in below).
use serde_json::json;
pub fn run(_seed: u64, _n: u64) {
    println!("{}", json!({"engine": "todo"}));
}
