//! C01 harness: generates Wasm programs, runs them through the real engine
//! (`utils::instantiate` / `instantiate_with_metering` + `Artifact::run`) under every
//! configuration and prints program + outcomes, one JSON object per line.
//!
//! usage:  c01 gen <seed> <n> [start]     generated programs seed/index
//!         c01 run                        programs (line format, see ast.rs) from stdin
//!         c01 wasm <file>...             real .wasm modules: dump compiler input (types, imports, functions) and output
//!         c01 compile                    same, but only instantiate and dump the compiled code (no execution)
//! Configurations: v0, v1 (ValidationConfig), each plain / m0 / m1 (metering cost V0 / V1).
mod ast;
mod gen;
use ast::*;
use concordium_wasm::{
    artifact::{Artifact, ArtifactNamedImport, CompiledFunction, RunnableCode},
    machine::{ExecutionOutcome, Host, NoInterrupt, RunResult, RuntimeStack, Value},
    types::{FunctionType, Name, OpCode, BlockType, ValueType},
    utils,
    validate::{ValidateImportExport, ValidationConfig},
    CostConfigurationV0, CostConfigurationV1,
};
use hlib::{guarded, hex, quiet_panics, Rng};
use serde_json::{json, Value as J};
use std::sync::atomic::{AtomicU64, Ordering};

struct AllowAll;
impl ValidateImportExport for AllowAll {
    fn validate_import_function(&self, _d: bool, _m: &Name, _i: &Name, _t: &FunctionType) -> bool { true }
    fn validate_export_function(&self, _i: &Name, _t: &FunctionType) -> bool { true }
}

/// Host: energy never runs out, `account_memory` is the identity, nothing else exists.
struct H { ticks: u64, energy: u64 }
impl Host<ArtifactNamedImport> for H {
    type Interrupt = NoInterrupt;
    fn tick_initial_memory(&mut self, _n: u32) -> RunResult<()> { Ok(()) }
    fn call(&mut self, f: &ArtifactNamedImport, _memory: &mut [u8], stack: &mut RuntimeStack) -> RunResult<Option<NoInterrupt>> {
        if f.matches("concordium_metering", "account_memory") {
            let v = stack.pop();
            stack.push(v);
            Ok(None)
        } else {
            anyhow::bail!("unknown host function")
        }
    }
    fn tick_energy(&mut self, e: u64) -> RunResult<()> { self.ticks += 1; self.energy = self.energy.wrapping_add(e); Ok(()) }
    fn track_call(&mut self) -> RunResult<()> { Ok(()) }
    fn track_return(&mut self) {}
}

static PROGRESS: AtomicU64 = AtomicU64::new(0);
static T_INST: AtomicU64 = AtomicU64::new(0);
static T_RUN: AtomicU64 = AtomicU64::new(0);
static T_SCAN: AtomicU64 = AtomicU64::new(0);

type Art = Artifact<ArtifactNamedImport, CompiledFunction>;

fn instantiate(cfg: &str, bytes: &[u8]) -> Result<Art, String> {
    let vc = if cfg.starts_with("v0") { ValidationConfig::V0 } else { ValidationConfig::V1 };
    let r = match &cfg[2..] {
        "" => utils::instantiate::<ArtifactNamedImport, _>(vc, &AllowAll, bytes),
        "m0" => utils::instantiate_with_metering::<ArtifactNamedImport>(vc, CostConfigurationV0, &AllowAll, bytes),
        _ => utils::instantiate_with_metering::<ArtifactNamedImport>(vc, CostConfigurationV1, &AllowAll, bytes),
    };
    r.map(|m| m.artifact).map_err(|e| format!("{}", e))
}

fn run_entry(art: &Art, entry: u32, args: &[(VT, i64)]) -> J {
    let vals: Vec<Value> = args.iter().map(|(t, v)| match t { VT::I32 => Value::I32(*v as i32), VT::I64 => Value::I64(*v) }).collect();
    let name = format!("f{}", entry);
    let mut host = H { ticks: 0, energy: 0 };
    let t0 = std::time::Instant::now();
    let r = guarded(|| art.run(&mut host, name.as_str(), &vals));
    T_RUN.fetch_add(t0.elapsed().as_micros() as u64, Ordering::Relaxed);
    let t1 = std::time::Instant::now();
    let out = 
    match r {
        Err(p) => json!({"k": "PANIC", "msg": p}),
        Ok(Err(e)) => json!({"k": "trap", "msg": format!("{}", e)}),
        Ok(Ok(ExecutionOutcome::Interrupted { .. })) => json!({"k": "interrupt"}),
        Ok(Ok(ExecutionOutcome::Success { result, memory })) => {
            let res = match result { None => "-".to_string(), Some(Value::I32(x)) => format!("7f:{}", x), Some(Value::I64(x)) => format!("7e:{}", x) };
            let mut nz: Vec<String> = vec![];
            let mut count = 0u64;
            for (ci, ch) in memory.chunks(4096).enumerate() {
                if ch.iter().all(|b| *b == 0) { continue; }
                for (j, b) in ch.iter().enumerate() {
                    if *b != 0 {
                        count += 1;
                        if nz.len() < 4000 { nz.push(format!("{}:{}", ci * 4096 + j, b)); }
                    }
                }
            }
            json!({"k": "ok", "r": res, "pages": memory.len() / 65536, "memrem": memory.len() % 65536, "nz": nz.join(" "), "nzcount": count, "energy": host.energy.to_string()})
        }
    };
    T_SCAN.fetch_add(t1.elapsed().as_micros() as u64, Ordering::Relaxed);
    out
}

fn opcode_tok(o: &OpCode) -> String {
    // render a (possibly metered) implementation opcode in the line format of ast.rs
    let bt = |b: &BlockType| match b { BlockType::EmptyType => "40", BlockType::ValueType(ValueType::I32) => "7f", BlockType::ValueType(ValueType::I64) => "7e" };
    use OpCode::*;
    let mem = |b: u8, m: &concordium_wasm::types::MemArg| format!("{:02x}:{}:{}", b, m.offset, m.align);
    match o {
        End => "0b".into(), Nop => "01".into(), Unreachable => "00".into(),
        Block(b) => format!("02:{}", bt(b)), Loop(b) => format!("03:{}", bt(b)), If { ty } => format!("04:{}", bt(ty)), Else => "05".into(),
        Br(l) => format!("0c:{}", l), BrIf(l) => format!("0d:{}", l),
        BrTable { labels, default } => { let mut s = format!("0e:{}", labels.len()); for l in labels { s += &format!(":{}", l); } s + &format!(":{}", default) }
        Return => "0f".into(), Call(f) => format!("10:{}", f), CallIndirect(t) => format!("11:{}", t),
        Drop => "1a".into(), Select => "1b".into(),
        LocalGet(i) => format!("20:{}", i), LocalSet(i) => format!("21:{}", i), LocalTee(i) => format!("22:{}", i),
        GlobalGet(i) => format!("23:{}", i), GlobalSet(i) => format!("24:{}", i),
        I32Load(m) => mem(0x28, m), I64Load(m) => mem(0x29, m), I32Load8S(m) => mem(0x2c, m), I32Load8U(m) => mem(0x2d, m),
        I32Load16S(m) => mem(0x2e, m), I32Load16U(m) => mem(0x2f, m), I64Load8S(m) => mem(0x30, m), I64Load8U(m) => mem(0x31, m),
        I64Load16S(m) => mem(0x32, m), I64Load16U(m) => mem(0x33, m), I64Load32S(m) => mem(0x34, m), I64Load32U(m) => mem(0x35, m),
        I32Store(m) => mem(0x36, m), I64Store(m) => mem(0x37, m), I32Store8(m) => mem(0x3a, m), I32Store16(m) => mem(0x3b, m),
        I64Store8(m) => mem(0x3c, m), I64Store16(m) => mem(0x3d, m), I64Store32(m) => mem(0x3e, m),
        MemorySize => "3f".into(), MemoryGrow => "40".into(),
        I32Const(c) => format!("41:{}", c), I64Const(c) => format!("42:{}", c),
        I32Eqz => "45".into(), I32Eq => "46".into(), I32Ne => "47".into(), I32LtS => "48".into(), I32LtU => "49".into(), I32GtS => "4a".into(),
        I32GtU => "4b".into(), I32LeS => "4c".into(), I32LeU => "4d".into(), I32GeS => "4e".into(), I32GeU => "4f".into(),
        I64Eqz => "50".into(), I64Eq => "51".into(), I64Ne => "52".into(), I64LtS => "53".into(), I64LtU => "54".into(), I64GtS => "55".into(),
        I64GtU => "56".into(), I64LeS => "57".into(), I64LeU => "58".into(), I64GeS => "59".into(), I64GeU => "5a".into(),
        I32Clz => "67".into(), I32Ctz => "68".into(), I32Popcnt => "69".into(), I32Add => "6a".into(), I32Sub => "6b".into(), I32Mul => "6c".into(),
        I32DivS => "6d".into(), I32DivU => "6e".into(), I32RemS => "6f".into(), I32RemU => "70".into(), I32And => "71".into(), I32Or => "72".into(),
        I32Xor => "73".into(), I32Shl => "74".into(), I32ShrS => "75".into(), I32ShrU => "76".into(), I32Rotl => "77".into(), I32Rotr => "78".into(),
        I64Clz => "79".into(), I64Ctz => "7a".into(), I64Popcnt => "7b".into(), I64Add => "7c".into(), I64Sub => "7d".into(), I64Mul => "7e".into(),
        I64DivS => "7f".into(), I64DivU => "80".into(), I64RemS => "81".into(), I64RemU => "82".into(), I64And => "83".into(), I64Or => "84".into(),
        I64Xor => "85".into(), I64Shl => "86".into(), I64ShrS => "87".into(), I64ShrU => "88".into(), I64Rotl => "89".into(), I64Rotr => "8a".into(),
        I32WrapI64 => "a7".into(), I64ExtendI32S => "ac".into(), I64ExtendI32U => "ad".into(),
        I32Extend8S => "c0".into(), I32Extend16S => "c1".into(), I64Extend8S => "c2".into(), I64Extend16S => "c3".into(), I64Extend32S => "c4".into(),
        TickEnergy(n) => format!("fe:{}", n),
    }
}

/// The opcode sequences the compiler receives: validate (+ inject metering) exactly as
/// `utils::instantiate[_with_metering]` does, and read `Module.code`.
fn compiler_input(cfg: &str, bytes: &[u8]) -> Result<J, String> {
    use concordium_wasm::{parse::parse_skeleton, validate::validate_module};
    let vc = if cfg.starts_with("v0") { ValidationConfig::V0 } else { ValidationConfig::V1 };
    let sk = parse_skeleton(bytes).map_err(|e| e.to_string())?;
    let mut module = validate_module(vc, &AllowAll, &sk).map_err(|e| e.to_string())?;
    match &cfg[2..] {
        "" => {}
        "m0" => module.inject_metering(CostConfigurationV0).map_err(|e| e.to_string())?,
        _ => module.inject_metering(CostConfigurationV1).map_err(|e| e.to_string())?,
    }
    let fs: Vec<String> = module.code.impls.iter().map(|c| c.expr.instrs.iter().map(opcode_tok).collect::<Vec<_>>().join(" ")).collect();
    Ok(json!(fs))
}

fn vt_tok(t: &ValueType) -> &'static str { match t { ValueType::I32 => "7f", ValueType::I64 => "7e" } }

/// Everything the compiler model needs about a real module: types, imports, function
/// declarations with the (possibly metered) opcode stream, and the real compiler's output.
fn wasm_dump(cfg: &str, bytes: &[u8]) -> Result<J, String> {
    use concordium_wasm::{parse::parse_skeleton, validate::validate_module, types::ImportDescription};
    let sk = parse_skeleton(bytes).map_err(|e| e.to_string())?;
    // protocol 6+ configuration first; modules that need globals in initialisers only validate under V0
    let mut module = match validate_module(ValidationConfig::V1, &AllowAll, &sk) {
        Ok(m) => m,
        Err(_) => validate_module(ValidationConfig::V0, &AllowAll, &sk).map_err(|e| e.to_string())?,
    };
    if cfg.len() > 2 { module.inject_metering(CostConfigurationV1).map_err(|e| e.to_string())?; }
    let types: Vec<J> = module.ty.types.iter().map(|t| json!({
        "p": t.parameters.iter().map(vt_tok).collect::<Vec<_>>(),
        "r": t.result.iter().map(vt_tok).collect::<Vec<_>>()})).collect();
    let imports: Vec<u32> = module.import.imports.iter().map(|i| match i.description { ImportDescription::Func { type_idx } => type_idx }).collect();
    let funcs: Vec<J> = module.code.impls.iter().map(|c| {
        let mut locals: Vec<&str> = vec![];
        for l in c.locals.iter() { for _ in 0..l.multiplicity { locals.push(vt_tok(&l.ty)); } }
        json!({"ty": c.ty_idx, "locals": locals, "ops": c.expr.instrs.iter().map(opcode_tok).collect::<Vec<_>>().join(" ")})
    }).collect();
    let nimports = imports.len();
    let art: Art = module.compile().map_err(|e| e.to_string())?;
    Ok(json!({"types": types, "imports": imports, "funcs": funcs, "nimports": nimports, "out": dump_code(&art)}))
}

fn dump_code(art: &Art) -> J {
    let fs: Vec<J> = art.code.iter().map(|f| json!({
        "code": hex(f.code()),
        "regs": f.num_registers(),
        "consts": f.constants().iter().map(|c| c.to_string()).collect::<Vec<_>>(),
    })).collect();
    json!(fs)
}

const CONFIGS: [&str; 6] = ["v0", "v1", "v0m0", "v0m1", "v1m0", "v1m1"];

static NORUN: std::sync::atomic::AtomicBool = std::sync::atomic::AtomicBool::new(false);

fn process(id: &str, case: &Case, extra: J, dump: bool) {
    let line = case.to_line();
    let bytes = case.module.encode();
    let mut res = serde_json::Map::new();
    let mut code = serde_json::Map::new();
    for cfg in CONFIGS.iter() {
        PROGRESS.fetch_add(1, Ordering::SeqCst);
        let t0 = std::time::Instant::now();
        let art = guarded(|| instantiate(cfg, &bytes));
        T_INST.fetch_add(t0.elapsed().as_micros() as u64, Ordering::Relaxed);
        let v = match art {
            Err(p) => json!({"inst": "PANIC", "msg": p}),
            Ok(Err(e)) => json!({"inst": "rejected", "msg": e}),
            Ok(Ok(art)) => {
                let runs: Vec<J> = if NORUN.load(Ordering::Relaxed) { vec![] } else {
                    case.entries.iter().map(|e| { PROGRESS.fetch_add(1, Ordering::SeqCst); run_entry(&art, *e, &case.args) }).collect() };
                if dump && (*cfg == "v1" || *cfg == "v1m0" || *cfg == "v1m1") {
                    let input = guarded(|| compiler_input(cfg, &bytes));
                    code.insert(cfg.to_string(), json!({"out": dump_code(&art), "in": match input { Ok(Ok(j)) => j, Ok(Err(e)) => json!(e), Err(p) => json!(p) }}));
                }
                json!({"inst": "ok", "runs": runs})
            }
        };
        res.insert(cfg.to_string(), v);
    }
    println!("{}", json!({"id": id, "prog": line, "res": res, "code": code, "x": extra}));
}

fn watchdog() {
    std::thread::spawn(|| {
        let mut last = u64::MAX;
        let mut stale = 0;
        loop {
            std::thread::sleep(std::time::Duration::from_millis(500));
            let p = PROGRESS.load(Ordering::SeqCst);
            if p == last { stale += 1 } else { stale = 0; last = p }
            if stale >= 60 {   // 30 s without finishing a single run
                println!("{}", json!({"HANG": 1}));
                std::process::exit(3);
            }
        }
    });
}

fn main() {
    quiet_panics();
    let a: Vec<String> = std::env::args().collect();
    let mode = a.get(1).map(|s| s.as_str()).unwrap_or("gen");
    watchdog();
    match mode {
        "gen" => {
            let seed: u64 = a[2].parse().unwrap();
            let n: u64 = a[3].parse().unwrap();
            let start: u64 = a.get(4).map(|s| s.parse().unwrap()).unwrap_or(0);
            let dump = a.get(5).map(|s| s != "nodump").unwrap_or(true);
            let mut st = gen::Stats::default();
            for i in start..n {
                let mut r = Rng::new(seed.wrapping_mul(1_000_003).wrapping_add(i));
                let (case, k) = gen::gen_case(&mut r, &mut st);
                println!("{}", json!({"START": i, "prog": case.to_line()}));
                process(&format!("g{}-{}", seed, i), &case, json!({"f1": k.allow_f1, "f2": k.allow_f2, "f3": k.allow_f3, "signext": k.signext}), dump);
            }
            println!("{}", json!({"stats": st.0, "t_inst_us": T_INST.load(Ordering::Relaxed), "t_run_us": T_RUN.load(Ordering::Relaxed), "t_scan_us": T_SCAN.load(Ordering::Relaxed)}));
        }
        "run" | "compile" => {
            if mode == "compile" { NORUN.store(true, Ordering::Relaxed); }
            use std::io::BufRead;
            let stdin = std::io::stdin();
            for (i, l) in stdin.lock().lines().enumerate() {
                let l = l.unwrap();
                let l = l.trim();
                if l.is_empty() || l.starts_with('#') { continue; }
                println!("{}", json!({"START": i}));
                match Case::from_line(l) {
                    Some(c) => process(&format!("in{}", i), &c, json!({}), true),
                    None => println!("{}", json!({"id": format!("in{}", i), "parse_error": 1})),
                }
            }
        }
        "wasm" => {
            // parse/validate/(meter)/compile real modules; dump the compiler's input and output
            for path in a.iter().skip(2) {
                let bytes = match std::fs::read(path) { Ok(b) => b, Err(e) => { println!("{}", json!({"file": path, "io_error": e.to_string()})); continue; } };
                for cfg in ["v1", "v1m1"].iter() {
                    PROGRESS.fetch_add(1, Ordering::SeqCst);
                    let r = guarded(|| wasm_dump(cfg, &bytes));
                    match r {
                        Ok(Ok(mut j)) => { j["file"] = json!(path); j["cfg"] = json!(cfg); println!("{}", j); }
                        Ok(Err(e)) => println!("{}", json!({"file": path, "cfg": cfg, "rejected": e})),
                        Err(p) => println!("{}", json!({"file": path, "cfg": cfg, "PANIC": p})),
                    }
                }
            }
        }
        _ => eprintln!("unknown mode"),
    }
}
