//! Type-directed random program generator (DESIGN.md 7.C01 "Tie").
//!
//! Grammar: expressions (net +1 value of a requested type) and statements (net 0), both may
//! nest block/loop/if with and without results; terminators (br/br_table/return/unreachable)
//! at tail positions or guarded by `if`, followed by stack-polymorphic dead code.
//! The generator tracks an image of the compiler's provider stack (`pend`: which operand
//! slots are un-materialised `local.get/tee i`) so that it can *avoid* (default) or *seek*
//! (class knobs) the known defect classes F1/F2/F3 of DESIGN.md section 8.
use crate::ast::*;
use hlib::Rng;
use std::collections::BTreeMap;

#[derive(Clone, Debug)]
pub struct Knobs {
    pub allow_f1: bool, // br_if to a label that carries a value
    pub allow_f2: bool, // local.set/tee while the local is pending outside the current frame
    pub allow_f3: bool, // unrestricted rem_s divisors (MIN rem -1 possible)
    pub signext: bool,
    pub depth: u32,
    pub size: i32,
}

#[derive(Default)]
pub struct Stats(pub BTreeMap<&'static str, u64>);
impl Stats {
    pub fn hit(&mut self, k: &'static str) {
        *self.0.entry(k).or_insert(0) += 1;
    }
}

pub struct Env {
    pub types: Vec<Sig>,
    pub func_ty: Vec<u32>,
    pub func_cost: Vec<u64>,
    pub globals: Vec<(bool, VT)>,
    pub mem: Option<(u32, Option<u32>)>,
    pub table: Vec<Option<u32>>,
    pub table_callers_from: u32,
}

const COST_LIMIT: u64 = 30_000;

#[derive(Clone, Copy, PartialEq)]
enum FK {
    Func,
    Block,
    Loop,
    If,
}
struct Frame {
    label: BT,
    base: usize,
    kind: FK,
    branchable: bool,
}

pub struct FG<'a> {
    r: &'a mut Rng,
    env: &'a Env,
    k: &'a Knobs,
    st: &'a mut Stats,
    self_idx: u32,
    result: Option<VT>,
    pub locals: Vec<VT>,
    pub nparams: usize,
    reserved: Vec<bool>,
    pub code: Vec<Op>,
    frames: Vec<Frame>,
    pend: Vec<Option<u32>>,
    size: i32,
    mult: u64,
    pub cost: u64,
}

pub fn edge32(r: &mut Rng) -> i32 {
    match r.below(10) {
        0 => *r.pick(&[0i32, 1, -1, 2, -2, i32::MIN, i32::MAX, i32::MIN + 1, 0x7fff, 0x8000, 0xffff, 0x10000, 255, 256, 127, 128, -128, -129]),
        1 => *r.pick(&[31i32, 32, 33, 63, 64, 65, 7, 8, 15, 16, 24]),
        2 => 1i32.wrapping_shl(r.below(32) as u32),
        3 => 1i32.wrapping_shl(r.below(32) as u32).wrapping_sub(1),
        4 => (1i32.wrapping_shl(r.below(32) as u32)).wrapping_neg(),
        5 | 6 => r.below(16) as i32,
        _ => r.next() as i32,
    }
}
pub fn edge64(r: &mut Rng) -> i64 {
    match r.below(10) {
        0 => *r.pick(&[0i64, 1, -1, 2, i64::MIN, i64::MAX, i64::MIN + 1, 0xffff_ffff, 0x1_0000_0000, 0x7fff_ffff, 0x8000_0000, -0x8000_0000, 255, 256, 127, 128, -128, 0x7fff, 0x8000, 0xffff]),
        1 => *r.pick(&[31i64, 32, 33, 63, 64, 65, 127, 128]),
        2 => 1i64.wrapping_shl(r.below(64) as u32),
        3 => 1i64.wrapping_shl(r.below(64) as u32).wrapping_sub(1),
        4 => (1i64.wrapping_shl(r.below(64) as u32)).wrapping_neg(),
        5 | 6 => r.below(16) as i64,
        _ => r.next() as i64,
    }
}

impl<'a> FG<'a> {
    pub fn new(r: &'a mut Rng, env: &'a Env, k: &'a Knobs, st: &'a mut Stats, self_idx: u32, sig: &Sig, extra_locals: Vec<VT>) -> Self {
        let mut locals = sig.params.clone();
        locals.extend(extra_locals);
        let n = locals.len();
        FG {
            r, env, k, st, self_idx,
            result: sig.result,
            locals,
            nparams: sig.params.len(),
            reserved: vec![false; n],
            code: vec![],
            frames: vec![Frame { label: sig.result, base: 0, kind: FK::Func, branchable: true }],
            pend: vec![],
            size: k.size,
            mult: 1,
            cost: 0,
        }
    }
    fn emit(&mut self, op: Op) {
        self.code.push(op);
        self.size -= 1;
        self.cost += self.mult;
    }
    fn plain(&mut self, b: u8) {
        self.emit(Op::Plain(b));
    }
    fn cur_base(&self) -> usize {
        self.frames.last().unwrap().base
    }
    fn pinned_outer(&self, i: u32) -> bool {
        let b = self.cur_base();
        self.pend[..b].iter().any(|p| *p == Some(i))
    }
    fn can_set(&self, i: usize) -> bool {
        !self.reserved[i] && (self.k.allow_f2 || !self.pinned_outer(i as u32))
    }
    fn pick_local(&mut self, t: VT, for_set: bool) -> Option<u32> {
        let c: Vec<usize> = (0..self.locals.len())
            .filter(|&i| self.locals[i] == t && (!for_set || self.can_set(i)))
            .collect();
        if c.is_empty() { None } else { Some(*self.r.pick(&c) as u32) }
    }
    fn fresh_counter(&mut self) -> u32 {
        self.locals.push(VT::I32);
        self.reserved.push(true);
        (self.locals.len() - 1) as u32
    }
    fn budget_ok(&self) -> bool {
        self.size > 0 && self.cost < COST_LIMIT
    }

    fn konst(&mut self, t: VT) {
        match t {
            VT::I32 => { let c = edge32(self.r); self.emit(Op::I32Const(c)) }
            VT::I64 => { let c = edge64(self.r); self.emit(Op::I64Const(c)) }
        }
        self.pend.push(None);
    }

    fn leaf(&mut self, t: VT) {
        match self.r.below(20) {
            0..=8 => self.konst(t),
            9..=15 => match self.pick_local(t, false) {
                Some(i) => { self.emit(Op::LocalGet(i)); self.pend.push(Some(i)); self.st.hit("local.get") }
                None => self.konst(t),
            },
            16..=18 => {
                let c: Vec<usize> = (0..self.env.globals.len()).filter(|&i| self.env.globals[i].1 == t).collect();
                if c.is_empty() { self.konst(t) } else {
                    let g = *self.r.pick(&c) as u32;
                    self.emit(Op::GlobalGet(g)); self.pend.push(None); self.st.hit("global.get")
                }
            }
            _ => if t == VT::I32 && self.env.mem.is_some() { self.plain(0x3f); self.pend.push(None); self.st.hit("memory.size") } else { self.konst(t) },
        }
    }

    fn mem_len(&self) -> u64 {
        self.env.mem.map(|(min, _)| min as u64 * 65536).unwrap_or(0)
    }

    /// address operand + offset immediate for an access of `w` bytes.
    /// ~72% surely in bounds, ~14% straddling the end of memory (+-2 bytes), ~14% computed.
    fn addr(&mut self, w: u64, d: u32) -> u32 {
        let len = self.mem_len();
        let sel = self.r.below(100);
        if sel < 72 && len >= 65536 {
            let off: u32 = match self.r.below(6) { 0..=2 => 0, 3 => self.r.below(16) as u32, 4 => 65536 - 64, _ => (len - 32) as u32 };
            let room = len - off as u64 - w;
            let a = match self.r.below(4) { 0 => 0, 1 => self.r.below(room.min(64) + 1), 2 => room, _ => room - self.r.below(room.min(16) + 1) };
            self.emit(Op::I32Const(a as u32 as i32)); self.pend.push(None);
            return off;
        }
        let off: u32 = match self.r.below(10) {
            0..=4 => 0,
            5 | 6 => self.r.below(16) as u32,
            7 => *self.r.pick(&[65535u32, 65536, 65532, 65528, (1 << 17) - 4]),
            8 => (len as u32).wrapping_sub(self.r.below(12) as u32),
            _ => *self.r.pick(&[u32::MAX, u32::MAX - 7, 0x8000_0000, 0x7fff_ffff]),
        };
        if sel < 86 {
            // straddle the end of memory (first page boundary or current length)
            let edge = if self.r.chance(1, 3) { 65536 } else { len } as i64;
            let a = edge - off as i64 - w as i64 + self.r.range(0, 4) as i64 - 2;
            self.emit(Op::I32Const(a as i32)); self.pend.push(None)
        } else if sel < 90 {
            let a = -(self.r.below(9) as i32); self.emit(Op::I32Const(a)); self.pend.push(None)
        } else {
            self.expr(VT::I32, d.saturating_sub(1));
            if self.r.chance(2, 3) {
                let mk = *self.r.pick(&[0xff, 0xffff, 0x1ffff, 0xfff8]); self.emit(Op::I32Const(mk));
                self.plain(0x71);
                self.pend.pop(); self.pend.push(None);
            }
        }
        off
    }

    pub fn expr(&mut self, t: VT, d: u32) {
        if d == 0 || !self.budget_ok() {
            return self.leaf(t);
        }
        let d1 = d - 1;
        if self.r.chance(1, 25) { return self.dup_template(t, d1); }
        if self.k.allow_f2 && self.r.chance(1, 6) { return self.f2_template(t, d1); }
        if self.k.allow_f1 && self.r.chance(1, 6) { return self.f1_template(t, d1); }
        match self.r.below(100) {
            0..=21 => self.leaf(t),
            22..=29 => self.unop(t, d1),
            30..=49 => self.binop(t, d1),
            50..=56 => {
                if t == VT::I32 { self.relop(d1) } else { self.binop(t, d1) }
            }
            57..=63 => {
                if self.env.mem.is_some() { self.load(t, d1) } else { self.binop(t, d1) }
            }
            64..=67 => {
                self.expr(t, d1); self.expr(t, d1); self.expr(VT::I32, d1);
                self.plain(0x1b); self.pend.pop(); self.pend.pop(); self.pend.pop(); self.pend.push(None);
                self.st.hit("select")
            }
            68..=73 => match self.pick_local(t, true) {
                Some(i) => {
                    self.expr(t, d1);
                    if self.can_set(i as usize) {
                        self.emit(Op::LocalTee(i)); self.pend.pop(); self.pend.push(Some(i)); self.st.hit("local.tee")
                    }
                }
                None => self.leaf(t),
            },
            74..=80 => { self.stmt(d1); self.expr(t, d1) }
            81..=85 => self.block_expr(t, d1),
            86..=90 => self.if_expr(t, d1),
            91..=92 => self.loop_b(Some(t), d1),
            93..=96 => self.call_expr(Some(t), d1),
            97..=98 => self.call_indirect(Some(t), d1),
            _ => {
                if t == VT::I32 && self.env.mem.is_some() {
                    let n = *self.r.pick(&[0i32, 1, 1, 2, 3, 511, 512, 65535, 65536, -1]);
                    self.emit(Op::I32Const(n)); self.plain(0x40); self.pend.push(None); self.st.hit("memory.grow")
                } else { self.leaf(t) }
            }
        }
    }

    /// several pending reads of one local, then the local is overwritten in the SAME frame: all
    /// reads must be redirected to one shared reserve register that stays live until the last use
    fn dup_template(&mut self, t: VT, d: u32) {
        let i = match self.pick_local(t, true) { Some(i) => i, None => return self.leaf(t) };
        self.st.hit("template:dup-reads-then-set");
        let k = self.r.range(2, 4);
        for _ in 0..k { self.emit(Op::LocalGet(i)); self.pend.push(Some(i)); }
        if self.r.chance(1, 2) { self.leaf(t); } else { self.expr(t, d.min(2)); }
        if self.can_set(i as usize) {
            if self.r.chance(1, 3) { self.emit(Op::LocalTee(i)); self.plain(0x1a); } else { self.emit(Op::LocalSet(i)); }
        } else { self.plain(0x1a); }
        self.pend.pop();
        let op = if t == VT::I32 { *self.r.pick(&[0x6a_u8, 0x6b, 0x73, 0x6c]) } else { *self.r.pick(&[0x7c_u8, 0x7d, 0x85, 0x7e]) };
        for j in 0..k - 1 {
            if j == 0 && self.r.chance(1, 2) {
                // something in between that needs a fresh temporary
                self.emit(Op::LocalGet(i)); self.pend.push(Some(i));
                self.plain(op); self.pend.pop(); self.pend.pop(); self.pend.push(None);
                self.plain(op); self.pend.pop(); self.pend.pop(); self.pend.push(None);
            } else {
                self.plain(op); self.pend.pop(); self.pend.pop(); self.pend.push(None);
            }
        }
    }

    /// class F2 on purpose: a local is read, then overwritten inside a conditional or loop region
    fn f2_template(&mut self, t: VT, d: u32) {
        let i = match self.pick_local(t, true) { Some(i) => i, None => return self.leaf(t) };
        self.st.hit("template:F2");
        self.emit(Op::LocalGet(i)); self.pend.push(Some(i));
        if self.r.chance(2, 3) {
            self.expr(VT::I32, d.min(1)); self.pend.pop();
            self.emit(Op::If(None));
            self.push_frame(None, FK::If, true);
            self.expr(t, d.min(1)); self.emit(Op::LocalSet(i)); self.pend.pop();
            self.emit(Op::End);
            self.pop_frame();
        } else {
            self.emit(Op::Block(None));
            self.push_frame(None, FK::Block, true);
            self.expr(VT::I32, d.min(1)); self.pend.pop();
            self.emit(Op::BrIf(0));
            self.expr(t, d.min(1)); self.emit(Op::LocalTee(i)); self.plain(0x1a); self.pend.pop();
            self.emit(Op::End);
            self.pop_frame();
        }
        if self.r.chance(1, 2) {
            self.emit(Op::LocalGet(i)); self.pend.push(Some(i));
            self.plain(if t == VT::I32 { 0x6b } else { 0x7d });
            self.pend.pop(); self.pend.pop(); self.pend.push(None);
        }
    }

    /// class F1 on purpose: br_if carrying a value, not necessarily taken
    fn f1_template(&mut self, t: VT, d: u32) {
        self.st.hit("template:F1");
        self.emit(Op::Block(Some(t)));
        self.push_frame(Some(t), FK::Block, true);
        self.expr(t, d.min(1));
        self.expr(VT::I32, d.min(1)); self.pend.pop();
        self.emit(Op::BrIf(0));
        if self.r.chance(1, 2) {
            self.expr(t, d.min(1));
            self.expr(VT::I32, d.min(1)); self.pend.pop();
            self.emit(Op::BrIf(0));
            self.plain(0x1a); self.pend.pop();
        }
        self.pend.pop();
        self.emit(Op::End);
        self.pop_frame();
        self.pend.push(None);
    }

    fn unop(&mut self, t: VT, d: u32) {
        // results of type t from one operand
        let choice = self.r.below(10);
        match (t, choice) {
            (VT::I32, 0..=3) => { self.expr(VT::I32, d); let b = 0x67 + self.r.below(3) as u8; self.plain(b) }
            (VT::I32, 4) => { self.expr(VT::I32, d); self.plain(0x45) }
            (VT::I32, 5) => { self.expr(VT::I64, d); self.plain(0x50) }
            (VT::I32, 6 | 7) => { self.expr(VT::I64, d); self.plain(0xa7); self.st.hit("wrap") }
            (VT::I32, _) => {
                self.expr(VT::I32, d);
                if self.k.signext { let b = 0xc0 + self.r.below(2) as u8; self.plain(b); self.st.hit("signext") } else { self.plain(0x45) }
            }
            (VT::I64, 0..=3) => { self.expr(VT::I64, d); let b = 0x79 + self.r.below(3) as u8; self.plain(b) }
            (VT::I64, 4 | 5) => { self.expr(VT::I32, d); self.plain(0xac); self.st.hit("extend_s") }
            (VT::I64, 6 | 7) => { self.expr(VT::I32, d); self.plain(0xad); self.st.hit("extend_u") }
            (VT::I64, _) => {
                self.expr(VT::I64, d);
                if self.k.signext { let b = 0xc2 + self.r.below(3) as u8; self.plain(b); self.st.hit("signext") } else { self.plain(0x7b) }
            }
        }
        self.pend.pop();
        self.pend.push(None);
    }

    fn binop(&mut self, t: VT, d: u32) {
        let base: u8 = if t == VT::I32 { 0x6a } else { 0x7c };
        let k = self.r.below(15) as u8; // add sub mul div_s div_u rem_s rem_u and or xor shl shr_s shr_u rotl rotr
        self.expr(t, d);
        let is_div = (3..=6).contains(&k);
        if is_div {
            self.st.hit("div/rem");
            let rem_s = k == 5;
            if rem_s && !self.k.allow_f3 {
                // keep (MIN, -1) out of the clean stream: divisor is a constant other than -1
                let mut c = if t == VT::I32 { edge32(self.r) as i64 } else { edge64(self.r) };
                if c == -1 { c = 3 }
                self.emit(if t == VT::I32 { Op::I32Const(c as i32) } else { Op::I64Const(c) });
                self.pend.push(None);
            } else if self.r.chance(2, 3) {
                self.expr(t, d);
                // mostly non-zero divisors so that programs do not all trap
                if self.r.chance(3, 4) && !rem_s {
                    self.emit(if t == VT::I32 { Op::I32Const(1) } else { Op::I64Const(1) });
                    self.plain(base + 8); // or
                }
            } else {
                self.konst(t);
            }
        } else if k >= 10 {
            self.st.hit("shift/rot");
            self.expr(t, d);
        } else {
            self.expr(t, d);
        }
        self.plain(base + k);
        self.pend.pop(); self.pend.pop(); self.pend.push(None);
    }

    fn relop(&mut self, d: u32) {
        let t = if self.r.chance(1, 2) { VT::I32 } else { VT::I64 };
        self.expr(t, d);
        self.expr(t, d);
        let b = (if t == VT::I32 { 0x46 } else { 0x51 }) + self.r.below(10) as u8;
        self.plain(b);
        self.pend.pop(); self.pend.pop(); self.pend.push(None);
    }

    fn load(&mut self, t: VT, d: u32) {
        // (opcode, width, max align)
        let opts: &[(u8, u64, u32)] = if t == VT::I32 {
            &[(0x28, 4, 2), (0x2c, 1, 0), (0x2d, 1, 0), (0x2e, 2, 1), (0x2f, 2, 1)]
        } else {
            &[(0x29, 8, 3), (0x30, 1, 0), (0x31, 1, 0), (0x32, 2, 1), (0x33, 2, 1), (0x34, 4, 2), (0x35, 4, 2)]
        };
        let (b, w, ma) = *self.r.pick(opts);
        let off = self.addr(w, d);
        let al = self.r.below(ma as u64 + 1) as u32;
        self.emit(Op::Mem(b, off, al));
        self.pend.pop(); self.pend.push(None);
        self.st.hit("load");
    }

    fn store(&mut self, d: u32) {
        let opts: &[(u8, u64, u32, VT)] = &[
            (0x36, 4, 2, VT::I32), (0x37, 8, 3, VT::I64), (0x3a, 1, 0, VT::I32), (0x3b, 2, 1, VT::I32),
            (0x3c, 1, 0, VT::I64), (0x3d, 2, 1, VT::I64), (0x3e, 4, 2, VT::I64),
        ];
        let (b, w, ma, t) = *self.r.pick(opts);
        let off = self.addr(w, d);
        self.expr(t, d);
        let al = self.r.below(ma as u64 + 1) as u32;
        self.emit(Op::Mem(b, off, al));
        self.pend.pop(); self.pend.pop();
        self.st.hit("store");
    }

    fn push_frame(&mut self, label: BT, kind: FK, branchable: bool) {
        self.frames.push(Frame { label, base: self.pend.len(), kind, branchable });
    }
    fn pop_frame(&mut self) {
        let f = self.frames.pop().unwrap();
        self.pend.truncate(f.base);
    }

    /// tail of a body whose fallthrough type is `t`: a value, or a terminator + dead code
    fn tail(&mut self, t: BT, d: u32) {
        if self.r.chance(1, 5) && self.budget_ok() {
            self.terminator(d);
            self.dead();
            return;
        }
        if let Some(t) = t {
            self.expr(t, d);
            self.pend.pop();
        }
    }

    fn block_expr(&mut self, t: VT, d: u32) {
        self.st.hit("block(result)");
        self.emit(Op::Block(Some(t)));
        self.push_frame(Some(t), FK::Block, true);
        let n = self.r.below(3);
        self.stmts(n, d);
        if self.r.chance(1, 5) {
            // junk below the carried value, abandoned by the branch
            self.st.hit("br-discards-operands");
            let u = if self.r.chance(1, 2) { VT::I32 } else { VT::I64 };
            self.expr(u, d.min(1));
            self.expr(t, d);
            self.emit(Op::Br(0));
            self.dead();
        } else {
            self.tail(Some(t), d);
        }
        self.emit(Op::End);
        self.pop_frame();
        self.pend.push(None);
    }

    fn if_expr(&mut self, t: VT, d: u32) {
        self.st.hit("if(result)");
        self.expr(VT::I32, d);
        self.pend.pop();
        self.emit(Op::If(Some(t)));
        self.push_frame(Some(t), FK::If, true);
        let n = self.r.below(2);
        self.stmts(n, d);
        self.tail(Some(t), d);
        self.emit(Op::Else);
        self.pend.truncate(self.cur_base());
        let n = self.r.below(2);
        self.stmts(n, d);
        self.tail(Some(t), d);
        self.emit(Op::End);
        self.pop_frame();
        self.pend.push(None);
    }

    /// loop shape B: counter decremented at the loop head, `br` to the loop label allowed anywhere
    fn loop_b(&mut self, t: BT, d: u32) {
        if self.mult > 64 { return match t { Some(t) => self.leaf(t), None => self.plain(0x01) }; }
        self.st.hit(if t.is_some() { "loop(result)" } else { "loop-B" });
        let n = self.r.range(1, 5);
        let c = self.fresh_counter();
        self.emit(Op::I32Const(n as i32));
        self.emit(Op::LocalSet(c));
        self.emit(Op::Block(t));
        self.push_frame(t, FK::Block, true);
        let loop_ty = if self.r.chance(1, 2) { t } else { None };
        self.emit(Op::Loop(loop_ty));
        self.push_frame(None, FK::Loop, true);
        let old = self.mult;
        self.mult *= n + 1;
        self.emit(Op::LocalGet(c));
        self.plain(0x45);
        self.emit(Op::If(None));
        self.push_frame(None, FK::If, true);
        if let Some(t) = t { self.leaf(t); self.pend.pop(); }
        self.emit(Op::Br(2));
        self.emit(Op::End);
        self.pop_frame();
        self.emit(Op::LocalGet(c));
        self.emit(Op::I32Const(1));
        self.plain(0x6b);
        match self.r.below(4) {
            0 => { self.emit(Op::LocalTee(c)); self.plain(0x1a) }
            1 => { self.plain(0x01); self.emit(Op::LocalSet(c)) }
            _ => self.emit(Op::LocalSet(c)),
        }
        let k = self.r.range(1, 3);
        self.stmts(k, d);
        if loop_ty.is_some() && self.r.chance(2, 3) {
            // fall through with a value: leaves the loop
            self.expr(t.unwrap(), d);
            self.pend.pop();
        } else {
            if loop_ty.is_none() && t.is_some() && self.r.chance(1, 2) {
                // leave through the exit label carrying a value
                self.expr(t.unwrap(), d); self.pend.pop();
                self.emit(Op::Br(1));
            } else {
                self.emit(Op::Br(0)); // continue
            }
            self.dead();
        }
        self.emit(Op::End);
        self.pop_frame();
        self.mult = old;
        if loop_ty.is_none() && t.is_some() {
            // the loop has no result: the block's fallthrough is unreachable (loop only exits by branch)
            // but it must still type-check: after `loop end` push a value
            self.leaf(t.unwrap()); self.pend.pop();
        }
        self.emit(Op::End);
        self.pop_frame();
        if t.is_some() { self.pend.push(None); }
    }

    /// loop shape A: `loop body; c--; br_if 0 end`; the loop label is not a branch target for the body
    fn loop_a(&mut self, d: u32) {
        if self.mult > 64 { return self.plain(0x01); }
        self.st.hit("loop-A");
        let n = self.r.range(1, 5);
        let c = self.fresh_counter();
        self.emit(Op::I32Const(n as i32));
        self.emit(Op::LocalSet(c));
        self.emit(Op::Loop(None));
        self.push_frame(None, FK::Loop, false);
        let old = self.mult;
        self.mult *= n;
        let k = self.r.range(1, 3);
        self.stmts(k, d);
        self.emit(Op::LocalGet(c));
        self.emit(Op::I32Const(1));
        self.plain(0x6b);
        self.emit(Op::LocalTee(c));
        self.emit(Op::BrIf(0));
        self.emit(Op::End);
        self.pop_frame();
        self.mult = old;
    }

    fn callable(&self, res: BT) -> Vec<u32> {
        (0..self.self_idx)
            .filter(|&j| self.env.types[self.env.func_ty[j as usize] as usize].result == res)
            .filter(|&j| self.cost + self.mult * (self.env.func_cost[j as usize] + 2) < COST_LIMIT)
            .collect()
    }

    fn call_expr(&mut self, res: BT, d: u32) {
        let c = self.callable(res);
        if c.is_empty() {
            return match res { Some(t) => self.leaf(t), None => self.plain(0x01) };
        }
        let j = *self.r.pick(&c);
        let sig = self.env.types[self.env.func_ty[j as usize] as usize].clone();
        for p in &sig.params { self.expr(*p, d); }
        self.emit(Op::Call(j));
        self.cost += self.mult * self.env.func_cost[j as usize];
        for _ in &sig.params { self.pend.pop(); }
        if res.is_some() { self.pend.push(None); }
        self.st.hit("call");
    }

    fn call_indirect(&mut self, res: BT, d: u32) {
        if self.env.table.is_empty() || self.self_idx < self.env.table_callers_from {
            return self.call_expr(res, d);
        }
        let maxc = self.env.table.iter().flatten().map(|&f| self.env.func_cost[f as usize]).max().unwrap_or(0);
        if self.cost + self.mult * (maxc + 2) >= COST_LIMIT { return self.call_expr(res, d); }
        // pick a type index with the wanted result
        let tys: Vec<u32> = (0..self.env.types.len() as u32).filter(|&i| self.env.types[i as usize].result == res).collect();
        if tys.is_empty() { return self.call_expr(res, d); }
        // prefer a type that some table entry has
        let good: Vec<(u32, u32)> = self.env.table.iter().enumerate()
            .filter_map(|(slot, f)| f.map(|f| (slot as u32, f)))
            .filter(|(_, f)| self.env.types[self.env.func_ty[*f as usize] as usize].result == res)
            .collect();
        let (ti, slot_hint) = if !good.is_empty() && self.r.chance(4, 5) {
            let (slot, f) = *self.r.pick(&good);
            let fty = self.env.func_ty[f as usize];
            // structurally equal type under a different index, when there is one
            let same: Vec<u32> = (0..self.env.types.len() as u32).filter(|&i| self.env.types[i as usize] == self.env.types[fty as usize]).collect();
            // the dynamic check is structural: naming ANOTHER index of an equal type must succeed
            let other: Vec<u32> = same.iter().copied().filter(|&i| i != fty).collect();
            if !other.is_empty() && self.r.chance(3, 4) {
                self.st.hit("call_indirect(other index of an equal type)");
                (*self.r.pick(&other), Some(slot))
            } else {
                (*self.r.pick(&same), Some(slot))
            }
        } else {
            (*self.r.pick(&tys), None)
        };
        let sig = self.env.types[ti as usize].clone();
        for p in &sig.params { self.expr(*p, d); }
        match (slot_hint, self.r.below(10)) {
            (Some(s), 0..=6) => { self.emit(Op::I32Const(s as i32)); self.pend.push(None) }
            (_, 7) => { let s = self.r.below(self.env.table.len() as u64 + 2) as i32; self.emit(Op::I32Const(s)); self.pend.push(None) }
            (_, 8) => { let c = *self.r.pick(&[-1, i32::MIN, 1000, 65536]); self.emit(Op::I32Const(c)); self.pend.push(None) }
            _ => {
                self.expr(VT::I32, d.min(1));
                self.emit(Op::I32Const(7)); self.plain(0x71);
                self.pend.pop(); self.pend.push(None);
            }
        }
        self.emit(Op::CallIndirect(ti));
        self.cost += self.mult * maxc;
        self.pend.pop();
        for _ in &sig.params { self.pend.pop(); }
        if res.is_some() { self.pend.push(None); }
        self.st.hit("call_indirect");
    }

    pub fn stmts(&mut self, n: u64, d: u32) {
        for _ in 0..n {
            if !self.budget_ok() { break; }
            self.stmt(d);
        }
    }

    pub fn stmt(&mut self, d: u32) {
        if d == 0 || !self.budget_ok() {
            // cheapest statement
            return match self.r.below(3) {
                0 => self.plain(0x01),
                _ => self.set_local(0),
            };
        }
        let d1 = d - 1;
        match self.r.below(100) {
            0..=24 => self.set_local(d1),
            25..=31 => {
                let c: Vec<usize> = (0..self.env.globals.len()).filter(|&i| self.env.globals[i].0).collect();
                if c.is_empty() { self.set_local(d1) } else {
                    let g = *self.r.pick(&c);
                    self.expr(self.env.globals[g].1, d1);
                    self.emit(Op::GlobalSet(g as u32)); self.pend.pop(); self.st.hit("global.set")
                }
            }
            32..=43 => if self.env.mem.is_some() { self.store(d1) } else { self.set_local(d1) },
            44..=49 => {
                let t = if self.r.chance(1, 2) { VT::I32 } else { VT::I64 };
                self.expr(t, d1); self.plain(0x1a); self.pend.pop(); self.st.hit("drop")
            }
            50..=51 => self.plain(0x01),
            52..=58 => {
                self.st.hit("block");
                self.emit(Op::Block(None));
                self.push_frame(None, FK::Block, true);
                let n = self.r.range(1, 3);
                self.stmts(n, d1);
                self.tail(None, d1);
                self.emit(Op::End);
                self.pop_frame();
            }
            59..=68 => {
                self.st.hit("if");
                self.expr(VT::I32, d1); self.pend.pop();
                self.emit(Op::If(None));
                self.push_frame(None, FK::If, true);
                let n = self.r.range(1, 2);
                self.stmts(n, d1);
                self.tail(None, d1);
                if self.r.chance(1, 2) {
                    self.emit(Op::Else);
                    self.pend.truncate(self.cur_base());
                    let n = self.r.range(0, 2);
                    self.stmts(n, d1);
                    self.tail(None, d1);
                }
                self.emit(Op::End);
                self.pop_frame();
            }
            69..=72 => self.loop_a(d1),
            73..=76 => self.loop_b(None, d1),
            77..=83 => {
                // br_if to a label without value
                let ls: Vec<u32> = self.labels(|f| f.label.is_none() && f.branchable);
                if ls.is_empty() { self.set_local(d1) } else {
                    let l = *self.r.pick(&ls);
                    self.expr(VT::I32, d1); self.pend.pop();
                    self.emit(Op::BrIf(l)); self.st.hit("br_if")
                }
            }
            84..=87 => {
                // br_if carrying a value (F1 class)
                // (not the function label when local 0 is a loop counter: the F1 copy into local 0 would
                // make the implementation loop forever, which only costs watchdog time)
                let counter0 = self.reserved.first().copied().unwrap_or(false);
                let ls: Vec<u32> = self.labels(|f| f.label.is_some() && f.branchable && !(counter0 && f.kind == FK::Func));
                if !self.k.allow_f1 || ls.is_empty() { self.set_local(d1) } else {
                    let l = *self.r.pick(&ls);
                    let t = self.frames[self.frames.len() - 1 - l as usize].label.unwrap();
                    self.expr(t, d1);
                    self.expr(VT::I32, d1); self.pend.pop();
                    self.emit(Op::BrIf(l));
                    self.plain(0x1a); self.pend.pop();
                    self.st.hit("br_if(value)")
                }
            }
            88..=91 => {
                // guarded terminator
                self.st.hit("guarded-terminator");
                self.expr(VT::I32, d1); self.pend.pop();
                self.emit(Op::If(None));
                self.push_frame(None, FK::If, true);
                let n = self.r.below(2);
                self.stmts(n, d1);
                self.terminator(d1);
                self.dead();
                self.emit(Op::End);
                self.pop_frame();
            }
            92..=95 => {
                if self.r.chance(1, 2) { self.call_expr(None, d1) } else {
                    let t = if self.r.chance(1, 2) { VT::I32 } else { VT::I64 };
                    self.call_expr(Some(t), d1);
                    if self.pend.len() > self.cur_base() && self.code.last().map(|o| matches!(o, Op::Call(_))).unwrap_or(false) {
                        self.plain(0x1a); self.pend.pop();
                    } else { self.plain(0x1a); self.pend.pop(); }
                }
            }
            96..=97 => self.call_indirect(None, d1),
            _ => {
                if self.env.mem.is_some() {
                    let n = *self.r.pick(&[0i32, 1, 1, 2, 600, 65535]);
                    self.emit(Op::I32Const(n)); self.plain(0x40); self.plain(0x1a); self.st.hit("memory.grow")
                } else { self.plain(0x01) }
            }
        }
    }

    fn set_local(&mut self, d: u32) {
        let t = if self.r.chance(3, 5) { VT::I32 } else { VT::I64 };
        match self.pick_local(t, true) {
            Some(i) => {
                self.expr(self.locals[i as usize], d);
                if self.can_set(i as usize) {
                    self.emit(Op::LocalSet(i)); self.st.hit("local.set")
                } else { self.plain(0x1a) }
                self.pend.pop();
            }
            None => self.plain(0x01),
        }
    }

    /// label indices (relative depth) of the frames satisfying `p`
    fn labels(&self, p: impl Fn(&Frame) -> bool) -> Vec<u32> {
        let n = self.frames.len();
        (0..n).filter(|&i| p(&self.frames[n - 1 - i])).map(|i| i as u32).collect()
    }

    fn terminator(&mut self, d: u32) {
        match self.r.below(10) {
            0..=4 => {
                let ls = self.labels(|f| f.branchable);
                let l = *self.r.pick(&ls);
                if let Some(t) = self.frames[self.frames.len() - 1 - l as usize].label { self.expr(t, d); self.pend.pop(); }
                self.emit(Op::Br(l));
                self.st.hit(if l == 0 { "br 0" } else { "br outer" });
            }
            5 | 6 => {
                // br_table: all targets must have the same label type
                let ls = self.labels(|f| f.branchable);
                let l0 = *self.r.pick(&ls);
                let ty = self.frames[self.frames.len() - 1 - l0 as usize].label;
                let same = self.labels(|f| f.branchable && f.label == ty);
                if let Some(t) = ty { self.expr(t, d); self.pend.pop(); }
                let n = self.r.below(4);
                let table: Vec<u32> = (0..n).map(|_| *self.r.pick(&same)).collect();
                let dflt = *self.r.pick(&same);
                match self.r.below(3) {
                    0 => { let i = self.r.below(n + 2) as i32; self.emit(Op::I32Const(i)); }
                    1 => { let c = *self.r.pick(&[-1, i32::MIN, 4096, 65536]); self.emit(Op::I32Const(c)); }
                    _ => { self.expr(VT::I32, d.min(1)); self.pend.pop(); }
                }
                self.emit(Op::BrTable(table, dflt));
                self.st.hit(if ty.is_some() { "br_table(value)" } else { "br_table" });
            }
            7 | 8 => {
                if let Some(t) = self.result { self.expr(t, d); self.pend.pop(); }
                self.plain(0x0f);
                self.st.hit("return");
            }
            _ => { self.plain(0x00); self.st.hit("unreachable") }
        }
    }

    /// stack-polymorphic dead code after a terminator; leaves no concrete operand behind
    fn dead(&mut self) {
        let n = self.r.below(4);
        if n == 0 { return; }
        self.st.hit("dead-code");
        let mut ds: Vec<VT> = vec![];
        for _ in 0..n {
            match self.r.below(9) {
                0 => { self.plain(0x1a); ds.pop(); }
                1 => { if ds.is_empty() { self.plain(0x1b); /* select on unknowns: pushes unknown; treat as nothing */ self.plain(0x1a); } }
                2 => { if ds.is_empty() { self.plain(0x6a); ds.push(VT::I32); } }
                3 => { if ds.is_empty() { self.plain(0x7c); ds.push(VT::I64); } }
                4 => { self.emit(Op::I32Const(7)); ds.push(VT::I32); }
                5 => {
                    let ls = self.labels(|f| f.label.is_none() && f.branchable);
                    if !ls.is_empty() && ds.is_empty() { let l = *self.r.pick(&ls); self.emit(Op::BrIf(l)); }
                }
                6 => {
                    // a whole nested frame in dead code
                    self.emit(Op::Block(None));
                    self.push_frame(None, FK::Block, true);
                    let saved = (self.size, self.cost);
                    self.stmts(1, 1);
                    let _ = saved;
                    self.emit(Op::End);
                    self.pop_frame();
                }
                7 => {
                    if ds.is_empty() {
                        if let Some(i) = self.pick_local(VT::I32, true) { self.emit(Op::LocalSet(i)); }
                    }
                }
                _ => { if let Some(i) = self.pick_local(VT::I64, false) { self.emit(Op::LocalGet(i)); ds.push(VT::I64); } }
            }
        }
        for _ in 0..ds.len() { self.plain(0x1a); }
    }

    pub fn finish_body(&mut self, d: u32) {
        let n = self.r.range(1, 4);
        self.stmts(n, d);
        self.tail(self.result, d);
        self.code.push(Op::End);
    }
}

fn random_sig(r: &mut Rng, max_params: u64) -> Sig {
    let n = r.below(max_params + 1);
    let params = (0..n).map(|_| if r.chance(3, 5) { VT::I32 } else { VT::I64 }).collect();
    let result = match r.below(5) { 0 => None, 1 | 2 => Some(VT::I32), _ => Some(VT::I64) };
    Sig { params, result }
}

pub fn intern(types: &mut Vec<Sig>, s: &Sig, r: &mut Rng) -> u32 {
    // sometimes add a structurally equal duplicate on purpose
    if let Some(i) = types.iter().position(|x| x == s) {
        if !r.chance(1, 6) { return i as u32; }
    }
    types.push(s.clone());
    (types.len() - 1) as u32
}

pub fn gen_case(r: &mut Rng, st: &mut Stats) -> (Case, Knobs) {
    let k = Knobs {
        allow_f1: r.chance(1, 10),
        allow_f2: r.chance(1, 8),
        allow_f3: r.chance(1, 7),
        signext: r.chance(1, 2),
        depth: r.range(2, 5) as u32,
        size: *r.pick(&[8i32, 15, 25, 40, 60, 100, 160]),
    };
    if k.allow_f1 { st.hit("knob:F1-allowed") }
    if k.allow_f2 { st.hit("knob:F2-allowed") }
    if k.allow_f3 { st.hit("knob:F3-allowed") }
    if !(k.allow_f1 || k.allow_f2 || k.allow_f3) { st.hit("knob:clean") }
    let mut env = Env { types: vec![], func_ty: vec![], func_cost: vec![], globals: vec![], mem: None, table: vec![], table_callers_from: 0 };
    let mut m = Module::default();
    // memory
    if r.chance(9, 10) {
        let min = *r.pick(&[0u32, 1, 1, 1, 1, 2, 1, 1, 1, 2, 1, 1]);
        // a memory that can reach the embedder's cap (512 pages = 32 MiB) is expensive to observe: keep it rare
        let max = match r.below(40) { 0 => None, 1 => Some(600), 2..=10 => Some(min), 11..=20 => Some(min + 1), 21..=30 => Some(min + 2), _ => Some(min + 3) };
        env.mem = Some((min, max));
        m.mem = env.mem;
        let len = min as u64 * 65536;
        if len > 0 {
            for _ in 0..r.below(3) {
                let n = r.range(1, 12);
                let off = match r.below(3) { 0 => r.below(32), 1 => len - n - r.below(4), _ => r.below(len - n) };
                m.data.push((off as u32, r.bytes(n as usize)));
            }
        }
    }
    // globals
    for _ in 0..r.below(4) {
        let t = if r.chance(1, 2) { VT::I32 } else { VT::I64 };
        let mu = r.chance(4, 5);
        let v = if t == VT::I32 { edge32(r) as i64 } else { edge64(r) };
        env.globals.push((mu, t));
        m.globals.push((mu, t, v));
    }
    let nf = r.range(1, 5) as u32;
    let ntab_funcs = if nf >= 2 && r.chance(3, 4) { r.range(1, (nf - 1).min(3) as u64) as u32 } else { 0 };
    let mut funcs: Vec<Func> = vec![];
    for i in 0..nf {
        if i == ntab_funcs && ntab_funcs > 0 {
            // build the table from the functions generated so far
            let size = r.range(1, 6) as usize;
            let mut tab = vec![None; size];
            for s in tab.iter_mut() { if r.chance(3, 4) { *s = Some(r.below(ntab_funcs as u64) as u32); } }
            env.table = tab.clone();
            env.table_callers_from = ntab_funcs;
            // list the type of some table functions a second time (legal): call_indirect through the
            // duplicate index must behave exactly like through the original one
            for f in 0..ntab_funcs as usize {
                if r.chance(1, 2) {
                    let dup = env.types[env.func_ty[f] as usize].clone();
                    env.types.push(dup);
                    st.hit("type section: duplicate of a table function's type");
                }
            }
            m.table = Some(size as u32);
            // element segments: contiguous runs of initialised slots
            let mut j = 0;
            while j < size {
                if tab[j].is_some() {
                    let s = j;
                    let mut fs = vec![];
                    while j < size && tab[j].is_some() { fs.push(tab[j].unwrap()); j += 1; }
                    m.elems.push((s as u32, fs));
                } else { j += 1; }
            }
        }
        let is_main = i == nf - 1;
        let sig = if is_main {
            let mut s = random_sig(r, 3);
            if r.chance(4, 5) && s.result.is_none() { s.result = Some(VT::I32) }
            s
        } else { random_sig(r, 3) };
        let ty = intern(&mut env.types, &sig, r);
        let extra: Vec<VT> = (0..r.below(4)).map(|_| if r.chance(3, 5) { VT::I32 } else { VT::I64 }).collect();
        let mut g = FG::new(r, &env, &k, st, i, &sig, extra);
        g.finish_body(k.depth);
        let body = std::mem::take(&mut g.code);
        let locals = g.locals[g.nparams..].to_vec();
        let cost = g.cost;
        drop(g);
        funcs.push(Func { ty, locals, body });
        env.func_ty.push(ty);
        env.func_cost.push(cost + 2);
    }
    // observers: one wrapper per global: call main, return the global
    let main = nf - 1;
    let main_sig = env.types[env.func_ty[main as usize] as usize].clone();
    let mut entries = vec![main];
    for (gi, (_, gt)) in env.globals.iter().enumerate() {
        let sig = Sig { params: main_sig.params.clone(), result: Some(*gt) };
        let ty = intern(&mut env.types, &sig, r);
        let mut body = vec![];
        for p in 0..main_sig.params.len() { body.push(Op::LocalGet(p as u32)); }
        body.push(Op::Call(main));
        if main_sig.result.is_some() { body.push(Op::Plain(0x1a)); }
        body.push(Op::GlobalGet(gi as u32));
        body.push(Op::End);
        funcs.push(Func { ty, locals: vec![], body });
        entries.push(funcs.len() as u32 - 1);
    }
    m.types = env.types.clone();
    m.funcs = funcs;
    let args = main_sig.params.iter().map(|t| (*t, if *t == VT::I32 { edge32(r) as i64 } else { edge64(r) })).collect();
    (Case { module: m, entries, args }, k)
}
