//! C06 harness: transaction / update authorisation against the real concordium_base code.
//!
//! modes (all randomness from the seed argument):
//!   exh  <seed> <level>   exhaustive slice of access structures x signer subsets  -> compact `A` lines
//!   samp <seed> <n>       sampled structures up to 256 indices, mutated signers     -> `A` lines + JSON `v1` lines
//!   tx   <seed> <n>       construct::* / send::* outputs, sponsored v1, update instructions -> JSON
//!   pert <seed> <n>       perturbation stream on the implementation alone             -> JSON
//!   wire <seed> <n>       byte-level mutants of the signature set of serialized block items (see wire.rs) -> JSON
//!   upd  <seed> <n>       AuthorizationsV0/V1, find_authorized_keys, update signing    -> JSON
//!
//! `A` line:  A <T>;<ci>:<t>:<ki>,<ki>..|..;<ci>:<ki>.<bit>,..|..;<result>
//!   (access structure; signature map with, per signature, the validity bit computed HERE by calling
//!    VerifyKey::verify with the key registered at that index (0 when none is registered);
//!    result = decision of the implementation: 1, 0 or P for a panic)
#![allow(deprecated)]
use concordium_base::{
    base::{Energy, Nonce, UpdateKeyPair, UpdateKeysIndex, UpdateKeysThreshold, UpdatePublicKey, UpdateSequenceNumber},
    common::{
        to_bytes,
        types::{Amount, CredentialIndex, KeyIndex, KeyPair, Signature, Timestamp, TransactionSignature, TransactionSignaturesV1, TransactionTime},
    },
    contracts_common::{AccountAddress, AccountThreshold, ContractAddress, ModuleReference, SignatureThreshold},
    hashes,
    id::types::{AccountKeys, CredentialData, CredentialPublicKeys, VerifyKey},
    smart_contracts::{ModuleSource, OwnedContractName, OwnedParameter, OwnedReceiveName, WasmModule, WasmVersion},
    transactions::{
        self as tx, compute_transaction_sign_hash, compute_transaction_sign_hash_v1, construct, send, verify_data_signature,
        verify_signature_transaction_sign_hash, verify_signature_transaction_sign_hash_v1, AccountAccessStructure,
        AccountTransaction, AccountTransactionV1, BlockItem, EncodedPayload, ExactSizeTransactionSigner, Memo,
        RegisteredData, TransactionHeader, TransactionHeaderV1, TransactionSigner,
    },
    updates::{self, AccessStructure, AuthorizationsV0, AuthorizationsV1, UpdateInstruction, UpdatePayload},
};
use hlib::{guarded, hex, quiet_panics, Rng};
use rand::{rngs::StdRng, SeedableRng};
use serde_json::{json, Value};
use sha2::{Digest, Sha256};
use std::collections::{BTreeMap, BTreeSet};
use std::convert::TryFrom;

mod wire;

type SigMap = BTreeMap<CredentialIndex, BTreeMap<KeyIndex, Signature>>;

fn ci(i: u8) -> CredentialIndex { CredentialIndex { index: i } }
fn at(t: u8) -> AccountThreshold { AccountThreshold::try_from(t).unwrap() }
fn st(t: u8) -> SignatureThreshold { SignatureThreshold::try_from(t).unwrap() }
fn sha(parts: &[&[u8]]) -> [u8; 32] {
    let mut h = Sha256::new();
    for p in parts { h.update(p); }
    h.finalize().into()
}
fn res_char(r: &Result<bool, String>) -> &'static str { match r { Ok(true) => "1", Ok(false) => "0", Err(_) => "P" } }

/// the validity bit of a signature under the key registered at (ci, ki), computed with the real verifier
fn bit(acc: &AccountAccessStructure, c: CredentialIndex, k: KeyIndex, data: &[u8], sig: &Signature) -> u8 {
    match acc.keys.get(&c).and_then(|ck| ck.keys.get(&k)) {
        Some(pk) => pk.verify(data, sig) as u8,
        None => 0,
    }
}

fn access_str(acc: &AccountAccessStructure) -> String {
    let creds: Vec<String> = acc.keys.iter().map(|(c, ck)| {
        let ks: Vec<String> = ck.keys.keys().map(|k| k.0.to_string()).collect();
        format!("{}:{}:{}", c.index, u8::from(ck.threshold), ks.join(","))
    }).collect();
    format!("{};{}", u8::from(acc.threshold), creds.join("|"))
}
fn sigs_str(acc: &AccountAccessStructure, data: &[u8], sigs: &SigMap) -> String {
    let cs: Vec<String> = sigs.iter().map(|(c, m)| {
        let ks: Vec<String> = m.iter().map(|(k, s)| format!("{}.{}", k.0, bit(acc, *c, *k, data, s))).collect();
        format!("{}:{}", c.index, ks.join(","))
    }).collect();
    cs.join("|")
}
/// as [sigs_str], with the validity bits of the fixed signature table computed once
fn sigs_str_fixed(acc: &AccountAccessStructure, f: &Fixed, sigs: &SigMap) -> String {
    let mut out = String::new();
    for (i, (c, m)) in sigs.iter().enumerate() {
        if i > 0 { out.push('|'); }
        out.push_str(&c.index.to_string());
        out.push(':');
        for (j, (k, s)) in m.iter().enumerate() {
            if j > 0 { out.push(','); }
            let registered = acc.keys.get(c).map(|ck| ck.keys.contains_key(k)).unwrap_or(false);
            let b = if !registered { 0 } else if s == &f.good[c.index as usize][k.0 as usize] { f.good_bit[c.index as usize][k.0 as usize] } else { f.bad_bit[c.index as usize][k.0 as usize] };
            out.push_str(&k.0.to_string());
            out.push('.');
            out.push(if b == 1 { '1' } else { '0' });
        }
    }
    out
}
fn a_line(acc: &AccountAccessStructure, data: &[u8], sigs: &SigMap, r: &Result<bool, String>) -> String {
    format!("A {};{};{}", access_str(acc), sigs_str(acc, data, sigs), res_char(r))
}

// ------------------------------------------------------------------------------------------ exhaustive
#[derive(Clone, Copy)]
struct CredCfg { k: u8, t: u8 }

fn cred_cfgs(kmax: u8) -> Vec<CredCfg> {
    let mut v = Vec::new();
    for k in 1..=kmax {
        for t in 1..=k + 1 { v.push(CredCfg { k, t }); }
        v.push(CredCfg { k, t: 255 });
    }
    v
}
/// all assignments of {absent, valid[, invalid]} to the key slots 0..=k (slot k is an unregistered index)
fn sig_opts(k: u8, tri: bool) -> Vec<Vec<(u8, u8)>> {
    let base: u32 = if tri { 3 } else { 2 };
    let n = base.pow(u32::from(k) + 1);
    (0..n).map(|mut x| {
        let mut v = Vec::new();
        for slot in 0..=k {
            let d = x % base;
            x /= base;
            if d > 0 { v.push((slot, (d - 1) as u8)); }
        }
        v
    }).collect()
}

struct Fixed { data: [u8; 32], kps: Vec<Vec<KeyPair>>, good: Vec<Vec<Signature>>, bad: Vec<Vec<Signature>>, good_bit: Vec<Vec<u8>>, bad_bit: Vec<Vec<u8>> }
fn fixed(seed: u64) -> Fixed {
    let mut csprng = StdRng::seed_from_u64(seed ^ 0xC06);
    let data = sha(&[b"c06-exhaustive", &seed.to_be_bytes()]);
    let kps: Vec<Vec<KeyPair>> = (0..5).map(|_| (0..5).map(|_| KeyPair::generate(&mut csprng)).collect()).collect();
    let good = kps.iter().map(|r| r.iter().map(|kp| Signature::from(kp.sign(&data))).collect()).collect();
    // a signature by a DIFFERENT key over the same data
    let bad = (0..5).map(|c| (0..5).map(|k| Signature::from(kps[(c + 1) % 5][(k + 2) % 5].sign(&data))).collect()).collect();
    let good: Vec<Vec<Signature>> = good;
    let bad: Vec<Vec<Signature>> = bad;
    // validity of every table signature under the key of its own slot, by the real verifier
    let good_bit = (0..5).map(|c| (0..5).map(|k| VerifyKey::from(&kps[c][k]).verify(&data, &good[c][k]) as u8).collect()).collect();
    let bad_bit = (0..5).map(|c| (0..5).map(|k| VerifyKey::from(&kps[c][k]).verify(&data, &bad[c][k]) as u8).collect()).collect();
    Fixed { data, kps, good, bad, good_bit, bad_bit }
}

fn exh_slice(f: &Fixed, n: usize, kmax: u8, tri: bool, out: &mut dyn FnMut(Vec<String>)) -> u64 {
    let cfgs = cred_cfgs(kmax);
    // work items: (cfg tuple, account threshold)
    let mut items: Vec<(Vec<CredCfg>, u8)> = Vec::new();
    let mut idx = vec![0usize; n];
    loop {
        let tuple: Vec<CredCfg> = idx.iter().map(|&i| cfgs[i]).collect();
        for t in (1..=(n as u8) + 1).chain(std::iter::once(255)) { items.push((tuple.clone(), t)); }
        let mut p = 0;
        while p < n { idx[p] += 1; if idx[p] < cfgs.len() { break; } idx[p] = 0; p += 1; }
        if p == n { break; }
    }
    let total = std::sync::atomic::AtomicU64::new(0);
    let threads = 16usize;
    let work = |tuple: &Vec<CredCfg>, t: &u8| -> (String, u64) {
        let mut buf = String::new();
        let mut cnt = 0u64;
        let mut keys = BTreeMap::new();
        for (c, cfg) in tuple.iter().enumerate() {
            let ks: BTreeMap<KeyIndex, VerifyKey> = (0..cfg.k).map(|k| (KeyIndex(k), VerifyKey::from(&f.kps[c][k as usize]))).collect();
            keys.insert(ci(c as u8), CredentialPublicKeys { keys: ks, threshold: st(cfg.t) });
        }
        let acc = AccountAccessStructure { keys, threshold: at(*t) };
        let astr = access_str(&acc);
        let opts: Vec<Vec<Vec<(u8, u8)>>> = tuple.iter().map(|cfg| sig_opts(cfg.k, tri)).collect();
        let mut sel = vec![0usize; n];
        loop {
            for unknown in 0..2 {
                let mut sigs: SigMap = BTreeMap::new();
                for c in 0..n {
                    let o = &opts[c][sel[c]];
                    if o.is_empty() { continue; }
                    let m: BTreeMap<KeyIndex, Signature> = o.iter().map(|&(slot, kind)| {
                        let s = if kind == 0 { f.good[c][slot as usize].clone() } else { f.bad[c][slot as usize].clone() };
                        (KeyIndex(slot), s)
                    }).collect();
                    sigs.insert(ci(c as u8), m);
                }
                if unknown == 1 {
                    let mut m = BTreeMap::new();
                    m.insert(KeyIndex(0), f.good[n][0].clone());
                    sigs.insert(ci(n as u8), m);
                }
                let r = guarded(|| verify_data_signature(&acc, &f.data, &sigs));
                buf.push_str("A ");
                buf.push_str(&astr);
                buf.push(';');
                buf.push_str(&sigs_str_fixed(&acc, f, &sigs));
                buf.push(';');
                buf.push_str(res_char(&r));
                buf.push('\n');
                cnt += 1;
            }
            let mut p = 0;
            while p < n { sel[p] += 1; if sel[p] < opts[p].len() { break; } sel[p] = 0; p += 1; }
            if p == n { break; }
        }
        (buf, cnt)
    };
    for batch in items.chunks(2048) {
        let next = std::sync::atomic::AtomicUsize::new(0);
        let mut outs: Vec<(usize, String)> = std::thread::scope(|s| {
            let hs: Vec<_> = (0..threads).map(|_| {
                let (next, total, work) = (&next, &total, &work);
                s.spawn(move || {
                    let mut mine = Vec::new();
                    loop {
                        let i = next.fetch_add(1, std::sync::atomic::Ordering::Relaxed);
                        if i >= batch.len() { break; }
                        let (b, c) = work(&batch[i].0, &batch[i].1);
                        total.fetch_add(c, std::sync::atomic::Ordering::Relaxed);
                        mine.push((i, b));
                    }
                    mine
                })
            }).collect();
            hs.into_iter().flat_map(|h| h.join().unwrap()).collect()
        });
        outs.sort_by_key(|x| x.0);
        out(outs.into_iter().map(|x| x.1).collect());
    }
    total.load(std::sync::atomic::Ordering::Relaxed)
}

fn exh(seed: u64, level: u64) {
    let f = fixed(seed);
    use std::io::Write;
    let stdout = std::io::stdout();
    let mut lock = std::io::BufWriter::with_capacity(1 << 20, stdout.lock());
    let mut emit = |v: Vec<String>| { for s in v { lock.write_all(s.as_bytes()).unwrap(); } };
    let mut slices = Vec::new();
    // (n credentials, max keys per credential, tri-state signatures)
    let plan: Vec<(usize, u8, bool)> = if level == 0 { vec![(1, 3, false), (1, 3, true), (2, 2, false)] }
        else if level == 1 { vec![(1, 3, false), (1, 3, true), (2, 3, false), (2, 2, true), (3, 2, false)] }
        else { vec![(1, 3, false), (1, 3, true), (2, 3, false), (2, 2, true), (3, 3, false)] };
    for (n, kmax, tri) in plan {
        let c = exh_slice(&f, n, kmax, tri, &mut emit);
        slices.push(json!({"creds": n, "max_keys": kmax, "signature_states": if tri {"absent/valid/wrong-key"} else {"absent/valid"}, "cases": c}));
    }
    drop(emit);
    lock.flush().unwrap();
    drop(lock);
    println!("{}", json!({"k":"exh_summary","slices":slices}));
}

// ------------------------------------------------------------------------------------------ sampled
struct Pool { kps: Vec<KeyPair> }
impl Pool {
    fn new(seed: u64, n: usize) -> Self { let mut c = StdRng::seed_from_u64(seed ^ 0x9001); Pool { kps: (0..n).map(|_| KeyPair::generate(&mut c)).collect() } }
    fn at(&self, c: u8, k: u8) -> &KeyPair { &self.kps[(c as usize * 31 + k as usize * 7 + 3) % self.kps.len()] }
    fn other(&self, c: u8, k: u8) -> &KeyPair { &self.kps[(c as usize * 31 + k as usize * 7 + 4) % self.kps.len()] }
}

fn distinct_u8(r: &mut Rng, n: usize) -> Vec<u8> {
    if n >= 256 { return (0..=255).collect(); }
    let mut s = BTreeSet::new();
    // boundary indices first
    for &b in &[0u8, 255, 1, 254, 127, 128] { if s.len() < n && r.chance(1, 2) { s.insert(b); } }
    while s.len() < n { s.insert(r.next() as u8); }
    s.into_iter().collect()
}
fn pick_threshold(r: &mut Rng, k: usize, hostile: bool) -> u8 {
    let k8 = k.min(255) as u8;
    if !hostile { return if r.chance(1, 3) { 1 } else { r.range(1, k8.max(1) as u64) as u8 }; }
    match r.below(8) {
        0 => 1, 1 => k8.max(1), 2 => k8.saturating_add(1).max(1), 3 => 255,
        4 => (k8 / 2).max(1), 5 => r.range(1, 255) as u8, _ => r.range(1, k8.max(1) as u64) as u8,
    }
}

struct Account { keys: BTreeMap<CredentialIndex, BTreeMap<KeyIndex, KeyPair>>, acc: AccountAccessStructure }
fn gen_account(r: &mut Rng, pool: &Pool) -> Account { gen_account_sized(r, pool, false) }
fn gen_account_sized(r: &mut Rng, pool: &Pool, small: bool) -> Account {
    let ncreds = if small { *r.pick(&[1usize, 1, 2, 2, 3, 4, 6]) } else { *r.pick(&[1usize, 1, 2, 2, 3, 3, 4, 5, 8, 17, 64, 255, 256]) };
    let hostile = r.chance(1, 4);
    let cis = distinct_u8(r, ncreds);
    let mut keys = BTreeMap::new();
    let mut pubs = BTreeMap::new();
    for &c in &cis {
        let nk = if small { *r.pick(&[1usize, 1, 2, 2, 3, 5]) } else if ncreds > 20 { *r.pick(&[1usize, 1, 2, 3]) } else { *r.pick(&[1usize, 1, 2, 2, 3, 3, 4, 6, 8, 30, 255, 256]) };
        let kis = distinct_u8(r, nk);
        let kk: BTreeMap<KeyIndex, KeyPair> = kis.iter().map(|&k| (KeyIndex(k), pool.at(c, k).clone())).collect();
        let pk: BTreeMap<KeyIndex, VerifyKey> = kk.iter().map(|(k, kp)| (*k, VerifyKey::from(kp))).collect();
        let hk = hostile && r.chance(1, 3);
        pubs.insert(ci(c), CredentialPublicKeys { keys: pk, threshold: st(pick_threshold(r, nk, hk)) });
        keys.insert(ci(c), kk);
    }
    let acc = AccountAccessStructure { keys: pubs, threshold: at(pick_threshold(r, ncreds, hostile)) };
    Account { keys, acc }
}

/// a signer that meets the thresholds where that is possible (first t credentials / keys plus random extras)
fn sufficient_signer(r: &mut Rng, a: &Account) -> BTreeMap<CredentialIndex, BTreeMap<KeyIndex, KeyPair>> {
    let t = u8::from(a.acc.threshold) as usize;
    let mut out = BTreeMap::new();
    let n = a.keys.len();
    let mut order: Vec<&CredentialIndex> = a.keys.keys().collect();
    // random rotation so it is not always the first credentials
    let rot = r.below(n as u64) as usize;
    order.rotate_left(rot);
    for (i, c) in order.into_iter().enumerate() {
        if i >= t && !r.chance(1, 4) { continue; }
        let ck = &a.keys[c];
        let ct = u8::from(a.acc.keys[c].threshold) as usize;
        let mut ks: Vec<&KeyIndex> = ck.keys().collect();
        let rot = r.below(ks.len() as u64) as usize;
        ks.rotate_left(rot);
        let m: BTreeMap<KeyIndex, KeyPair> = ks.into_iter().enumerate().filter(|(j, _)| *j < ct || r.chance(1, 4)).map(|(_, k)| (*k, ck[k].clone())).collect();
        out.insert(*c, m);
    }
    out
}

const MUTS: [&str; 21] = ["none", "none", "none", "none", "none", "none", "none", "none", "drop_key", "drop_cred", "unknown_cred", "unknown_key", "wrong_key_sig", "wrong_data_sig",
    "short_sig", "empty_sig", "long_sig", "empty_inner_map", "empty_map", "flip_sig_bit", "swap_sigs"];

fn mutate(r: &mut Rng, pool: &Pool, a: &Account, data: &[u8], sigs: &mut SigMap) -> &'static str {
    let m = *r.pick(&MUTS);
    let some_cred = |r: &mut Rng, sigs: &SigMap| -> Option<CredentialIndex> { let v: Vec<_> = sigs.keys().cloned().collect(); if v.is_empty() { None } else { Some(*r.pick(&v)) } };
    let some_key = |r: &mut Rng, sigs: &SigMap, c: CredentialIndex| -> Option<KeyIndex> { let v: Vec<_> = sigs[&c].keys().cloned().collect(); if v.is_empty() { None } else { Some(*r.pick(&v)) } };
    match m {
        "drop_key" => { if let Some(c) = some_cred(r, sigs) { if let Some(k) = some_key(r, sigs, c) { sigs.get_mut(&c).unwrap().remove(&k); if sigs[&c].is_empty() && r.chance(1, 2) { sigs.remove(&c); } } } }
        "drop_cred" => { if let Some(c) = some_cred(r, sigs) { sigs.remove(&c); } }
        "unknown_cred" => {
            let free: Vec<u8> = (0..=255u8).filter(|i| !a.acc.keys.contains_key(&ci(*i))).collect();
            if !free.is_empty() { let c = *r.pick(&free); let mut mm = BTreeMap::new(); mm.insert(KeyIndex(r.next() as u8), Signature::from(pool.at(c, 0).sign(data))); sigs.insert(ci(c), mm); }
        }
        "unknown_key" => { if let Some(c) = some_cred(r, sigs) { if let Some(ck) = a.acc.keys.get(&c) {
            let free: Vec<u8> = (0..=255u8).filter(|i| !ck.keys.contains_key(&KeyIndex(*i))).collect();
            if !free.is_empty() { let k = *r.pick(&free); sigs.get_mut(&c).unwrap().insert(KeyIndex(k), Signature::from(pool.at(c.index, k).sign(data))); } } } }
        "wrong_key_sig" => { if let Some(c) = some_cred(r, sigs) { if let Some(k) = some_key(r, sigs, c) { sigs.get_mut(&c).unwrap().insert(k, Signature::from(pool.other(c.index, k.0).sign(data))); } } }
        "wrong_data_sig" => { if let Some(c) = some_cred(r, sigs) { if let Some(k) = some_key(r, sigs, c) { let mut d = data.to_vec(); let l = d.len(); d[r.below(l as u64) as usize] ^= 1 << r.below(8); sigs.get_mut(&c).unwrap().insert(k, Signature::from(pool.at(c.index, k.0).sign(&d))); } } }
        "short_sig" => { if let Some(c) = some_cred(r, sigs) { if let Some(k) = some_key(r, sigs, c) { let s = sigs.get_mut(&c).unwrap().get_mut(&k).unwrap(); s.sig.pop(); } } }
        "empty_sig" => { if let Some(c) = some_cred(r, sigs) { if let Some(k) = some_key(r, sigs, c) { sigs.get_mut(&c).unwrap().get_mut(&k).unwrap().sig.clear(); } } }
        "long_sig" => { if let Some(c) = some_cred(r, sigs) { if let Some(k) = some_key(r, sigs, c) { sigs.get_mut(&c).unwrap().get_mut(&k).unwrap().sig.push(0); } } }
        "empty_inner_map" => { let v: Vec<_> = a.acc.keys.keys().cloned().collect(); let c = *r.pick(&v); sigs.insert(c, BTreeMap::new()); }
        "empty_map" => { sigs.clear(); }
        "flip_sig_bit" => { if let Some(c) = some_cred(r, sigs) { if let Some(k) = some_key(r, sigs, c) { let s = sigs.get_mut(&c).unwrap().get_mut(&k).unwrap(); if !s.sig.is_empty() { let l = s.sig.len(); s.sig[r.below(l as u64) as usize] ^= 1 << r.below(8); } } } }
        "swap_sigs" => { if let Some(c) = some_cred(r, sigs) { let v: Vec<_> = sigs[&c].keys().cloned().collect(); if v.len() >= 2 { let (k1, k2) = (v[0], v[v.len() - 1]); let m = sigs.get_mut(&c).unwrap(); let s1 = m[&k1].clone(); let s2 = m[&k2].clone(); m.insert(k1, s2); m.insert(k2, s1); } } }
        _ => {}
    }
    m
}

fn sign_with(keys: &BTreeMap<CredentialIndex, BTreeMap<KeyIndex, KeyPair>>, data: &[u8]) -> SigMap {
    keys.iter().map(|(c, m)| (*c, m.iter().map(|(k, kp)| (*k, Signature::from(kp.sign(data)))).collect())).collect()
}

fn acc_json(acc: &AccountAccessStructure) -> Value {
    json!({"t": u8::from(acc.threshold), "creds": acc.keys.iter().map(|(c, ck)| json!([c.index, u8::from(ck.threshold), ck.keys.keys().map(|k| k.0).collect::<Vec<_>>()])).collect::<Vec<_>>()})
}
fn sigs_json(acc: &AccountAccessStructure, data: &[u8], sigs: &SigMap) -> Value {
    json!(sigs.iter().map(|(c, m)| json!([c.index, m.iter().map(|(k, s)| json!([k.0, bit(acc, *c, *k, data, s)])).collect::<Vec<_>>()])).collect::<Vec<_>>())
}

fn rand_header(r: &mut Rng, payload_len: usize) -> TransactionHeader {
    TransactionHeader {
        sender: AccountAddress(<[u8; 32]>::try_from(r.bytes(32)).unwrap()),
        nonce: Nonce { nonce: r.u64_edge() },
        energy_amount: Energy { energy: r.u64_edge() },
        payload_size: tx::PayloadSize::from(payload_len as u32),
        expiry: TransactionTime { seconds: r.u64_edge() },
    }
}

fn samp(seed: u64, n: u64) {
    let mut r = Rng::new(seed);
    let pool = Pool::new(seed, 600);
    let mut muts: BTreeMap<&str, u64> = BTreeMap::new();
    let mut accept = 0u64;
    for i in 0..n {
        let a = gen_account(&mut r, &pool);
        if i % 3 != 2 {
            // hash-level: verify_signature_transaction_sign_hash on a random digest
            let data = r.bytes(32);
            let signer = sufficient_signer(&mut r, &a);
            let h = hashes::TransactionSignHash::new(<[u8; 32]>::try_from(data.clone()).unwrap());
            let mut sigs = signer.sign_transaction_hash(&h).signatures;
            let m = mutate(&mut r, &pool, &a, &data, &mut sigs);
            *muts.entry(m).or_default() += 1;
            let ts = TransactionSignature { signatures: sigs.clone() };
            let res = guarded(|| verify_signature_transaction_sign_hash(&a.acc, &h, &ts));
            if let Ok(true) = res { accept += 1; }
            println!("{}", a_line(&a.acc, &data, &sigs, &res));
        } else {
            // transaction-level: the library hashes header+payload, the bits are computed against an
            // independently recomputed digest
            let payload = EncodedPayload::try_from(rb(&mut r, 80, 1)).unwrap();
            let header = rand_header(&mut r, u32::from(payload.size()) as usize);
            let signer = sufficient_signer(&mut r, &a);
            let mut t = tx::sign_transaction(&signer, header, payload);
            let indep = sha(&[&to_bytes(&t.header), &to_bytes(&t.payload)]);
            let m = mutate(&mut r, &pool, &a, &indep, &mut t.signature.signatures);
            *muts.entry(m).or_default() += 1;
            let res = guarded(|| t.verify_transaction_signature(&a.acc));
            if let Ok(true) = res { accept += 1; }
            println!("{}", a_line(&a.acc, &indep, &t.signature.signatures, &res));
        }
        // v1: sender + optional sponsor, through the real AccountTransactionV1
        if i % 4 == 0 {
            let a = gen_account_sized(&mut r, &pool, true);
            let sp = gen_account_sized(&mut r, &pool, true);
            let payload = EncodedPayload::try_from(rb(&mut r, 60, 1)).unwrap();
            let h0 = rand_header(&mut r, u32::from(payload.size()) as usize);
            let hdr_sponsor = r.chance(3, 4);
            let header = TransactionHeaderV1 { sender: h0.sender, nonce: h0.nonce, energy_amount: h0.energy_amount, payload_size: h0.payload_size, expiry: h0.expiry,
                sponsor: if hdr_sponsor { Some(AccountAddress(<[u8; 32]>::try_from(r.bytes(32)).unwrap())) } else { None } };
            let lib_hash = compute_transaction_sign_hash_v1(&header, &payload);
            let prefix = { let mut p = [0u8; 32]; p[31] = 1; p };
            let indep = sha(&[&prefix, &to_bytes(&header), &to_bytes(&payload)]);
            let s_signer = sufficient_signer(&mut r, &a);
            let p_signer = sufficient_signer(&mut r, &sp);
            let mut ssig = s_signer.sign_transaction_hash(&lib_hash).signatures;
            let with_psig = if hdr_sponsor { r.chance(5, 6) } else { r.chance(1, 6) };
            let mut psig = if with_psig { Some(p_signer.sign_transaction_hash(&lib_hash).signatures) } else { None };
            let m1 = if r.chance(1, 3) { mutate(&mut r, &pool, &a, &indep, &mut ssig) } else { "none" };
            let m2 = match (&mut psig, r.chance(1, 3)) { (Some(p), true) => mutate(&mut r, &pool, &sp, &indep, p), _ => "none" };
            let t = AccountTransactionV1 { signatures: TransactionSignaturesV1 { sender: TransactionSignature { signatures: ssig.clone() },
                sponsor: psig.clone().map(|s| TransactionSignature { signatures: s }) }, header: header.clone(), payload: payload.clone() };
            let res = guarded(|| t.verify_transaction_signature(&a.acc, &sp.acc));
            let res2 = guarded(|| verify_signature_transaction_sign_hash_v1(&a.acc, &sp.acc, &lib_hash, &t.signatures));
            println!("{}", json!({"k":"v1","sender":acc_json(&a.acc),"sponsor":acc_json(&sp.acc),"ssig":sigs_json(&a.acc,&indep,&ssig),
                "psig": psig.as_ref().map(|p| sigs_json(&sp.acc,&indep,p)), "hdr_sponsor": hdr_sponsor, "mut":[m1,m2],
                "hash_ok": lib_hash.as_ref() == &indep[..], "r": res_char(&res), "r_hash": res_char(&res2)}));
        }
    }
    println!("{}", json!({"k":"samp_summary","mutations":muts,"accepted":accept,"n":n}));
}

// ------------------------------------------------------------------------------------------ builders
fn addr(r: &mut Rng) -> AccountAddress { AccountAddress(<[u8; 32]>::try_from(r.bytes(32)).unwrap()) }

fn small_account(r: &mut Rng, csprng: &mut StdRng) -> AccountKeys {
    let ncreds = r.range(1, 3) as u8;
    let mut keys = BTreeMap::new();
    for c in 0..ncreds {
        let nk = r.range(1, 3) as u8;
        let kk: BTreeMap<KeyIndex, KeyPair> = (0..nk).map(|k| (KeyIndex(k * 3 + c), KeyPair::generate(csprng))).collect();
        keys.insert(ci(c * 5), CredentialData { keys: kk, threshold: st(r.range(1, nk as u64) as u8) });
    }
    AccountKeys { keys, threshold: at(r.range(1, ncreds as u64) as u8) }
}

fn tsig_json(s: &TransactionSignature) -> Value {
    json!(s.signatures.iter().map(|(c, m)| json!([c.index, m.iter().map(|(k, s)| json!([k.0, hex(&s.sig)])).collect::<Vec<_>>()])).collect::<Vec<_>>())
}

fn header_json(h: &TransactionHeader) -> Value {
    json!({"sender": hex(&h.sender.0), "nonce": h.nonce.nonce.to_string(), "energy": h.energy_amount.energy.to_string(),
           "payload_size": u32::from(h.payload_size), "expiry": h.expiry.seconds.to_string()})
}

fn txmode(seed: u64, n: u64) {
    let mut r = Rng::new(seed);
    let mut csprng = StdRng::seed_from_u64(seed ^ 0x7711);
    let kinds = ["transfer", "transfer_with_memo", "transfer_with_schedule", "transfer_with_schedule_and_memo", "register_data",
        "deploy_module", "init_contract", "update_contract", "configure_baker", "configure_delegation", "remove_baker",
        "update_baker_stake", "update_baker_restake_earnings", "transfer_to_encrypted", "token_update_operations", "configure_baker_keys",
        "update_credential_keys", "update_credentials"];
    for i in 0..n {
        let kind = kinds[(i as usize) % kinds.len()];
        let ak = small_account(&mut r, &mut csprng);
        let acc = AccountAccessStructure::from(&ak);
        let sender = addr(&mut r);
        let nonce = Nonce { nonce: r.u64_edge() };
        let expiry = TransactionTime { seconds: r.u64_edge() };
        // num_sigs for construct::*: the signer's, or an arbitrary u32 (the formula must hold for any)
        let via_send = r.chance(1, 2);
        let num_sigs: u32 = if via_send { ak.num_keys() } else { *r.pick(&[0u32, 1, 2, 3, 255, 65536, u32::MAX]) };
        let mut params = json!({});
        // count / size parameters walk through their type boundaries deterministically (round = how often this kind came up)
        let round = (i as usize) / kinds.len();
        let at_b = |xs: &[usize], off: usize| -> usize { xs[(round + off) % xs.len()] };
        let built = guarded(|| -> construct::PreAccountTransaction { match kind {
            "transfer" => construct::transfer(num_sigs, sender, nonce, expiry, addr(&mut r), Amount::from_micro_ccd(r.u64_edge())),
            "transfer_with_memo" => { let ms = at_b(&[256, 0, 1, 255, 17], 0); params = json!({"memo_size": ms});
                let m = Memo::try_from(r.bytes(ms)).unwrap();
                construct::transfer_with_memo(num_sigs, sender, nonce, expiry, addr(&mut r), Amount::from_micro_ccd(r.u64_edge()), m) }
            "transfer_with_schedule" | "transfer_with_schedule_and_memo" => {
                // 180 * 364 = 65520 < 2^16 <= 181 * 364: the u16 boundary of the per-release cost
                let nr = at_b(&[181, 255, 1, 180, 182, 254, 0, 2, 179, 17], if kind == "transfer_with_schedule" { 0 } else { 1 });
                let sched: Vec<(Timestamp, Amount)> = (0..nr).map(|_| (Timestamp::from_timestamp_millis(r.u64_edge()), Amount::from_micro_ccd(r.u64_edge()))).collect();
                params = json!({"num_releases": nr});
                if kind == "transfer_with_schedule" { construct::transfer_with_schedule(num_sigs, sender, nonce, expiry, addr(&mut r), sched) }
                else { let m = Memo::try_from(rb(&mut r, 40, 0)).unwrap(); construct::transfer_with_schedule_and_memo(num_sigs, sender, nonce, expiry, addr(&mut r), sched, m) }
            }
            "register_data" => { let ds = at_b(&[256, 0, 1, 255, 100], 0); params = json!({"data_size": ds});
                construct::register_data(num_sigs, sender, nonce, expiry, RegisteredData::try_from(r.bytes(ds)).unwrap()) }
            "deploy_module" => { let sz = at_b(&[65536, 9, 10, 65535, 0, 1, 11, 99, 1000, 4097], 0);
                params = json!({"module_size": sz});
                let src: ModuleSource = r.bytes(sz).into();
                construct::deploy_module(num_sigs, sender, nonce, expiry, WasmModule { version: if r.chance(1, 2) { WasmVersion::V0 } else { WasmVersion::V1 }, source: src }) }
            "init_contract" => { let e = *r.pick(&[0u64, 1, 1000, 3_000_000, 1 << 40]); params = json!({"energy": e.to_string()});
                let p = tx::InitContractPayload { amount: Amount::from_micro_ccd(r.u64_edge()), mod_ref: ModuleReference::from(<[u8; 32]>::try_from(r.bytes(32)).unwrap()),
                    init_name: OwnedContractName::new(format!("init_c{}", r.below(1000))).unwrap(), param: OwnedParameter::try_from(rb(&mut r, 100, 0)).unwrap() };
                construct::init_contract(num_sigs, sender, nonce, expiry, p, Energy { energy: e }) }
            "update_contract" => { let e = *r.pick(&[0u64, 1, 1000, 3_000_000, 1 << 40]); params = json!({"energy": e.to_string()});
                let p = tx::UpdateContractPayload { amount: Amount::from_micro_ccd(r.u64_edge()), address: ContractAddress::new(r.u64_edge(), r.u64_edge()),
                    receive_name: OwnedReceiveName::new(format!("c{}.f{}", r.below(100), r.below(100))).unwrap(), message: OwnedParameter::try_from(rb(&mut r, 100, 0)).unwrap() };
                construct::update_contract(num_sigs, sender, nonce, expiry, p, Energy { energy: e }) }
            "configure_baker" => { params = json!({"with_keys": false});
                let mut p = tx::ConfigureBakerPayload::new();
                if r.chance(1, 2) { p.set_capital(Amount::from_micro_ccd(r.u64_edge())); }
                if r.chance(1, 2) { p.set_restake_earnings(r.chance(1, 2)); }
                if r.chance(1, 2) { p.set_suspend(r.chance(1, 2)); }
                construct::configure_baker(num_sigs, sender, nonce, expiry, p) }
            "configure_baker_keys" => { params = json!({"with_keys": true});
                let mut p = tx::ConfigureBakerPayload::new();
                let bk = concordium_base::base::BakerKeyPairs::generate(&mut csprng);
                p.add_keys(&bk, sender, &mut csprng);
                construct::configure_baker(num_sigs, sender, nonce, expiry, p) }
            "configure_delegation" => { let mut p = tx::ConfigureDelegationPayload::new();
                if r.chance(1, 2) { p.set_capital(Amount::from_micro_ccd(r.u64_edge())); }
                if r.chance(1, 2) { p.set_restake_earnings(r.chance(1, 2)); }
                construct::configure_delegation(num_sigs, sender, nonce, expiry, p) }
            "remove_baker" => construct::remove_baker(num_sigs, sender, nonce, expiry),
            "update_baker_stake" => construct::update_baker_stake(num_sigs, sender, nonce, expiry, Amount::from_micro_ccd(r.u64_edge())),
            "update_baker_restake_earnings" => construct::update_baker_restake_earnings(num_sigs, sender, nonce, expiry, r.chance(1, 2)),
            "transfer_to_encrypted" => construct::transfer_to_encrypted(num_sigs, sender, nonce, expiry, Amount::from_micro_ccd(r.u64_edge())),
            "update_credential_keys" => {
                use concordium_base::curve_arithmetic::Curve;
                let nex = at_b(&[65535, 0, 1, 255, 256, 131], 0) as u16;
                let nk = at_b(&[255, 1, 2, 3, 254], 0);
                params = json!({"num_existing": nex, "num_keys": nk});
                let kis = distinct_u8(&mut r, nk);
                let kp = KeyPair::generate(&mut csprng);
                let keys: BTreeMap<KeyIndex, VerifyKey> = kis.iter().map(|&k| (KeyIndex(k), VerifyKey::from(&kp))).collect();
                let cid = concordium_base::base::CredentialRegistrationID::new(concordium_base::id::constants::ArCurve::one_point());
                construct::update_credential_keys(num_sigs, sender, nonce, expiry, nex, cid, CredentialPublicKeys { keys, threshold: st(1) })
            }
            "update_credentials" => {
                use concordium_base::curve_arithmetic::Curve;
                // no new credentials (they need full identity proofs): exercises the num_existing_credentials term and the base
                let nex = at_b(&[65535, 0, 1, 255, 256, 131], 0) as u16;
                params = json!({"num_existing": nex, "num_cred_keys": Vec::<u16>::new()});
                let cid = concordium_base::base::CredentialRegistrationID::new(concordium_base::id::constants::ArCurve::one_point());
                let rem = if r.chance(1, 2) { vec![cid] } else { vec![] };
                construct::update_credentials(num_sigs, sender, nonce, expiry, nex, BTreeMap::new(), rem, at(r.range(1, 255) as u8))
            }
            _ => {
                use concordium_base::protocol_level_tokens::{operations as ops, TokenAmount, TokenId, TokenOperations};
                let nops = r.below(6) as usize;
                let mut names = Vec::new();
                let mut v = Vec::new();
                for _ in 0..nops {
                    let a = TokenAmount::from_raw(r.u64_edge(), r.below(10) as u8);
                    let (nm, op) = match r.below(9) {
                        0 => ("Transfer", ops::transfer_tokens(addr(&mut r), a)), 1 => ("Mint", ops::mint_tokens(a)), 2 => ("Burn", ops::burn_tokens(a)),
                        3 => ("AddAllowList", ops::add_token_allow_list(addr(&mut r))), 4 => ("RemoveAllowList", ops::remove_token_allow_list(addr(&mut r))),
                        5 => ("AddDenyList", ops::add_token_deny_list(addr(&mut r))), 6 => ("RemoveDenyList", ops::remove_token_deny_list(addr(&mut r))),
                        7 => ("Pause", ops::pause()), _ => ("Unpause", ops::unpause()) };
                    names.push(nm); v.push(op);
                }
                params = json!({"ops": names});
                let tid = TokenId::try_from(format!("TK{}", r.below(1000))).unwrap();
                construct::token_update_operations(num_sigs, sender, nonce, expiry, tid, v.into_iter().collect::<TokenOperations>()).unwrap()
            }
        } });
        let kind_name = if kind == "configure_baker_keys" { "configure_baker" } else { kind };
        let pre = match built {
            Ok(p) => p,
            Err(e) => {
                // a panic inside a builder (e.g. arithmetic overflow in the energy computation under overflow checks)
                println!("{}", json!({"k":"tx_panic","kind":kind_name,"params":params,"num_sigs":num_sigs,"panic":e}));
                continue;
            }
        };
        let header_bytes = to_bytes(&pre.header);
        let payload_bytes = pre.encoded.clone();
        let payload_raw: Vec<u8> = to_bytes(&payload_bytes);
        let structured = to_bytes(&pre.payload);
        let indep = sha(&[&header_bytes, &payload_raw]);
        // sign with the account's own signer and check
        let signed: AccountTransaction<EncodedPayload> = pre.clone().sign(&ak);
        let verifies = guarded(|| signed.verify_transaction_signature(&acc));
        let nsigs_made = signed.signature.num_signatures();
        let tx_bytes = to_bytes(&signed);
        let bi = BlockItem::AccountTransaction(signed.clone());
        let bi_bytes = to_bytes(&bi);
        let bi_hash = bi.hash();
        let sigs_valid_indep = signed.signature.signatures.iter().all(|(c, m)| m.iter().all(|(k, s)| bit(&acc, *c, *k, &indep, s) == 1));
        // the structured payload re-decodes from the declared size
        let decoded_ok = pre.encoded.decode().map(|p| to_bytes(&p) == structured).unwrap_or(false);
        println!("{}", json!({"k":"tx","kind":kind_name,"params":params,"num_sigs":num_sigs,"via_send":via_send,
            "header":header_json(&pre.header),"header_bytes":hex(&header_bytes),"payload":hex(&payload_raw),
            "payload_matches_structured": payload_raw == structured, "decoded_ok": decoded_ok,
            "sign_hash":hex(pre.hash_to_sign.as_ref()),"sha_indep":hex(&indep),
            "sigs":tsig_json(&signed.signature),"nsigs_made":nsigs_made,"signer_num_keys":ak.num_keys(),
            "verifies":res_char(&verifies),"sigs_valid_indep":sigs_valid_indep,
            "tx_bytes_sha":hex(&sha(&[&tx_bytes])),"bi_sha_indep":hex(&sha(&[&bi_bytes])),"bi_hash":hex(bi_hash.as_ref()),
            "bi_first_byte": bi_bytes[0]}));
        // send::* must equal construct::*(num_keys).sign for a few kinds
        if i % 8 == 0 {
            let rcv = addr(&mut r);
            let amt = Amount::from_micro_ccd(r.u64_edge());
            let s1 = send::transfer(&ak, sender, nonce, expiry, rcv, amt);
            let s2 = construct::transfer(ak.num_keys(), sender, nonce, expiry, rcv, amt).sign(&ak);
            println!("{}", json!({"k":"send_eq","ok": to_bytes(&s1) == to_bytes(&s2), "energy": s1.header.energy_amount.energy.to_string(),
                "payload_size": u32::from(s1.header.payload_size), "nsigs": s1.signature.num_signatures(), "num_keys": ak.num_keys(),
                "verifies": res_char(&guarded(|| s1.verify_transaction_signature(&acc)))}));
        }
        // sponsored v1 on top of the same pre-transaction
        if i % 2 == 0 {
            let sp = small_account(&mut r, &mut csprng);
            let sp_acc = AccountAccessStructure::from(&sp);
            let sp_addr = addr(&mut r);
            let nsp: u32 = if r.chance(1, 2) { sp.num_keys() } else { *r.pick(&[0u32, 1, 7, 65536]) };
            let mut v1 = pre.clone().extend();
            let e_ext = v1.header.energy_amount.energy;
            let hb_ext = to_bytes(&v1.header);
            let h_ext = hex(v1.hash_to_sign.as_ref());
            v1.add_sponsor(sp_addr, nsp).unwrap();
            let again = v1.add_sponsor(sp_addr, nsp).is_err();
            let hb = to_bytes(&v1.header);
            let prefix = { let mut p = [0u8; 32]; p[31] = 1; p };
            let indep1 = sha(&[&prefix, &hb, &payload_raw]);
            v1.sign(&ak);
            v1.sponsor(&sp).unwrap();
            let fin = v1.finalize().unwrap();
            let ver = guarded(|| fin.verify_transaction_signature(&acc, &sp_acc));
            let bi1 = BlockItem::AccountTransactionV1(fin.clone());
            let bi1_bytes = to_bytes(&bi1);
            println!("{}", json!({"k":"v1tx","base_energy":pre.header.energy_amount.energy.to_string(),"ext_energy":e_ext.to_string(),
                "energy":fin.header.energy_amount.energy.to_string(),"num_sponsor_sigs":nsp,"second_add_sponsor_rejected":again,
                "header":header_json(&pre.header),"sponsor":hex(&sp_addr.0),"ext_header_bytes":hex(&hb_ext),"ext_sign_hash":h_ext,
                "ext_sha_indep":hex(&sha(&[&prefix,&hb_ext,&payload_raw])),
                "header_bytes":hex(&hb),"payload":hex(&payload_raw),"sign_hash":hex(v1.hash_to_sign.as_ref()),"sha_indep":hex(&indep1),
                "ssig":tsig_json(&fin.signatures.sender),"psig":tsig_json(fin.signatures.sponsor.as_ref().unwrap()),
                "verifies":res_char(&ver),"bi_sha_indep":hex(&sha(&[&bi1_bytes])),"bi_hash":hex(bi1.hash().as_ref())}));
        }
    }
}

// ------------------------------------------------------------------------------------------ perturbations
fn rb(r: &mut Rng, max: u64, plus: usize) -> Vec<u8> { let n = r.below(max) as usize + plus; r.bytes(n) }
fn flip(r: &mut Rng, v: &mut [u8]) { if !v.is_empty() { let l = v.len(); v[r.below(l as u64) as usize] ^= 1 << r.below(8); } }

fn pert(seed: u64, n: u64) {
    let mut r = Rng::new(seed);
    let mut csprng = StdRng::seed_from_u64(seed ^ 0x5151);
    for _ in 0..n {
        let ak = small_account(&mut r, &mut csprng);
        let acc = AccountAccessStructure::from(&ak);
        let payload = EncodedPayload::try_from(rb(&mut r, 60, 1)).unwrap();
        let header = rand_header(&mut r, u32::from(payload.size()) as usize);
        let base = tx::sign_transaction(&ak, header.clone(), payload.clone());
        let base_ok = base.verify_transaction_signature(&acc);
        let mut out: Vec<(String, bool)> = Vec::new();
        let mut chk = |name: &str, t: &AccountTransaction<EncodedPayload>, a: &AccountAccessStructure| {
            let rej = matches!(guarded(|| t.verify_transaction_signature(a)), Ok(false));
            out.push((name.to_string(), rej));
        };
        // header fields
        { let mut t = base.clone(); flip(&mut r, &mut t.header.sender.0); chk("header.sender", &t, &acc); }
        { let mut t = base.clone(); t.header.nonce.nonce ^= 1 << r.below(64); chk("header.nonce", &t, &acc); }
        { let mut t = base.clone(); t.header.energy_amount.energy ^= 1 << r.below(64); chk("header.energy", &t, &acc); }
        { let mut t = base.clone(); t.header.payload_size = tx::PayloadSize::from(u32::from(t.header.payload_size) ^ (1 << r.below(32))); chk("header.payload_size", &t, &acc); }
        { let mut t = base.clone(); t.header.expiry.seconds ^= 1 << r.below(64); chk("header.expiry", &t, &acc); }
        // payload
        { let mut b = to_bytes(&base.payload); flip(&mut r, &mut b); let mut t = base.clone(); t.payload = EncodedPayload::try_from(b).unwrap(); chk("payload.bit", &t, &acc); }
        { let mut b = to_bytes(&base.payload); b.push(r.next() as u8); let mut t = base.clone(); t.payload = EncodedPayload::try_from(b).unwrap(); chk("payload.append", &t, &acc); }
        { let mut b = to_bytes(&base.payload); b.pop(); let mut t = base.clone(); t.payload = EncodedPayload::try_from(b).unwrap(); chk("payload.truncate", &t, &acc); }
        { let mut b = to_bytes(&base.payload); b.insert(0, 0); let mut t = base.clone(); t.payload = EncodedPayload::try_from(b).unwrap(); chk("payload.prepend", &t, &acc); }
        // moving a byte across the header/payload boundary keeps the concatenation's length but not its content
        // signature map
        let first_c = *base.signature.signatures.keys().next().unwrap();
        let first_k = *base.signature.signatures[&first_c].keys().next().unwrap();
        { let mut t = base.clone(); let s = t.signature.signatures.get_mut(&first_c).unwrap().get_mut(&first_k).unwrap(); let p = r.below(32) as usize; s.sig[p] ^= 1 << r.below(8); chk("sig.R_bit", &t, &acc); }
        { let mut t = base.clone(); let s = t.signature.signatures.get_mut(&first_c).unwrap().get_mut(&first_k).unwrap(); let p = 32 + r.below(32) as usize; s.sig[p] ^= 1 << r.below(8); chk("sig.S_bit", &t, &acc); }
        { let mut t = base.clone(); t.signature.signatures.get_mut(&first_c).unwrap().remove(&first_k);
          if t.signature.signatures[&first_c].is_empty() { t.signature.signatures.remove(&first_c); } chk("sig.remove_required", &t, &acc); }
        { let mut t = base.clone(); let m = t.signature.signatures.get_mut(&first_c).unwrap(); let s = m.remove(&first_k).unwrap(); m.insert(KeyIndex(first_k.0.wrapping_add(1)), s); chk("sig.move_key_index", &t, &acc); }
        { let mut t = base.clone(); let m = t.signature.signatures.remove(&first_c).unwrap(); t.signature.signatures.insert(ci(first_c.index.wrapping_add(1)), m); chk("sig.move_cred_index", &t, &acc); }
        { let mut t = base.clone(); let other = KeyPair::generate(&mut csprng); let h = compute_transaction_sign_hash(&t.header, &t.payload);
          t.signature.signatures.get_mut(&first_c).unwrap().insert(first_k, Signature::from(other.sign(h.as_ref()))); chk("sig.by_other_key", &t, &acc); }
        { let mut t = base.clone(); let mut m = BTreeMap::new(); m.insert(KeyIndex(0), base.signature.signatures[&first_c][&first_k].clone());
          let free = (0..=255u8).find(|i| !acc.keys.contains_key(&ci(*i))).unwrap(); t.signature.signatures.insert(ci(free), m); chk("sig.extra_unknown_credential", &t, &acc); }
        { let mut t = base.clone(); let free = (0..=255u8).find(|i| !acc.keys[&first_c].keys.contains_key(&KeyIndex(*i))).unwrap();
          let s = base.signature.signatures[&first_c][&first_k].clone(); t.signature.signatures.get_mut(&first_c).unwrap().insert(KeyIndex(free), s); chk("sig.extra_unknown_key", &t, &acc); }
        // key set
        { let mut a = acc.clone(); let other = KeyPair::generate(&mut csprng); a.keys.get_mut(&first_c).unwrap().keys.insert(first_k, VerifyKey::from(&other)); chk("keys.replace_key", &base, &a); }
        { let mut a = acc.clone(); a.keys.get_mut(&first_c).unwrap().keys.remove(&first_k); chk("keys.remove_key", &base, &a); }
        { let mut a = acc.clone(); a.keys.remove(&first_c); chk("keys.remove_credential", &base, &a); }
        { let mut a = acc.clone(); let nsig = base.signature.signatures.len() as u8; a.threshold = at(nsig + 1); chk("keys.account_threshold_above", &base, &a); }
        { let mut a = acc.clone(); let nsig = base.signature.signatures[&first_c].len() as u8; a.keys.get_mut(&first_c).unwrap().threshold = st(nsig + 1); chk("keys.cred_threshold_above", &base, &a); }
        { let mut a = acc.clone(); let ck = a.keys.remove(&first_c).unwrap(); a.keys.insert(ci(first_c.index.wrapping_add(1)), ck); chk("keys.move_credential", &base, &a); }
        drop(chk);
        // non-perturbations that must still verify (the policy is "at least", not "exactly")
        let extra_ok = {
            let all: BTreeMap<CredentialIndex, BTreeMap<KeyIndex, KeyPair>> = ak.keys.iter().map(|(c, cd)| (*c, cd.keys.clone())).collect();
            let t = tx::sign_transaction(&all, header.clone(), payload.clone());
            t.verify_transaction_signature(&acc)
        };
        println!("{}", json!({"k":"pert","v":0,"base_ok":base_ok,"all_keys_sign_ok":extra_ok,"rejected":out.iter().map(|(a,b)| json!([a,b])).collect::<Vec<_>>()}));

        // ---- v1 ----
        let sp = small_account(&mut r, &mut csprng);
        let sp_acc = AccountAccessStructure::from(&sp);
        let h1 = TransactionHeaderV1 { sender: header.sender, nonce: header.nonce, energy_amount: header.energy_amount, payload_size: header.payload_size, expiry: header.expiry, sponsor: Some(addr(&mut r)) };
        let hash = compute_transaction_sign_hash_v1(&h1, &payload);
        let base1 = AccountTransactionV1 { signatures: TransactionSignaturesV1 { sender: ak.sign_transaction_hash(&hash), sponsor: Some(sp.sign_transaction_hash(&hash)) }, header: h1.clone(), payload: payload.clone() };
        let base1_ok = base1.verify_transaction_signature(&acc, &sp_acc);
        let mut out1: Vec<(String, bool)> = Vec::new();
        let mut chk1 = |name: &str, t: &AccountTransactionV1<EncodedPayload>, a: &AccountAccessStructure, s: &AccountAccessStructure| {
            let rej = matches!(guarded(|| t.verify_transaction_signature(a, s)), Ok(false));
            out1.push((name.to_string(), rej));
        };
        { let mut t = base1.clone(); let mut s = t.header.sponsor.unwrap(); flip(&mut r, &mut s.0); t.header.sponsor = Some(s); chk1("v1.header.sponsor_bit", &t, &acc, &sp_acc); }
        { let mut t = base1.clone(); t.header.sponsor = None; chk1("v1.header.sponsor_removed", &t, &acc, &sp_acc); }
        { let mut t = base1.clone(); flip(&mut r, &mut t.header.sender.0); chk1("v1.header.sender", &t, &acc, &sp_acc); }
        { let mut t = base1.clone(); t.header.energy_amount.energy ^= 1 << r.below(64); chk1("v1.header.energy", &t, &acc, &sp_acc); }
        { let mut b = to_bytes(&base1.payload); flip(&mut r, &mut b); let mut t = base1.clone(); t.payload = EncodedPayload::try_from(b).unwrap(); chk1("v1.payload.bit", &t, &acc, &sp_acc); }
        { let mut t = base1.clone(); let sg = t.signatures.sponsor.as_mut().unwrap(); let c = *sg.signatures.keys().next().unwrap(); let k = *sg.signatures[&c].keys().next().unwrap();
          sg.signatures.get_mut(&c).unwrap().get_mut(&k).unwrap().sig[r.below(64) as usize] ^= 1 << r.below(8); chk1("v1.sponsor_sig.bit", &t, &acc, &sp_acc); }
        { let mut t = base1.clone(); let sg = &mut t.signatures.sender; let c = *sg.signatures.keys().next().unwrap(); let k = *sg.signatures[&c].keys().next().unwrap();
          sg.signatures.get_mut(&c).unwrap().get_mut(&k).unwrap().sig[r.below(64) as usize] ^= 1 << r.below(8); chk1("v1.sender_sig.bit", &t, &acc, &sp_acc); }
        { let other = small_account(&mut r, &mut csprng); chk1("v1.sponsor_keys_replaced", &base1, &acc, &AccountAccessStructure::from(&other)); }
        { let mut t = base1.clone(); t.signatures.sponsor = Some(base1.signatures.sender.clone()); let _ = &mut t; chk1("v1.sponsor_sig_is_sender_sig", &t, &acc, &sp_acc); }
        { let mut t = base1.clone(); std::mem::swap(&mut t.signatures.sender, t.signatures.sponsor.as_mut().unwrap()); chk1("v1.sigs_swapped", &t, &acc, &sp_acc); }
        // a v0 signature over the same fields must not verify as v1 and vice versa (domain separation)
        { let t0 = tx::sign_transaction(&ak, header.clone(), payload.clone());
          let t = AccountTransactionV1 { signatures: TransactionSignaturesV1 { sender: t0.signature.clone(), sponsor: None },
              header: TransactionHeaderV1 { sponsor: None, ..h1.clone() }, payload: payload.clone() };
          chk1("v1.v0_signature_reused", &t, &acc, &sp_acc); }
        drop(chk1);
        // the sponsor signature removed while the header still names the sponsor (was KF-C06-1; must be rejected)
        let dropped = { let mut t = base1.clone(); t.signatures.sponsor = None; matches!(guarded(|| t.verify_transaction_signature(&acc, &sp_acc)), Ok(false)) };
        // the same shape at hash level (verify_signature_transaction_sign_hash_v1 cannot see the header): informational
        let dropped_hash_level = { let mut sg = base1.signatures.clone(); sg.sponsor = None; res_char(&guarded(|| verify_signature_transaction_sign_hash_v1(&acc, &sp_acc, &hash, &sg))) };
        // the converse shape: the header names NO sponsor but a sponsor signature is supplied, made over the
        // hash of that very header; it is checked against the sponsor keys the caller passes
        let h_none = TransactionHeaderV1 { sponsor: None, ..h1.clone() };
        let hash_none = compute_transaction_sign_hash_v1(&h_none, &payload);
        let conv = AccountTransactionV1 { signatures: TransactionSignaturesV1 { sender: ak.sign_transaction_hash(&hash_none), sponsor: Some(sp.sign_transaction_hash(&hash_none)) }, header: h_none.clone(), payload: payload.clone() };
        let conv_ok = res_char(&guarded(|| conv.verify_transaction_signature(&acc, &sp_acc)));
        let conv_wrong_keys = res_char(&guarded(|| conv.verify_transaction_signature(&acc, &acc)));
        let conv_stale_sig = { let mut t = conv.clone(); t.signatures.sponsor = base1.signatures.sponsor.clone(); res_char(&guarded(|| t.verify_transaction_signature(&acc, &sp_acc))) };
        let plain_ok = { let mut t = conv.clone(); t.signatures.sponsor = None; res_char(&guarded(|| t.verify_transaction_signature(&acc, &sp_acc))) };
        println!("{}", json!({"k":"pert","v":1,"base_ok":base1_ok,"rejected":out1.iter().map(|(a,b)| json!([a,b])).collect::<Vec<_>>(),
            "sponsor_sig_dropped_rejected":dropped,"sponsor_sig_dropped_hash_level":dropped_hash_level,
            "converse_signed":conv_ok,"converse_wrong_sponsor_keys":conv_wrong_keys,"converse_stale_sponsor_sig":conv_stale_sig,"unsponsored_v1":plain_ok}));
    }
}

// ------------------------------------------------------------------------------------------ updates
fn uthr(t: u16) -> UpdateKeysThreshold { UpdateKeysThreshold::try_from(t).unwrap() }

fn gen_access(r: &mut Rng, nkeys: usize) -> AccessStructure {
    let k = if nkeys == 0 { 0 } else { r.range(1, nkeys.min(12) as u64) as usize };
    let mut s = BTreeSet::new();
    while s.len() < k { s.insert(UpdateKeysIndex { index: r.below(nkeys as u64) as u16 }); }
    if r.chance(1, 10) { s.insert(UpdateKeysIndex { index: nkeys as u16 + r.below(3) as u16 }); } // an index beyond the key list
    let t = match r.below(5) { 0 => 1, 1 => s.len().max(1) as u16, 2 => s.len() as u16 + 1, _ => r.range(1, s.len().max(1) as u64) as u16 };
    AccessStructure { authorized_keys: s, threshold: uthr(t) }
}

fn upd(seed: u64, n: u64) {
    let mut r = Rng::new(seed);
    let mut csprng = StdRng::seed_from_u64(seed ^ 0xABCD);
    let kpool: Vec<UpdateKeyPair> = (0..40).map(|_| UpdateKeyPair::generate(&mut csprng)).collect();
    let id_of = |pk: &UpdatePublicKey| -> u64 { kpool.iter().position(|k| &UpdatePublicKey::from(k) == pk).map(|i| i as u64 + 100).unwrap_or(99) };
    // deterministic prefix: n keys, every access structure = all n keys with threshold t in {1, n-1, n, n+1}, m signers
    let mut det: Vec<(usize, u16, usize)> = Vec::new();
    for nn in 1..=3usize { let mut ts: Vec<u16> = vec![1, (nn as u16).saturating_sub(1).max(1), nn as u16, nn as u16 + 1]; ts.sort(); ts.dedup();
        for t in ts { for m in 0..=nn { det.push((nn, t, m)); } } }
    for i in 0..n {
        let dc = det.get(i as usize).cloned();
        let nkeys = match dc { Some((nn, _, _)) => nn, None => *r.pick(&[1usize, 2, 3, 5, 8, 13, 20]) };
        // the key list may contain the same public key twice (position() then finds the first)
        let key_ix: Vec<usize> = match dc { Some((nn, _, _)) => (0..nn).map(|j| (j + i as usize) % 30).collect(),
            None => (0..nkeys).map(|_| { let m = if r.chance(1, 6) { 4 } else { 30 }; r.below(m) as usize }).collect() };
        let keys: Vec<UpdatePublicKey> = key_ix.iter().map(|&j| UpdatePublicKey::from(&kpool[j])).collect();
        let mk = |r: &mut Rng| match dc {
            Some((nn, t, _)) => AccessStructure { authorized_keys: (0..nn as u16).map(|index| UpdateKeysIndex { index }).collect(), threshold: uthr(t) },
            None => gen_access(r, nkeys) };
        let v0 = AuthorizationsV0 { keys: keys.clone(), emergency: mk(&mut r), protocol: mk(&mut r), election_difficulty: mk(&mut r), euro_per_energy: mk(&mut r),
            micro_gtu_per_euro: mk(&mut r), foundation_account: mk(&mut r), mint_distribution: mk(&mut r), transaction_fee_distribution: mk(&mut r),
            param_gas_rewards: mk(&mut r), pool_parameters: mk(&mut r), add_anonymity_revoker: mk(&mut r), add_identity_provider: mk(&mut r) };
        let use_v1 = i % 2 == 1;
        let v1 = AuthorizationsV1 { v0: v0.clone(), cooldown_parameters: mk(&mut r), time_parameters: mk(&mut r), create_plt: if dc.is_some() || r.chance(1, 2) { Some(mk(&mut r)) } else { None } };
        // ---- serialization round trip of the key collections, inside root / level-1 key-update payloads
        if dc.is_some() || i % 4 == 0 {
            let st_of = |a: &AccessStructure| json!([a.authorized_keys.len(), u16::from(a.threshold)]);
            let v0_structs = |v: &AuthorizationsV0| vec![st_of(&v.emergency), st_of(&v.protocol), st_of(&v.election_difficulty), st_of(&v.euro_per_energy), st_of(&v.micro_gtu_per_euro),
                st_of(&v.foundation_account), st_of(&v.mint_distribution), st_of(&v.transaction_fee_distribution), st_of(&v.param_gas_rewards), st_of(&v.pool_parameters),
                st_of(&v.add_anonymity_revoker), st_of(&v.add_identity_provider)];
            let hl_t = match dc { Some((_, t, _)) => t, None => *r.pick(&[1u16, nkeys as u16, nkeys as u16 + 1, (nkeys as u16).saturating_sub(1).max(1)]) };
            let hl_root = updates::HigherLevelAccessStructure::<updates::RootKeysKind> { keys: keys.clone(), threshold: uthr(hl_t), _phantom: Default::default() };
            let hl_l1 = updates::HigherLevelAccessStructure::<updates::Level1KeysKind> { keys: keys.clone(), threshold: uthr(hl_t), _phantom: Default::default() };
            let v1_none = AuthorizationsV1 { create_plt: None, ..v1.clone() };
            let v1_some = AuthorizationsV1 { create_plt: Some(v1.create_plt.clone().unwrap_or_else(|| v1.time_parameters.clone())), ..v1.clone() };
            let mut s1 = v0_structs(&v0); s1.push(st_of(&v1.cooldown_parameters)); s1.push(st_of(&v1.time_parameters));
            let mut s2 = s1.clone(); s2.push(st_of(v1_some.create_plt.as_ref().unwrap()));
            let hl_s = vec![json!([keys.len(), hl_t])];
            let shapes: Vec<(&str, UpdatePayload, Vec<Value>)> = vec![
                ("root.RootKeysUpdate", UpdatePayload::Root(updates::RootUpdate::RootKeysUpdate(hl_root.clone())), hl_s.clone()),
                ("root.Level1KeysUpdate", UpdatePayload::Root(updates::RootUpdate::Level1KeysUpdate(hl_l1.clone())), hl_s.clone()),
                ("root.Level2KeysUpdate", UpdatePayload::Root(updates::RootUpdate::Level2KeysUpdate(Box::new(v0.clone()))), v0_structs(&v0)),
                ("root.Level2KeysUpdateV1", UpdatePayload::Root(updates::RootUpdate::Level2KeysUpdateV1(Box::new(v1_none.clone()))), s1.clone()),
                ("root.Level2KeysUpdateV2", UpdatePayload::Root(updates::RootUpdate::Level2KeysUpdateV2(Box::new(v1_some.clone()))), s2.clone()),
                ("level1.Level1KeysUpdate", UpdatePayload::Level1(updates::Level1Update::Level1KeysUpdate(hl_l1.clone())), hl_s.clone()),
                ("level1.Level2KeysUpdate", UpdatePayload::Level1(updates::Level1Update::Level2KeysUpdate(Box::new(v0.clone()))), v0_structs(&v0)),
                ("level1.Level2KeysUpdateV1", UpdatePayload::Level1(updates::Level1Update::Level2KeysUpdateV1(Box::new(v1_none.clone()))), s1.clone()),
                ("level1.Level2KeysUpdateV2", UpdatePayload::Level1(updates::Level1Update::Level2KeysUpdateV2(Box::new(v1_some.clone()))), s2.clone()),
            ];
            for (name, payload, structs) in shapes {
                // sign it (any key signs: this is about building and reading the instruction back), then read it back
                let mut signer = BTreeMap::new();
                signer.insert(UpdateKeysIndex { index: 0 }, kpool[key_ix[0]].clone());
                let res = guarded(|| {
                    let ui: UpdateInstruction = updates::update::update(&signer, UpdateSequenceNumber::from(1u64), TransactionTime { seconds: 0 }, TransactionTime { seconds: 1 }, payload.clone());
                    let raw = to_bytes(&ui);
                    let back: Result<UpdateInstruction, _> = concordium_base::common::from_bytes(&mut std::io::Cursor::new(&raw));
                    let instr_rt = back.as_ref().map(|b| to_bytes(b) == raw).unwrap_or(false);
                    let dec = ui.payload.decode();
                    let reenc = dec.as_ref().map(|p| to_bytes(p) == to_bytes(&ui.payload)).unwrap_or(false);
                    (instr_rt, dec.is_ok(), reenc, to_bytes(&ui.payload) == to_bytes(&payload))
                });
                match res {
                    Ok((instr_rt, dec_ok, reenc, enc_eq)) => println!("{}", json!({"k":"asrt","shape":name,"structs":structs,"instruction_roundtrip":instr_rt,
                        "decode_ok":dec_ok,"reencode_eq":reenc,"payload_is_encoding":enc_eq,"det":dc.is_some()})),
                    Err(e) => println!("{}", json!({"k":"asrt","shape":name,"structs":structs,"panic":e})),
                }
            }
        }
        let (field, acc_s): (&str, AccessStructure) = match r.below(if use_v1 { 8 } else { 5 }) {
            0 => ("protocol", v0.protocol.clone()), 1 => ("foundation_account", v0.foundation_account.clone()), 2 => ("pool_parameters", v0.pool_parameters.clone()),
            3 => ("emergency", v0.emergency.clone()), 4 => ("euro_per_energy", v0.euro_per_energy.clone()),
            5 => ("cooldown_parameters", v1.cooldown_parameters.clone()), 6 => ("time_parameters", v1.time_parameters.clone()),
            _ => ("create_plt", v1.create_plt.clone().unwrap_or_else(|| v1.time_parameters.clone())) };
        // the signing key pairs: mostly authorised ones, sometimes an unauthorised / unknown / duplicate one
        let auth: Vec<usize> = acc_s.authorized_keys.iter().filter(|x| (x.index as usize) < nkeys).map(|x| key_ix[x.index as usize]).collect();
        let want = if let Some((_, _, m)) = dc { m } else { match r.below(4) { 0 => u16::from(acc_s.threshold) as usize, 1 => auth.len(), 2 => (u16::from(acc_s.threshold) as usize).saturating_sub(1), _ => r.below(auth.len() as u64 + 1) as usize } };
        let mut actual: Vec<usize> = auth.iter().cloned().take(want).collect();
        match if dc.is_some() { 7 } else { r.below(8) } { 0 => actual.push(35 + r.below(5) as usize), 1 => { if let Some(&x) = actual.first() { actual.push(x); } }
            2 => { let unauth: Vec<usize> = (0..nkeys).filter(|j| !acc_s.authorized_keys.contains(&UpdateKeysIndex { index: *j as u16 })).map(|j| key_ix[j]).collect(); if !unauth.is_empty() { actual.push(*r.pick(&unauth)); } }
            _ => {} }
        let actual_kps: Vec<UpdateKeyPair> = actual.iter().map(|&j| kpool[j].clone()).collect();
        let signer = guarded(|| if use_v1 { v1.construct_update_signer(&acc_s, actual_kps.clone()) } else { v0.construct_update_signer(&acc_s, actual_kps.clone()) });
        let keys_ids: Vec<u64> = keys.iter().map(|k| id_of(k)).collect();
        let actual_ids: Vec<u64> = actual_kps.iter().map(|k| id_of(&UpdatePublicKey::from(k))).collect();
        let acc_j = json!({"t": u16::from(acc_s.threshold), "auth": acc_s.authorized_keys.iter().map(|x| x.index).collect::<Vec<_>>()});
        let signer_j = match &signer { Err(_) => json!("PANIC"), Ok(None) => json!(null),
            Ok(Some(m)) => json!(m.iter().map(|(i, kp)| json!([i.index, id_of(&UpdatePublicKey::from(kp))])).collect::<Vec<_>>()) };
        let mut line = json!({"k":"upd","det":dc.map(|(a, b, c)| json!([a, b, c])),"version": if use_v1 {1} else {0},"field":field,"keys":keys_ids,"acc":acc_j,"actual":actual_ids,"signer":signer_j});
        if let Ok(Some(m)) = signer {
            let payload = match r.below(4) {
                0 => UpdatePayload::FoundationAccount(addr(&mut r)),
                1 => UpdatePayload::BlockEnergyLimitCPV2(Energy { energy: r.u64_edge() }),
                2 => UpdatePayload::Protocol(updates::ProtocolUpdate { message: "m".repeat(r.below(20) as usize), specification_url: "https://x".to_string(),
                        specification_hash: <[u8; 32]>::try_from(r.bytes(32)).unwrap().into(), specification_auxiliary_data: rb(&mut r, 30, 0) }),
                _ => UpdatePayload::BakerStakeThreshold(updates::BakerParameters { minimum_threshold_for_baking: Amount::from_micro_ccd(r.u64_edge()) }) };
            let seq = UpdateSequenceNumber::from(r.u64_edge());
            let eff = TransactionTime { seconds: r.u64_edge() };
            let tmo = TransactionTime { seconds: r.u64_edge() };
            let ui: UpdateInstruction = updates::update::update(&m, seq, eff, tmo, payload.clone());
            let hb = to_bytes(&ui.header);
            let pb = to_bytes(&ui.payload);
            let indep = sha(&[&hb, &pb]);
            // reference acceptance rule evaluated with the real keys: per signature its validity bit
            let mut sig_bits: Vec<(u16, u8)> = ui.signatures.signatures.iter().map(|(i, s)| {
                let b = keys.get(i.index as usize).map(|pk| pk.public.verify(&indep, s) as u8).unwrap_or(0); (i.index, b) }).collect();
            // perturbation of one byte of header or payload: the digest changes and every signature dies
            let mut hb2 = hb.clone(); flip(&mut r, &mut hb2);
            let mut pb2 = pb.clone(); flip(&mut r, &mut pb2);
            let d_h = sha(&[&hb2, &pb]); let d_p = sha(&[&hb, &pb2]);
            let dead = |d: &[u8; 32]| ui.signatures.signatures.iter().all(|(i, s)| !keys.get(i.index as usize).map(|pk| pk.public.verify(d, s)).unwrap_or(false));
            let all_dead = ui.signatures.signatures.is_empty() || (dead(&d_h) && dead(&d_p));
            // optionally corrupt one signature to exercise the rejecting side of the reference rule
            let mut corrupted = false;
            if dc.is_none() && r.chance(1, 5) && !sig_bits.is_empty() { let j = r.below(sig_bits.len() as u64) as usize; let (ix, _) = sig_bits[j];
                let mut s = ui.signatures.signatures[&UpdateKeysIndex { index: ix }].clone(); flip(&mut r, &mut s.sig);
                sig_bits[j].1 = keys[ix as usize].public.verify(&indep, &s) as u8; corrupted = true; }
            let ref_accept = sig_bits.len() >= u16::from(acc_s.threshold) as usize
                && sig_bits.iter().all(|(i, b)| *b == 1 && acc_s.authorized_keys.contains(&UpdateKeysIndex { index: *i }) && (*i as usize) < nkeys);
            let bi: BlockItem<EncodedPayload> = BlockItem::UpdateInstruction(ui.clone());
            let bib = to_bytes(&bi);
            let decoded_ok = ui.payload.decode().map(|p| to_bytes(&p) == pb).unwrap_or(false);
            let o = line.as_object_mut().unwrap();
            o.insert("nkeys".into(), json!(nkeys));
            o.insert("sig_bits".into(), json!(sig_bits));
            o.insert("ref_accept".into(), json!(ref_accept));
            o.insert("corrupted".into(), json!(corrupted));
            o.insert("perturbed_dead".into(), json!(all_dead));
            o.insert("uh".into(), json!({"seq": u64::from(ui.header.seq_number).to_string(), "eff": ui.header.effective_time.seconds.to_string(),
                "tmo": ui.header.timeout.seconds.to_string(), "payload_size": u32::from(ui.header.payload_size)}));
            o.insert("header_bytes".into(), json!(hex(&hb)));
            o.insert("payload".into(), json!(hex(&pb)));
            o.insert("payload_is_encoding".into(), json!(pb == to_bytes(&payload)));
            o.insert("decoded_ok".into(), json!(decoded_ok));
            o.insert("sha_indep".into(), json!(hex(&indep)));
            o.insert("sigs".into(), json!(ui.signatures.signatures.iter().map(|(i, s)| json!([i.index, hex(&s.sig)])).collect::<Vec<_>>()));
            o.insert("ui_sha".into(), json!(hex(&sha(&[&to_bytes(&ui)]))));
            o.insert("bi_sha_indep".into(), json!(hex(&sha(&[&bib]))));
            o.insert("bi_hash".into(), json!(hex(bi.hash().as_ref())));
        }
        println!("{}", line);
    }
}

fn main() {
    quiet_panics();
    let a: Vec<String> = std::env::args().collect();
    let seed: u64 = a[2].parse().unwrap();
    let n: u64 = a[3].parse().unwrap();
    match a[1].as_str() {
        "exh" => exh(seed, n),
        "samp" => samp(seed, n),
        "tx" => txmode(seed, n),
        "pert" => pert(seed, n),
        "upd" => upd(seed, n),
        "wire" => wire::wire(seed, n),
        _ => panic!("mode"),
    }
}
