//! C06 wire-level tamper stream: byte-level mutants of the SIGNATURE SET of serialized block items.
//!
//! mode `wire <seed> <n>`: n honestly signed plain transactions and n sponsored (V1) ones are serialized as
//! block items; the signature set(s) are decoded HERE (independent reader of the documented layout
//! count, (cred, nkeys, (key, u16-be length, bytes)*)*), mutated and re-encoded raw, never via the implementation's
//! serializer. Classes: dup_cred, dup_key, order, zero. For every mutant (bytes different from the original):
//!   parse_reject | verify_false | canonical (parses, verifies, re-serializes to the mutant's own bytes) are fine;
//!   WIRE-MALLEABLE = parses, verifies and re-serializes to DIFFERENT bytes (two byte strings, one authorised transaction).
use super::*;
use concordium_base::common::Deserial;

type WKeys = Vec<(u8, Vec<u8>)>;
type WSet = Vec<(u8, WKeys)>;

fn enc_set(s: &WSet) -> Vec<u8> {
    let mut o = vec![s.len() as u8];
    for (c, ks) in s {
        o.push(*c);
        o.push(ks.len() as u8);
        for (k, sig) in ks { o.push(*k); o.extend_from_slice(&(sig.len() as u16).to_be_bytes()); o.extend_from_slice(sig); }
    }
    o
}

/// independent reader of one signature set; returns the set and the number of bytes it occupies
fn dec_set(b: &[u8]) -> (WSet, usize) {
    let mut p = 0usize;
    let n = b[p]; p += 1;
    let mut s = Vec::new();
    for _ in 0..n {
        let c = b[p]; let nk = b[p + 1]; p += 2;
        let mut ks = Vec::new();
        for _ in 0..nk { let k = b[p]; let l = u16::from_be_bytes([b[p + 1], b[p + 2]]) as usize; p += 3; ks.push((k, b[p..p + l].to_vec())); p += l; }
        s.push((c, ks));
    }
    (s, p)
}

fn garbage_like(r: &mut Rng, ks: &WKeys) -> WKeys { ks.iter().map(|(k, s)| (*k, r.bytes(s.len().max(1)))).collect() }

/// all mutants of one set: (class, sub-class, mutated set)
fn mutants(r: &mut Rng, s: &WSet) -> Vec<(&'static str, &'static str, WSet)> {
    let mut out: Vec<(&'static str, &'static str, WSet)> = Vec::new();
    for i in 0..s.len() {
        let (c, ks) = s[i].clone();
        // (a) duplicate credential entry
        { let mut m = s.clone(); m.insert(i, (c, garbage_like(r, &ks))); out.push(("dup_cred", "garbage_before", m)); }
        { let mut m = s.clone(); m.insert(i + 1, (c, garbage_like(r, &ks))); out.push(("dup_cred", "garbage_after", m)); }
        { let mut m = s.clone(); m.insert(i, (c, ks.clone())); out.push(("dup_cred", "copy_adjacent", m)); }
        { let mut m = s.clone(); m.insert(i, (c, vec![ks[0].clone()])); out.push(("dup_cred", "first_key_only_before", m)); }
        if s.len() > 1 {
            { let mut m = s.clone(); m.push((c, ks.clone())); out.push(("dup_cred", "copy_at_end", m)); }
            { let mut m = s.clone(); m.insert(0, (c, garbage_like(r, &ks))); out.push(("dup_cred", "garbage_at_start", m)); }
        }
        // (b) duplicate key index inside one credential
        for j in 0..ks.len() {
            let (k, sig) = ks[j].clone();
            { let mut m = s.clone(); m[i].1.insert(j, (k, r.bytes(sig.len()))); out.push(("dup_key", "garbage_before", m)); }
            { let mut m = s.clone(); m[i].1.insert(j + 1, (k, r.bytes(sig.len()))); out.push(("dup_key", "garbage_after", m)); }
            { let mut m = s.clone(); m[i].1.insert(j, (k, sig.clone())); out.push(("dup_key", "copy_adjacent", m)); }
            if ks.len() > 1 { let mut m = s.clone(); m[i].1.push((k, sig.clone())); out.push(("dup_key", "copy_at_end", m)); }
        }
        // (c) order
        if i + 1 < s.len() { let mut m = s.clone(); m.swap(i, i + 1); out.push(("order", "swap_creds", m)); }
        for j in 0..ks.len().saturating_sub(1) { let mut m = s.clone(); m[i].1.swap(j, j + 1); out.push(("order", "swap_keys", m)); }
        // (d) zero-length maps
        { let mut m = s.clone(); m[i].1.clear(); out.push(("zero", "cred_without_keys", m)); }
        { let mut m = s.clone(); m.insert(i, (c, Vec::new())); out.push(("zero", "empty_dup_cred_before", m)); }
        { let mut m = s.clone(); m.insert(i + 1, (c, Vec::new())); out.push(("zero", "empty_dup_cred_after", m)); }
    }
    if s.len() > 1 { let mut m = s.clone(); m.reverse(); out.push(("order", "reverse_creds", m)); }
    { let free = (0..=255u8).rev().find(|x| !s.iter().any(|(c, _)| c == x)).unwrap(); let mut m = s.clone(); m.push((free, Vec::new())); out.push(("zero", "extra_empty_cred", m)); }
    out.push(("zero", "empty_set", Vec::new()));
    out
}

fn judge(orig: &[u8], mutant: &[u8], acc: &AccountAccessStructure, sp: &AccountAccessStructure) -> &'static str {
    if mutant == orig { return "identical_to_original"; }
    let parsed = guarded(|| { let mut cur = std::io::Cursor::new(mutant); let bi = BlockItem::<EncodedPayload>::deserial(&mut cur); (bi, cur.position() as usize) });
    let bi = match parsed { Err(_) => return "panic", Ok((Err(_), _)) => return "parse_reject", Ok((Ok(bi), pos)) => { if pos != mutant.len() { return "parse_reject"; } bi } };
    let ok = guarded(|| match &bi {
        BlockItem::AccountTransaction(t) => t.verify_transaction_signature(acc),
        BlockItem::AccountTransactionV1(t) => t.verify_transaction_signature(acc, sp),
        _ => false,
    });
    match ok { Err(_) => return "panic", Ok(false) => return "verify_false", Ok(true) => {} }
    if to_bytes(&bi) == mutant { "canonical" } else { "WIRE-MALLEABLE" }
}

pub fn wire(seed: u64, n: u64) {
    let mut r = Rng::new(seed ^ 0x77697265);
    let mut csprng = StdRng::seed_from_u64(seed ^ 0x7731);
    let mut counts: BTreeMap<String, u64> = BTreeMap::new();
    let mut emit = |v: u8, which: &str, cls: &str, sub: &str, outcome: &str, orig: &[u8], mutant: &[u8]| {
        *counts.entry(format!("{}|{}", cls, outcome)).or_insert(0) += 1;
        if outcome == "WIRE-MALLEABLE" || outcome == "panic" {
            println!("{}", json!({"k":"wire","v":v,"set":which,"cls":cls,"sub":sub,"outcome":outcome,"original":hex(orig),"mutant":hex(mutant)}));
        }
    };
    let mut base_bad = 0u64;
    for _ in 0..n {
        let ak = small_account(&mut r, &mut csprng);
        let acc = AccountAccessStructure::from(&ak);
        // sign with ALL keys half of the time so that several credentials / keys are on the wire
        let all: BTreeMap<CredentialIndex, BTreeMap<KeyIndex, KeyPair>> = ak.keys.iter().map(|(c, cd)| (*c, cd.keys.clone())).collect();
        let payload = EncodedPayload::try_from(rb(&mut r, 60, 1)).unwrap();
        let header = rand_header(&mut r, u32::from(payload.size()) as usize);
        let full = r.chance(1, 2);
        let t0 = if full { tx::sign_transaction(&all, header.clone(), payload.clone()) } else { tx::sign_transaction(&ak, header.clone(), payload.clone()) };
        let orig = to_bytes(&BlockItem::AccountTransaction(t0.clone()));
        let (set, len) = dec_set(&orig[1..]);
        let sane = enc_set(&set) == orig[1..1 + len] && judge(&[], &orig, &acc, &acc) == "canonical";
        if !sane { base_bad += 1; println!("{}", json!({"k":"wire_base_bad","v":0,"original":hex(&orig)})); continue; }
        for (cls, sub, m) in mutants(&mut r, &set) {
            let mut b = vec![orig[0]]; b.extend(enc_set(&m)); b.extend_from_slice(&orig[1 + len..]);
            emit(0, "sender", cls, sub, judge(&orig, &b, &acc, &acc), &orig, &b);
        }
        // ---- sponsored (V1) ----
        let sp = small_account(&mut r, &mut csprng);
        let sp_acc = AccountAccessStructure::from(&sp);
        let sp_all: BTreeMap<CredentialIndex, BTreeMap<KeyIndex, KeyPair>> = sp.keys.iter().map(|(c, cd)| (*c, cd.keys.clone())).collect();
        let h1 = TransactionHeaderV1 { sender: header.sender, nonce: header.nonce, energy_amount: header.energy_amount, payload_size: header.payload_size, expiry: header.expiry, sponsor: Some(addr(&mut r)) };
        let hash = compute_transaction_sign_hash_v1(&h1, &payload);
        let (s_sig, p_sig) = if full { (all.sign_transaction_hash(&hash), sp_all.sign_transaction_hash(&hash)) } else { (ak.sign_transaction_hash(&hash), sp.sign_transaction_hash(&hash)) };
        let t1 = AccountTransactionV1 { signatures: TransactionSignaturesV1 { sender: s_sig, sponsor: Some(p_sig) }, header: h1, payload: payload.clone() };
        let orig1 = to_bytes(&BlockItem::AccountTransactionV1(t1));
        let (set_s, len_s) = dec_set(&orig1[1..]);
        let (set_p, len_p) = dec_set(&orig1[1 + len_s..]);
        let sane1 = judge(&[], &orig1, &acc, &sp_acc) == "canonical";
        if !sane1 { base_bad += 1; println!("{}", json!({"k":"wire_base_bad","v":1,"original":hex(&orig1)})); continue; }
        for (cls, sub, m) in mutants(&mut r, &set_s) {
            let mut b = vec![orig1[0]]; b.extend(enc_set(&m)); b.extend_from_slice(&orig1[1 + len_s..]);
            emit(1, "sender", cls, sub, judge(&orig1, &b, &acc, &sp_acc), &orig1, &b);
        }
        for (cls, sub, m) in mutants(&mut r, &set_p) {
            let mut b = orig1[..1 + len_s].to_vec(); b.extend(enc_set(&m)); b.extend_from_slice(&orig1[1 + len_s + len_p..]);
            emit(1, "sponsor", cls, sub, judge(&orig1, &b, &acc, &sp_acc), &orig1, &b);
        }
    }
    drop(emit);
    println!("{}", json!({"k":"wire_summary","n":n,"base_bad":base_bad,"counts":counts}));
}
