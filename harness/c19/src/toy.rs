//! A toy `Pairing` instance "in the exponent": G1 = G2 = the scalar field of BLS12-381 (written
//! additively, generator 1), target "field" = exponents, pairing(a, b) = a*b.  It lets the
//! *generic* code of `aggregate_sig` and `ps_sig` run on values whose discrete logarithms are
//! known, so that every output can be compared exactly with the Coq model instance `ZrP`.
use byteorder::ReadBytesExt;
use concordium_base::{
    common::{Buffer, Deserial, ParseResult, Serial},
    curve_arithmetic::{Curve, CurveDecodingError, Field, GenericMultiExp, Pairing},
};
use rand::{Rng, RngCore};
use sha2::{Digest, Sha512};

pub type Bls12 = ark_ec::bls12::Bls12<ark_bls12_381::Config>;
pub type S = <Bls12 as Pairing>::ScalarField;
type RealG1 = <Bls12 as Pairing>::G1;

/// The surrogate discrete logarithm of the hash of a message: `hash_to_group` of the toy groups.
pub fn toy_hash(m: &[u8]) -> S {
    let d = Sha512::new().chain_update(b"c19-toy-hash-to-group").chain_update(m).finalize();
    let f = <ark_bls12_381::Fr as ark_ff::PrimeField>::from_le_bytes_mod_order(&d);
    f.into()
}

#[derive(Copy, Clone, Debug, PartialEq, Eq)]
pub struct E<const T: u8>(pub S);

impl<const T: u8> Serial for E<T> {
    fn serial<B: Buffer>(&self, out: &mut B) { self.0.serial(out) }
}
impl<const T: u8> Deserial for E<T> {
    fn deserial<R: ReadBytesExt>(source: &mut R) -> ParseResult<Self> { Ok(E(S::deserial(source)?)) }
}

impl<const T: u8> Curve for E<T> {
    type MultiExpType = GenericMultiExp<Self>;
    type Scalar = S;

    const GROUP_ELEMENT_LENGTH: usize = 32;
    const SCALAR_LENGTH: usize = 32;

    fn zero_point() -> Self { E(S::zero()) }
    fn one_point() -> Self { E(S::one()) }
    fn is_zero_point(&self) -> bool { self.0.is_zero() }
    fn inverse_point(&self) -> Self { let mut x = self.0; x.negate(); E(x) }
    fn double_point(&self) -> Self { let mut x = self.0; x.double(); E(x) }
    fn plus_point(&self, other: &Self) -> Self { let mut x = self.0; x.add_assign(&other.0); E(x) }
    fn minus_point(&self, other: &Self) -> Self { let mut x = self.0; x.sub_assign(&other.0); E(x) }
    fn mul_by_scalar(&self, scalar: &S) -> Self { let mut x = self.0; x.mul_assign(scalar); E(x) }
    fn generate<R: Rng>(rng: &mut R) -> Self { E(S::random(rng)) }
    fn generate_scalar<R: Rng>(rng: &mut R) -> S { S::random(rng) }
    fn scalar_from_u64(n: u64) -> S { RealG1::scalar_from_u64(n) }
    fn scalar_from_bytes<A: AsRef<[u8]>>(bs: A) -> S { RealG1::scalar_from_bytes(bs) }
    fn hash_to_group(m: &[u8]) -> Result<Self, CurveDecodingError> { Ok(E(toy_hash(m))) }
}

/// Exponents of the target group, with an absorbing `Zero` standing for the field's zero.
/// Only the operations the generic code performs on target-field elements are meaningful:
/// `one`, `mul_assign`, `==`, and `x.sub_assign(one); x.is_zero()` (= "x == one").
#[derive(Copy, Clone, Debug, PartialEq, Eq)]
pub enum Tg {
    Zero,
    Exp(S),
}

impl Serial for Tg {
    fn serial<B: Buffer>(&self, out: &mut B) {
        match self {
            Tg::Zero => out.write_u8(0).unwrap(),
            Tg::Exp(s) => { out.write_u8(1).unwrap(); s.serial(out) }
        }
    }
}

impl Field for Tg {
    fn random<R: RngCore + ?std::marker::Sized>(rng: &mut R) -> Self { Tg::Exp(S::random(rng)) }
    fn zero() -> Self { Tg::Zero }
    fn one() -> Self { Tg::Exp(S::zero()) }
    fn is_zero(&self) -> bool { matches!(self, Tg::Zero) }
    fn square(&mut self) { if let Tg::Exp(s) = self { s.double() } }
    fn double(&mut self) { unimplemented!("toy target: double") }
    fn negate(&mut self) { unimplemented!("toy target: negate") }
    fn add_assign(&mut self, _other: &Self) { unimplemented!("toy target: add") }
    fn sub_assign(&mut self, other: &Self) {
        // only "is the difference zero" is observable
        if *self == *other { *self = Tg::Zero } else if self.is_zero() { *self = Tg::Exp(S::zero()) }
    }
    fn mul_assign(&mut self, other: &Self) {
        *self = match (*self, *other) {
            (Tg::Exp(a), Tg::Exp(b)) => { let mut x = a; x.add_assign(&b); Tg::Exp(x) }
            _ => Tg::Zero,
        }
    }
    fn inverse(&self) -> Option<Self> {
        match self { Tg::Zero => None, Tg::Exp(a) => { let mut x = *a; x.negate(); Some(Tg::Exp(x)) } }
    }
}

#[derive(Clone, Debug)]
pub struct Toy;

impl Pairing for Toy {
    type G1 = E<1>;
    type G1Prepared = S;
    type G2 = E<2>;
    type G2Prepared = S;
    type ScalarField = S;
    type TargetField = Tg;

    fn g1_prepare(g: &Self::G1) -> S { g.0 }
    fn g2_prepare(g: &Self::G2) -> S { g.0 }
    fn miller_loop<'a, I>(i: I) -> Tg
    where
        I: IntoIterator<Item = &'a (&'a S, &'a S)>, {
        let mut acc = S::zero();
        for (a, b) in i {
            let mut x = **a;
            x.mul_assign(b);
            acc.add_assign(&x);
        }
        Tg::Exp(acc)
    }
    fn final_exponentiation(x: &Tg) -> Option<Tg> { if x.is_zero() { None } else { Some(*x) } }
    fn generate_scalar<T: Rng>(csprng: &mut T) -> S { S::random(csprng) }
}
