#![allow(deprecated)]
//! C19 harness: BLS aggregate signatures, proofs of possession, PS signatures, ECVRF, ed25519 dlog.
//!
//!   c19 bls  <seed> <n> [big]   scenarios run on the toy pairing (exact exponents) and on BLS12-381
//!   c19 ps   <seed> <n>         PS key/message scenarios on both pairings
//!   c19 pop  <seed> <n>         proofs of possession (relations + decisions) on both pairings
//!   c19 vrf  <seed> <n>         ECVRF: test vectors, determinism, relations, rejections
//!   c19 keys <seed>             degenerate keys/points: small-order ed25519 encodings, identity and non-subgroup BLS12-381 points
//!   c19 bits <seed> <n>         single-bit perturbations of serialized signatures/keys/proofs/messages
//!
//! One JSON object per line.  Every implementation call runs under `guarded`.
mod toy;

use concordium_base::{
    aggregate_sig as agg,
    common::{from_bytes, to_bytes, Deserial, Serial},
    curve_arithmetic::{Curve, Field, Pairing, PrimeField},
    ecvrf,
    eddsa_ed25519 as dlog_ed25519,
    ps_sig,
    random_oracle::{RandomOracle, TranscriptProtocol},
};
use hlib::{guarded, hex, Rng};
use num_bigint::BigUint;
use serde_json::{json, Value as J};
use sha2::{Digest, Sha512};
use toy::{toy_hash, Bls12, Toy, S};

// ------------------------------------------------------------------ randomness and scalars
struct HR(Rng);
impl rand::RngCore for HR {
    fn next_u32(&mut self) -> u32 { self.0.next() as u32 }
    fn next_u64(&mut self) -> u64 { self.0.next() }
    fn fill_bytes(&mut self, dest: &mut [u8]) { for b in dest.iter_mut() { *b = self.0.next() as u8 } }
    fn try_fill_bytes(&mut self, dest: &mut [u8]) -> Result<(), rand::Error> { self.fill_bytes(dest); Ok(()) }
}
impl rand::CryptoRng for HR {}

fn s_big(s: &S) -> BigUint {
    let mut bytes = Vec::new();
    for l in s.into_repr() { bytes.extend_from_slice(&l.to_le_bytes()) }
    BigUint::from_bytes_le(&bytes)
}
fn s_dec(s: &S) -> String { s_big(s).to_string() }
fn s_mod(bytes: &[u8]) -> S { <ark_bls12_381::Fr as ark_ff::PrimeField>::from_le_bytes_mod_order(bytes).into() }
fn s_u64(n: u64) -> S { <Bls12 as Pairing>::G1::scalar_from_u64(n) }
fn s_add(a: &S, b: &S) -> S { let mut x = *a; x.add_assign(b); x }
fn s_sub(a: &S, b: &S) -> S { let mut x = *a; x.sub_assign(b); x }
fn s_mul(a: &S, b: &S) -> S { let mut x = *a; x.mul_assign(b); x }
fn s_neg(a: &S) -> S { let mut x = *a; x.negate(); x }
/// boundary-heavy scalar
fn s_rand(rng: &mut Rng) -> S {
    match rng.below(12) {
        0 => s_u64(0),
        1 => s_u64(1),
        2 => s_neg(&s_u64(1)),
        3 => s_u64(rng.below(5) + 2),
        _ => s_mod(&rng.bytes(48)),
    }
}
fn s_rand_nz(rng: &mut Rng) -> S { loop { let s = s_rand(rng); if !s.is_zero() { return s } } }

fn conv<A: Serial, B: Deserial>(a: &A) -> Option<B> { from_bytes(&mut &to_bytes(a)[..]).ok() }

fn flip(bytes: &[u8], bit: usize) -> Vec<u8> { let mut v = bytes.to_vec(); v[bit / 8] ^= 1 << (bit % 8); v }

fn g<T>(f: impl FnOnce() -> T) -> Result<T, String> { guarded(f) }
fn jb(r: Result<bool, String>) -> J { match r { Ok(b) => json!(b), Err(_) => json!("PANIC") } }

fn message(rng: &mut Rng, idx: usize) -> Vec<u8> {
    // distinct index => distinct content (the index is appended); lengths: empty-ish, short, 32, long
    let mut m = match rng.below(5) {
        0 => vec![],
        1 => rng.bytes(1),
        2 => rng.bytes(32),
        3 => { let l = rng.below(40) as usize; vec![0u8; l] }
        _ => { let l = 200 + rng.below(300) as usize; rng.bytes(l) }
    };
    if !(idx == 0 && rng.chance(1, 2)) { m.extend_from_slice(&(idx as u32).to_le_bytes()); }
    m
}

// ------------------------------------------------------------------ BLS scenarios
struct BlsScenario {
    kind: &'static str,
    keys: Vec<S>,             // table of secret keys (signers first, then fresh ones)
    msgs: Vec<Vec<u8>>,       // table of messages
    signers: Vec<(usize, usize)>,                    // (key index, message index)
    lists: Vec<(String, Vec<(usize, usize)>)>,       // claimed (message index, key index) lists
    groups: Vec<(String, Vec<(usize, Vec<usize>)>)>, // hybrid inputs
    tlists: Vec<(String, usize, Vec<usize>)>,        // trusted-key inputs (message, keys)
    singles: Vec<(usize, usize)>,                    // (key, message) against signer 0's signature
}

fn group_by_msg(pairs: &[(usize, usize)]) -> Vec<(usize, Vec<usize>)> {
    let mut out: Vec<(usize, Vec<usize>)> = Vec::new();
    for (m, k) in pairs {
        if let Some(e) = out.iter_mut().find(|e| e.0 == *m) { e.1.push(*k) } else { out.push((*m, vec![*k])) }
    }
    out
}

fn gen_bls(rng: &mut Rng, n: usize, same_msg: bool, dupmsg: bool, dupkey: bool) -> BlsScenario {
    let big = n >= 100;
    let mut keys: Vec<S> = (0..n).map(|_| s_rand_nz(rng)).collect();
    if dupkey && n >= 2 { let j = 1 + rng.below(n as u64 - 1) as usize; keys[j] = keys[0]; }
    let fresh_k = keys.len(); keys.push(s_rand_nz(rng));
    let fresh_k2 = keys.len(); keys.push(s_rand_nz(rng));
    let nm = if same_msg { 1 } else { n.max(1) };
    let mut msgs: Vec<Vec<u8>> = (0..nm).map(|i| message(rng, i)).collect();
    let fresh_m = msgs.len(); msgs.push(message(rng, fresh_m));
    let mut signers: Vec<(usize, usize)> = (0..n).map(|i| (i, if same_msg { 0 } else { i })).collect();
    if dupmsg && !same_msg && n >= 2 { let j = 1 + rng.below(n as u64 - 1) as usize; signers[j].1 = signers[0].1; }
    let honest: Vec<(usize, usize)> = signers.iter().map(|(k, m)| (*m, *k)).collect();
    let mut lists = vec![("honest".to_string(), honest.clone())];
    let mut perm = honest.clone();
    for i in (1..perm.len()).rev() { let j = rng.below(i as u64 + 1) as usize; perm.swap(i, j); }
    if n >= 2 { lists.push(("perm".into(), perm.clone())); }
    if n >= 1 {
        let d = rng.below(n as u64) as usize;
        let mut l = honest.clone(); l.remove(d); lists.push(("drop".into(), l));
        let mut l = honest.clone(); l[d].1 = fresh_k; lists.push(("foreign".into(), l));
        let mut l = honest.clone(); l.push((honest[0].0, fresh_k)); lists.push(("dupclaim".into(), l));
        if !big {
            let mut l = honest.clone(); l[d].0 = fresh_m; lists.push(("swapmsg".into(), l));
            let mut l = honest.clone(); l.push((fresh_m, fresh_k)); lists.push(("extra".into(), l));
            if n >= 2 { let mut l = honest.clone(); let t = l[0].0; l[0].0 = l[1].0; l[1].0 = t; lists.push(("swap2".into(), l)); }
        }
    }
    if !big { lists.push(("empty".into(), vec![])); }
    let mut groups = vec![("honest".to_string(), group_by_msg(&honest))];
    if n >= 2 {
        let mut gp = group_by_msg(&perm); gp.reverse(); groups.push(("perm".into(), gp));
        let mut gw = group_by_msg(&honest);
        if gw.len() >= 2 { let k = gw[0].1.pop().unwrap(); gw[1].1.push(k); groups.push(("wronggroup".into(), gw)); }
    }
    if n >= 1 {
        let mut gd = group_by_msg(&honest); let last = gd.len() - 1; gd[last].1.pop(); groups.push(("dropkey".into(), gd));
        if !big {
            groups.push(("singletons".into(), honest.iter().map(|(m, k)| (*m, vec![*k])).collect()));
            let mut ge = group_by_msg(&honest); ge.push((fresh_m, vec![])); groups.push(("nokeys".into(), ge));
            let mut gx = group_by_msg(&honest); gx[0].1.push(fresh_k); groups.push(("extrakey".into(), gx));
        }
    }
    if !big { groups.push(("empty".into(), vec![])); }
    let mut tlists = Vec::new();
    if same_msg || n <= 1 {
        let ks: Vec<usize> = signers.iter().map(|s| s.0).collect();
        tlists.push(("honest".to_string(), 0, ks.clone()));
        if n >= 1 { let mut k = ks.clone(); k.pop(); tlists.push(("drop".into(), 0, k)); }
        let mut k = ks.clone(); k.push(fresh_k); tlists.push(("extra".into(), 0, k));
        if !big {
            tlists.push(("othermsg".into(), fresh_m, ks.clone()));
            tlists.push(("empty".into(), 0, vec![]));
            let mut k = ks.clone(); k.reverse(); tlists.push(("perm".into(), 0, k));
            if n >= 1 { let mut k = ks.clone(); k[0] = fresh_k2; tlists.push(("foreign".into(), 0, k)); }
        }
    }
    let mut singles = Vec::new();
    if n >= 1 {
        let (k0, m0) = signers[0];
        singles.push((k0, m0)); singles.push((fresh_k, m0)); singles.push((k0, fresh_m)); singles.push((fresh_k, fresh_m));
        if n >= 2 { singles.push(signers[1]); }
    }
    BlsScenario { kind: if same_msg { "same" } else { "distinct" }, keys, msgs, signers, lists, groups, tlists, singles }
}

fn mk_sk<P: Pairing<ScalarField = S>>(s: &S) -> agg::SecretKey<P> { conv(s).expect("secret key from scalar") }

fn bls_run<P: Pairing<ScalarField = S>>(sc: &BlsScenario, rng: &mut Rng) -> J {
    let sks: Vec<agg::SecretKey<P>> = sc.keys.iter().map(mk_sk::<P>).collect();
    let pks: Vec<agg::PublicKey<P>> = sks.iter().map(agg::PublicKey::from_secret).collect();
    let sigs: Vec<agg::Signature<P>> = match g(|| sc.signers.iter().map(|(k, m)| sks[*k].sign(&sc.msgs[*m])).collect::<Vec<_>>()) {
        Ok(v) => v,
        Err(_) => return json!({"panic": "sign"}),
    };
    let aggregate = |order: &[usize]| -> agg::Signature<P> {
        if order.is_empty() { return agg::Signature::empty(); }
        let mut s = sigs[order[0]];
        for i in &order[1..] { s = s.aggregate(sigs[*i]); }
        s
    };
    let order: Vec<usize> = (0..sigs.len()).collect();
    let sig = aggregate(&order);
    let mut shuffled = order.clone();
    for i in (1..shuffled.len()).rev() { let j = rng.below(i as u64 + 1) as usize; shuffled.swap(i, j); }
    let sig2 = aggregate(&shuffled);
    // aggregation starting from the empty signature gives the same result
    let mut sig3 = agg::Signature::<P>::empty();
    for i in shuffled.iter().rev() { sig3 = sigs[*i].aggregate(sig3); }
    // predicted relation: sig = sum sk_i * H(m_i), computed directly with the group operations
    let mut expect = P::G1::zero_point();
    for (k, m) in &sc.signers {
        expect = expect.plus_point(&P::G1::hash_to_group(&sc.msgs[*m]).unwrap().mul_by_scalar(&sc.keys[*k]));
    }
    let sig_pt: P::G1 = conv(&sig).unwrap();
    let plain: Vec<J> = sc.lists.iter().map(|(_, l)| {
        let pairs: Vec<(&[u8], agg::PublicKey<P>)> = l.iter().map(|(m, k)| (&sc.msgs[*m][..], pks[*k])).collect();
        jb(g(|| agg::verify_aggregate_sig(&pairs, sig)))
    }).collect();
    let hybrid: Vec<J> = sc.groups.iter().map(|(_, gr)| {
        let keysets: Vec<Vec<agg::PublicKey<P>>> = gr.iter().map(|(_, ks)| ks.iter().map(|k| pks[*k]).collect()).collect();
        let inp: Vec<(&[u8], &[agg::PublicKey<P>])> = gr.iter().zip(keysets.iter()).map(|((m, _), ks)| (&sc.msgs[*m][..], &ks[..])).collect();
        jb(g(|| agg::verify_aggregate_sig_hybrid(&inp, sig)))
    }).collect();
    let trusted: Vec<J> = sc.tlists.iter().map(|(_, m, ks)| {
        let keys: Vec<agg::PublicKey<P>> = ks.iter().map(|k| pks[*k]).collect();
        jb(g(|| agg::verify_aggregate_sig_trusted_keys(&sc.msgs[*m], &keys, sig)))
    }).collect();
    let single: Vec<J> = sc.singles.iter().map(|(k, m)| jb(g(|| pks[*k].verify(&sc.msgs[*m], sigs[0])))).collect();
    json!({"rel": sig_pt == expect, "agg_order": sig == sig2 && sig == sig3, "sig": hex(&to_bytes(&sig)),
           "plain": plain, "hybrid": hybrid, "trusted": trusted, "single": single})
}

fn bls_mode(seed: u64, n: u64, big: bool) {
    let mut rng = Rng::new(seed ^ 0xb15);
    let sizes_small = [0usize, 1, 2, 3, 5, 8];
    let sizes_big = [149usize, 150, 151];
    for i in 0..n {
        let size = if big { sizes_big[(i % 3) as usize] } else if i < 6 { sizes_small[i as usize] } else { *rng.pick(&sizes_small) };
        let same = if big { i % 2 == 1 } else { rng.chance(1, 3) };
        let dupmsg = !big && rng.chance(1, 4) || (big && i % 4 == 2);
        let dupkey = rng.chance(1, 4);
        let sc = gen_bls(&mut rng, size, same, dupmsg, dupkey);
        let mut r1 = rng.clone();
        let mut r2 = rng.clone();
        let toy = bls_run::<Toy>(&sc, &mut r1);
        let real = bls_run::<Bls12>(&sc, &mut r2);
        rng.next();
        let toy_sig: String = {
            // the toy signature is its own discrete logarithm
            let b = hlib::unhex(toy["sig"].as_str().unwrap_or(""));
            from_bytes::<S, _>(&mut &b[..]).map(|s| s_dec(&s)).unwrap_or_default()
        };
        println!("{}", json!({
            "k": "bls", "kind": sc.kind, "n": size, "dupmsg": dupmsg, "dupkey": dupkey,
            "keys": sc.keys.iter().map(s_dec).collect::<Vec<_>>(),
            "h": sc.msgs.iter().map(|m| s_dec(&toy_hash(m))).collect::<Vec<_>>(),
            "msglen": sc.msgs.iter().map(|m| m.len()).collect::<Vec<_>>(),
            "signers": sc.signers, "lists": sc.lists, "groups": sc.groups, "tlists": sc.tlists, "singles": sc.singles,
            "toy": toy, "toy_sig": toy_sig, "real": real,
        }));
    }
}

// ------------------------------------------------------------------ PS scenarios
struct PsScenario {
    gamma: S, gamma_t: S,  // g = gamma * one_point, g_tilda = gamma_t * one_point
    ys: Vec<S>, x: S, ms: Vec<S>, mask: S,
    vectors: Vec<(String, Vec<S>)>,
}

fn gen_ps(rng: &mut Rng, n: usize, k: usize, std_gens: bool) -> PsScenario {
    let gamma = if std_gens { s_u64(1) } else { s_rand_nz(rng) };
    let gamma_t = if std_gens { s_u64(1) } else { s_rand_nz(rng) };
    let ys: Vec<S> = (0..n).map(|_| s_rand_nz(rng)).collect();
    let x = s_rand(rng);
    let ms: Vec<S> = (0..k).map(|_| s_rand(rng)).collect();
    let mask = s_rand_nz(rng);
    let mut vectors = vec![("committed".to_string(), ms.clone())];
    if k >= 1 {
        let i = rng.below(k as u64) as usize;
        let mut v = ms.clone(); v[i] = s_add(&v[i], &s_u64(1)); vectors.push(("changed".into(), v));
        let mut v = ms.clone(); v.pop(); vectors.push(("truncated".into(), v));
        let mut v = ms.clone(); let a = rng.below(k as u64) as usize; let b = rng.below(k as u64) as usize; v.swap(a, b); vectors.push(("swapped".into(), v));
    }
    let mut v = ms.clone(); v.push(s_u64(0)); vectors.push(("padded0".into(), v));
    let mut v = ms.clone(); v.push(s_rand_nz(rng)); vectors.push(("extended".into(), v));
    if k >= 2 && n >= 2 {
        // a different vector with the same sum m_i*y_i (needs the secret key: the explicit coincidence)
        let d = s_rand_nz(rng);
        let mut v = ms.clone();
        v[0] = s_add(&v[0], &s_mul(&d, &ys[1]));
        v[1] = s_sub(&v[1], &s_mul(&d, &ys[0]));
        vectors.push(("coincidence".into(), v));
    }
    let mut v = ms.clone(); while v.len() <= n { v.push(s_rand(rng)); } vectors.push(("toolong".into(), v));
    PsScenario { gamma, gamma_t, ys, x, ms, mask, vectors }
}

fn ps_run<P: Pairing<ScalarField = S>>(sc: &PsScenario, rng: &mut Rng, exps: bool) -> J {
    let mut csprng = HR(rng.clone());
    let gpt = P::G1::one_point().mul_by_scalar(&sc.gamma);
    let gtpt = P::G2::one_point().mul_by_scalar(&sc.gamma_t);
    let sk = ps_sig::SecretKey::<P> { g: gpt, g_tilda: gtpt, ys: sc.ys.clone(), x: sc.x };
    let pk = ps_sig::PublicKey::<P>::from(&sk);
    let e1 = |p: &P::G1| -> J { if exps { json!(conv::<_, S>(p).map(|s| s_dec(&s))) } else { json!(hex(&to_bytes(p))) } };
    let vs: Vec<ps_sig::KnownMessage<P>> = sc.vectors.iter().map(|(_, v)| ps_sig::KnownMessage(v.clone())).collect();
    // known message
    let known = g(|| sk.sign_known_message(&ps_sig::KnownMessage(sc.ms.clone()), &mut csprng));
    let z = sc.ms.iter().zip(sc.ys.iter()).fold(sc.x, |acc, (m, y)| s_add(&acc, &s_mul(m, y)));
    let (known_j, known_verify, known_rel) = match &known {
        Ok(Ok(sig)) => (
            json!({"a": e1(&sig.0), "b": e1(&sig.1)}),
            vs.iter().map(|v| jb(g(|| pk.verify(sig, v)))).collect::<Vec<_>>(),
            json!(sig.1 == sig.0.mul_by_scalar(&z)),
        ),
        Ok(Err(_)) => (json!("ERR"), vec![], json!(null)),
        Err(_) => (json!("PANIC"), vec![], json!(null)),
    };
    // blind issuance: commit (as the callers do), sign, retrieve, blind
    let mut cmm = pk.g.mul_by_scalar(&sc.mask);
    for (y, m) in pk.ys.iter().zip(sc.ms.iter()) { cmm = cmm.plus_point(&y.mul_by_scalar(m)); }
    let issued = g(|| sk.sign_unknown_message(&ps_sig::UnknownMessage(cmm), &mut csprng));
    let mut out = json!({"known": known_j, "known_verify": known_verify, "known_rel": known_rel, "cmm": e1(&cmm)});
    if let Ok(su) = issued {
        let retrieved = su.retrieve(&ps_sig::SigRetrievalRandomness::new(sc.mask));
        let (blinded, br) = retrieved.blind(&mut csprng);
        let (r, t): (S, S) = (*br.0, *br.1);
        let rv: Vec<J> = vs.iter().map(|v| jb(g(|| pk.verify(&retrieved, v)))).collect();
        let uv: Vec<J> = vs.iter().map(|v| jb(g(|| pk.verify(&su, v)))).collect();
        // the relation a blinded signature satisfies, evaluated with the real pairing
        let bl: Vec<J> = sc.vectors.iter().map(|(_, v)| {
            if blinded.sig.0.is_zero_point() || v.len() > pk.y_tildas.len() { return json!(false) }
            let mut hpt = pk.x_tilda.plus_point(&pk.g_tilda.mul_by_scalar(&t));
            for (y, m) in pk.y_tildas.iter().zip(v.iter()) { hpt = hpt.plus_point(&y.mul_by_scalar(m)); }
            jb(g(|| P::check_pairing_eq(&blinded.sig.0, &hpt, &blinded.sig.1, &pk.g_tilda)))
        }).collect();
        let rel = retrieved.1 == retrieved.0.mul_by_scalar(&z);
        out["issued"] = json!({"a": e1(&su.0), "b": e1(&su.1)});
        out["retrieved"] = json!({"a": e1(&retrieved.0), "b": e1(&retrieved.1)});
        out["blinded"] = json!({"a": e1(&blinded.sig.0), "b": e1(&blinded.sig.1), "r": s_dec(&r), "t": s_dec(&t)});
        out["retrieved_verify"] = json!(rv);
        out["issued_verify"] = json!(uv);
        out["blinded_rel"] = json!(bl);
        out["retrieved_rel"] = json!(rel);
    } else {
        out["issued"] = json!("PANIC");
    }
    out
}

fn ps_mode(seed: u64, n: u64) {
    let mut rng = Rng::new(seed ^ 0x95);
    let shapes = [(0usize, 0usize), (1, 1), (1, 0), (2, 2), (3, 2), (3, 3), (5, 5), (5, 3), (8, 8), (2, 3), (0, 1), (12, 12)];
    for i in 0..n {
        let (nk, k) = if (i as usize) < shapes.len() { shapes[i as usize] } else { *rng.pick(&shapes) };
        let std_gens = i % 2 == 0;
        let sc = gen_ps(&mut rng, nk, k, std_gens);
        let mut r1 = rng.clone();
        let mut r2 = rng.clone(); r2.next();
        let toy = ps_run::<Toy>(&sc, &mut r1, true);
        let real = ps_run::<Bls12>(&sc, &mut r2, false);
        rng.next(); rng.next();
        println!("{}", json!({
            "k": "ps", "n": nk, "len": k, "std_gens": std_gens,
            "gamma": s_dec(&sc.gamma), "gamma_t": s_dec(&sc.gamma_t),
            "ys": sc.ys.iter().map(s_dec).collect::<Vec<_>>(), "x": s_dec(&sc.x),
            "ms": sc.ms.iter().map(s_dec).collect::<Vec<_>>(), "mask": s_dec(&sc.mask),
            "vectors": sc.vectors.iter().map(|(l, v)| json!([l, v.iter().map(s_dec).collect::<Vec<_>>()])).collect::<Vec<_>>(),
            "toy": toy, "real": real,
        }));
    }
}

// ------------------------------------------------------------------ proofs of possession
fn pop_run<P: Pairing<ScalarField = S>>(rng: &mut Rng, skv: &S, other: &S, ctx: &[u8]) -> J {
    let mut csprng = HR(rng.clone());
    let sk = mk_sk::<P>(skv);
    let pk = agg::PublicKey::<P>::from_secret(&sk);
    let pk2 = agg::PublicKey::<P>::from_secret(&mk_sk::<P>(other));
    let ro = RandomOracle::domain(ctx);
    let proof = match g(|| sk.prove(&mut csprng, &mut ro.split())) { Ok(p) => p, Err(_) => return json!({"panic": "prove"}) };
    let ok = g(|| pk.check_proof(&mut ro.split(), &proof));
    let other_key = g(|| pk2.check_proof(&mut ro.split(), &proof));
    let mut ctxs: Vec<Vec<u8>> = Vec::new();
    if !ctx.is_empty() { ctxs.push(flip(ctx, rng.below(ctx.len() as u64 * 8) as usize)); ctxs.push(ctx[..ctx.len() - 1].to_vec()); ctxs.push(vec![]); }
    let mut e = ctx.to_vec(); e.push(0); ctxs.push(e);
    let other_ctx: Vec<J> = ctxs.iter().map(|c| jb(g(|| pk.check_proof(&mut RandomOracle::domain(c), &proof)))).collect();
    // the context also covers data appended after `domain`
    let mut ro_more = ro.split(); ro_more.append_message("extra", &0u8);
    let other_ctx2 = g(|| pk.check_proof(&mut ro_more, &proof));
    // structure: response = c*sk + w, commitment = w*g2, challenge = RO(ctx, public, coeff, point)
    let c: S = P::G2::scalar_from_bytes(&proof.challenge);
    let resp: S = conv(&proof.response).unwrap();
    let w = s_sub(&resp, &s_mul(&c, skv));
    let commit = P::G2::one_point().mul_by_scalar(&w);
    let pk_pt: P::G2 = conv(&pk).unwrap();
    let mut ro2 = ro.split();
    ro2.append_message("public", &pk_pt);
    ro2.append_message("coeff", &P::G2::one_point());
    ro2.append_message("point", &commit);
    let rel = ro2.extract_raw_challenge() == proof.challenge;
    // perturbed proofs
    let pb = to_bytes(&proof);
    let mut rej = Vec::new();
    for _ in 0..6 {
        let bit = rng.below(pb.len() as u64 * 8) as usize;
        let q: Option<agg::Proof<P>> = from_bytes(&mut &flip(&pb, bit)[..]).ok();
        rej.push(match q { None => json!("noparse"), Some(q) => if q == proof { json!("same") } else { jb(g(|| pk.check_proof(&mut ro.split(), &q))) } });
    }
    json!({"ok": jb(ok), "other_key": jb(other_key), "other_ctx": other_ctx, "other_ctx2": jb(other_ctx2), "rel": rel,
           "w_nonzero": !w.is_zero(), "proof_len": pb.len(), "flipped": rej})
}

fn pop_mode(seed: u64, n: u64) {
    let mut rng = Rng::new(seed ^ 0x909);
    for i in 0..n {
        let skv = s_rand(&mut rng);
        let other = loop { let o = s_rand(&mut rng); if o != skv { break o } };
        let ctx = match i % 4 { 0 => vec![], 1 => rng.bytes(1), 2 => rng.bytes(32), _ => rng.bytes(300) };
        let mut r1 = rng.clone();
        let mut r2 = rng.clone();
        let toy = pop_run::<Toy>(&mut r1, &skv, &other, &ctx);
        let real = pop_run::<Bls12>(&mut r2, &skv, &other, &ctx);
        rng.next();
        println!("{}", json!({"k": "pop", "sk": s_dec(&skv), "ctxlen": ctx.len(), "toy": toy, "real": real}));
    }
}

// ------------------------------------------------------------------ ECVRF
use curve25519_dalek::{constants as dc, edwards::{CompressedEdwardsY, EdwardsPoint}, scalar::{clamp_integer, Scalar}};

const VECTORS: [(&str, &str, &str, &str, &str); 3] = [
    ("9d61b19deffd5a60ba844af492ec2cc44449c5697b326919703bac031cae7f60", "",
     "d75a980182b10ab7d54bfed3c964073a0ee172f3daa62325af021a68f707511a",
     "8657106690b5526245a92b003bb079ccd1a92130477671f6fc01ad16f26f723f5e8bd1839b414219e8626d393787a192241fc442e6569e96c462f62b8079b9ed83ff2ee21c90c7c398802fdeebea4001",
     "90cf1df3b703cce59e2a35b925d411164068269d7b2d29f3301c03dd757876ff66b71dda49d2de59d03450451af026798e8f81cd2e333de5cdf4f3e140fdd8ae"),
    ("4ccd089b28ff96da9db6c346ec114e0f5b8a319f35aba624da8cf6ed4fb8a6fb", "72",
     "3d4017c3e843895a92b70aa74d1b7ebc9c982ccf2ec4968cc0cd55f12af4660c",
     "f3141cd382dc42909d19ec5110469e4feae18300e94f304590abdced48aed593f7eaf3eb2f1a968cba3f6e23b386aeeaab7b1ea44a256e811892e13eeae7c9f6ea8992557453eac11c4d5476b1f35a08",
     "eb4440665d3891d668e7e0fcaf587f1b4bd7fbfe99d0eb2211ccec90496310eb5e33821bc613efb94db5e5b54c70a848a0bef4553a41befc57663b56373a5031"),
    ("c5aa8df43f9f837bedb7442f31dcb7b166d38535076f094b85ce3a2e0b4458f7", "af82",
     "fc51cd8e6218a1a38da47ed00230f0580816ed13ba3303ac5deb911548908025",
     "9bc0f79119cc5604bf02d23b4caede71393cedfbb191434dd016d30177ccbf80e29dc513c01c3a980e0e545bcd848222d08a6c3e3665ff5a4cab13a643bef812e284c6b2ee063a2cb4f456794723ad0a",
     "645427e5d00c62a23fb703732fa5d892940935942101e456ecca7bb217c61c452118fec1219202a0edcf038bb6373241578be7217ba85a2687f7a0310b2df19f"),
];

/// independent re-implementation of the three hash framings of the specification
fn my_h2c(pk: &[u8], alpha: &[u8]) -> Option<EdwardsPoint> {
    for ctr in 0..=255u8 {
        let d = Sha512::new().chain_update([3u8]).chain_update([1u8]).chain_update(pk).chain_update(alpha)
            .chain_update([ctr]).chain_update([0u8]).finalize();
        let mut b = [0u8; 32]; b.copy_from_slice(&d[..32]);
        if let Some(p) = CompressedEdwardsY(b).decompress() { if !p.is_small_order() { return Some(p.mul_by_cofactor()) } }
    }
    None
}
fn my_hash_points(pts: &[EdwardsPoint]) -> Scalar {
    let mut h = Sha512::new().chain_update([3u8]).chain_update([2u8]);
    for p in pts { h.update(p.compress().to_bytes()); }
    let d = h.chain_update([0u8]).finalize();
    let mut b = [0u8; 32]; b[..16].copy_from_slice(&d[..16]);
    Scalar::from_bytes_mod_order(b)
}
fn my_beta(gamma: &EdwardsPoint) -> Vec<u8> {
    let p8 = gamma + gamma; let p8 = p8 + p8; let p8 = p8 + p8;
    Sha512::new().chain_update([3u8]).chain_update([3u8]).chain_update(p8.compress().to_bytes()).chain_update([0u8]).finalize().to_vec()
}
fn secret_scalar(sk: &[u8]) -> Scalar {
    let d = Sha512::digest(sk); let mut b = [0u8; 32]; b.copy_from_slice(&d[..32]);
    Scalar::from_bytes_mod_order(clamp_integer(b))
}

fn vrf_case(rng: &mut Rng, skb: &[u8], alpha: &[u8], nflips: usize, label: &str) -> J {
    let sk = ecvrf::SecretKey::from_bytes(skb).unwrap();
    let pk = ecvrf::PublicKey::from(&sk);
    let pkb = to_bytes(&pk);
    let p1 = match g(|| sk.prove(&pk, alpha)) { Ok(p) => p, Err(e) => return json!({"k": "vrf", "label": label, "panic": e}) };
    let p2 = g(|| sk.prove(&pk, alpha)).unwrap();
    let kp = ecvrf::Keypair { secret: ecvrf::SecretKey::from_bytes(skb).unwrap(), public: pk };
    let p3 = g(|| kp.prove(alpha)).unwrap();
    let pb = to_bytes(&p1);
    let deterministic = pb == to_bytes(&p2) && pb == to_bytes(&p3) && p1.to_hash() == p2.to_hash();
    let ok = g(|| pk.verify(&p1, alpha));
    let reparsed: Option<ecvrf::Proof> = from_bytes(&mut &pb[..]).ok();
    let roundtrip = reparsed.as_ref().map(|q| *q == p1 && q.to_hash() == p1.to_hash()).unwrap_or(false);
    // other message / other key
    let mut alphas: Vec<Vec<u8>> = Vec::new();
    if !alpha.is_empty() { alphas.push(flip(alpha, rng.below(alpha.len() as u64 * 8) as usize)); alphas.push(alpha[..alpha.len() - 1].to_vec()); }
    let mut a = alpha.to_vec(); a.push(0); alphas.push(a);
    let other_msg: Vec<J> = alphas.iter().map(|a| jb(g(|| pk.verify(&p1, a)))).collect();
    let sk2b = rng.bytes(32);
    let pk2 = ecvrf::PublicKey::from(&ecvrf::SecretKey::from_bytes(&sk2b).unwrap());
    let other_key = g(|| pk2.verify(&p1, alpha));
    let out_other_msg_differs = alphas.iter().all(|a| sk.prove(&pk, a).to_hash() != p1.to_hash());
    // algebraic structure (the model's relations), with an independent implementation of the hashes
    let x = secret_scalar(skb);
    let y = &x * dc::ED25519_BASEPOINT_TABLE;
    let h_impl = pk.hash_to_curve(alpha);
    let h_mine = my_h2c(&pkb, alpha);
    let mut rel = json!({"pk": y.compress().to_bytes().to_vec() == pkb, "h2c": h_impl == h_mine});
    if let Some(h) = h_mine {
        let ecvrf::Proof(gamma, c, s) = &p1;
        let u = s * dc::ED25519_BASEPOINT_TABLE - c * y;
        let v = s * h - c * gamma;
        let k = s - c * x;
        rel["gamma"] = json!(*gamma == x * h);
        rel["u"] = json!(u == &k * dc::ED25519_BASEPOINT_TABLE);
        rel["v"] = json!(v == k * h);
        rel["c"] = json!(*c == my_hash_points(&[h, *gamma, u, v]));
        rel["c128"] = json!(c.to_bytes()[16..] == [0u8; 16]);
        rel["beta"] = json!(p1.to_hash().to_vec() == my_beta(gamma));
        rel["h_prime_order"] = json!(h.is_torsion_free() && !h.is_small_order());
        // a small-order component of Gamma does not change the output (cofactor multiplication)
        let tors = dc::EIGHT_TORSION[1 + rng.below(7) as usize];
        let pt = ecvrf::Proof(gamma + tors, *c, *s);
        rel["torsion_same_output"] = json!(pt.to_hash() == p1.to_hash());
        rel["torsion_proof_rejected"] = jb(g(|| !pk.verify(&pt, alpha)));
    }
    // single-bit perturbations of the serialized proof and key
    let mut flips = json!({"proof_noparse": 0, "proof_rejected": 0, "proof_same": 0, "proof_accepted": [], "key_noparse": 0, "key_rejected": 0, "key_accepted": []});
    let nbits = pb.len() * 8;
    let bits: Vec<usize> = if nflips >= nbits { (0..nbits).collect() } else { (0..nflips).map(|_| rng.below(nbits as u64) as usize).collect() };
    for b in bits {
        match from_bytes::<ecvrf::Proof, _>(&mut &flip(&pb, b)[..]) {
            Err(_) => { flips["proof_noparse"] = json!(flips["proof_noparse"].as_u64().unwrap() + 1) }
            Ok(q) => {
                if q == p1 { flips["proof_same"] = json!(flips["proof_same"].as_u64().unwrap() + 1) }
                else if g(|| pk.verify(&q, alpha)) == Ok(false) { flips["proof_rejected"] = json!(flips["proof_rejected"].as_u64().unwrap() + 1) }
                else { flips["proof_accepted"].as_array_mut().unwrap().push(json!(b)) }
            }
        }
    }
    let kbits: Vec<usize> = if nflips >= 256 { (0..256).collect() } else { (0..nflips / 2).map(|_| rng.below(256) as usize).collect() };
    for b in kbits {
        match from_bytes::<ecvrf::PublicKey, _>(&mut &flip(&pkb, b)[..]) {
            Err(_) => { flips["key_noparse"] = json!(flips["key_noparse"].as_u64().unwrap() + 1) }
            Ok(q) => {
                if g(|| q.verify(&p1, alpha)) == Ok(false) { flips["key_rejected"] = json!(flips["key_rejected"].as_u64().unwrap() + 1) }
                else { flips["key_accepted"].as_array_mut().unwrap().push(json!(b)) }
            }
        }
    }
    json!({"k": "vrf", "label": label, "alphalen": alpha.len(), "sk": hex(skb), "alpha": hex(&alpha[..alpha.len().min(64)]),
           "pk": hex(&pkb), "pi": hex(&pb), "beta": hex(&p1.to_hash()),
           "deterministic": deterministic, "ok": jb(ok), "roundtrip": roundtrip, "other_msg": other_msg, "other_key": jb(other_key),
           "out_other_msg_differs": out_other_msg_differs, "rel": rel, "flips": flips})
}

fn dlog_case(rng: &mut Rng) -> J {
    use ed25519_dalek::SigningKey;
    let mut csprng = HR(rng.clone()); rng.next();
    let signing = SigningKey::generate(&mut csprng);
    let secret = signing.to_bytes();
    let public = signing.verifying_key();
    let other = SigningKey::generate(&mut csprng).verifying_key();
    let cl = rng.below(40) as usize; let ctx = rng.bytes(cl);
    let ro = RandomOracle::domain(&ctx);
    let proof = match g(|| dlog_ed25519::prove_dlog_ed25519(&mut csprng, &mut ro.split(), &public, &secret)) { Ok(p) => p, Err(e) => return json!({"k": "dlog25519", "panic": e}) };
    let ok = g(|| dlog_ed25519::verify_dlog_ed25519(&mut ro.split(), &public, &proof));
    let other_key = g(|| dlog_ed25519::verify_dlog_ed25519(&mut ro.split(), &other, &proof));
    let mut c2 = ctx.clone(); c2.push(1);
    let other_ctx = g(|| dlog_ed25519::verify_dlog_ed25519(&mut RandomOracle::domain(&c2), &public, &proof));
    // structure: response = w - c*x, challenge = RO(ctx, "dlog_ed25519" pk, "randomised_point" w*B)
    let pb = to_bytes(&proof);
    let mut cb = [0u8; 32]; cb.copy_from_slice(&pb[..32]);
    let mut rb = [0u8; 32]; rb.copy_from_slice(&pb[32..]);
    let c = Scalar::from_bytes_mod_order(cb); let resp = Scalar::from_bytes_mod_order(rb);
    let x = secret_scalar(&secret);
    let w = resp + c * x;
    let mut ro2 = ro.split();
    ro2.append_message(b"dlog_ed25519", &public);
    ro2.append_message(b"randomised_point", &(&w * dc::ED25519_BASEPOINT_TABLE).compress().to_bytes());
    let chb = ro2.split().get_challenge();
    let mut arr = [0u8; 32]; arr.copy_from_slice(chb.as_ref());
    let rel = Scalar::from_bytes_mod_order(arr) == c;
    let mut rej = Vec::new();
    for _ in 0..8 {
        let bit = rng.below(512) as usize;
        rej.push(match from_bytes::<dlog_ed25519::Ed25519DlogProof, _>(&mut &flip(&pb, bit)[..]) {
            Err(_) => json!("noparse"),
            Ok(q) => if q == proof { json!("same") } else { jb(g(|| dlog_ed25519::verify_dlog_ed25519(&mut ro.split(), &public, &q))) },
        });
    }
    json!({"k": "dlog25519", "ok": jb(ok), "other_key": jb(other_key), "other_ctx": jb(other_ctx), "rel": rel, "flipped": rej})
}

fn vrf_mode(seed: u64, n: u64, nflips: usize) {
    let mut rng = Rng::new(seed ^ 0x7f);
    for (i, (sk, alpha, pk, pi, beta)) in VECTORS.iter().enumerate() {
        let skb = hlib::unhex(sk); let ab = hlib::unhex(alpha);
        let mut r = vrf_case(&mut rng, &skb, &ab, nflips, &format!("rfc{}", i));
        r["vector_ok"] = json!(r["pk"] == *pk && r["pi"] == *pi && r["beta"] == *beta);
        println!("{}", r);
    }
    for i in 0..n {
        let skb = match i % 7 { 0 => vec![0u8; 32], 1 => vec![0xffu8; 32], _ => rng.bytes(32) };
        let alpha = match i % 5 { 0 => vec![], 1 => rng.bytes(1), 2 => rng.bytes(32), 3 => vec![0u8; 64], _ => rng.bytes(1000) };
        println!("{}", vrf_case(&mut rng, &skb, &alpha, nflips, "rand"));
        println!("{}", dlog_case(&mut rng));
    }
}

// ------------------------------------------------------------------ single-bit perturbations (BLS / PS on BLS12-381)
fn bits_mode(seed: u64, n: u64, per: usize) {
    let mut rng = Rng::new(seed ^ 0xb175);
    type P = Bls12;
    for i in 0..n {
        let skv = s_rand_nz(&mut rng);
        let sk = mk_sk::<P>(&skv);
        let pk = agg::PublicKey::<P>::from_secret(&sk);
        let m = message(&mut rng, i as usize + 1);
        let sig = sk.sign(&m);
        let ok = g(|| pk.verify(&m, sig));
        let sb = to_bytes(&sig); let kb = to_bytes(&pk);
        let mut st = json!({"sig_noparse": 0, "sig_rejected": 0, "sig_same": 0, "sig_accepted": [], "key_noparse": 0, "key_rejected": 0, "key_same": 0, "key_accepted": [],
                            "msg_rejected": 0, "msg_accepted": []});
        let inc = |st: &mut J, k: &str| { st[k] = json!(st[k].as_u64().unwrap() + 1) };
        let pick = |rng: &mut Rng, nbits: usize| -> Vec<usize> { if per >= nbits { (0..nbits).collect() } else { (0..per).map(|_| rng.below(nbits as u64) as usize).collect() } };
        for b in pick(&mut rng, sb.len() * 8) {
            match from_bytes::<agg::Signature<P>, _>(&mut &flip(&sb, b)[..]) {
                Err(_) => inc(&mut st, "sig_noparse"),
                Ok(q) => if q == sig { inc(&mut st, "sig_same") } else if g(|| pk.verify(&m, q)) == Ok(false) { inc(&mut st, "sig_rejected") } else { st["sig_accepted"].as_array_mut().unwrap().push(json!(b)) },
            }
        }
        for b in pick(&mut rng, kb.len() * 8) {
            match from_bytes::<agg::PublicKey<P>, _>(&mut &flip(&kb, b)[..]) {
                Err(_) => inc(&mut st, "key_noparse"),
                Ok(q) => if q == pk { inc(&mut st, "key_same") } else if g(|| q.verify(&m, sig)) == Ok(false) { inc(&mut st, "key_rejected") } else { st["key_accepted"].as_array_mut().unwrap().push(json!(b)) },
            }
        }
        if !m.is_empty() {
            for b in pick(&mut rng, m.len() * 8).into_iter().take(per.min(64)) {
                if g(|| pk.verify(&flip(&m, b), sig)) == Ok(false) { inc(&mut st, "msg_rejected") } else { st["msg_accepted"].as_array_mut().unwrap().push(json!(b)) }
            }
        }
        // parsable perturbations: add the generator to the signature / to the key
        let sig_pt: <P as Pairing>::G1 = conv(&sig).unwrap();
        let pk_pt: <P as Pairing>::G2 = conv(&pk).unwrap();
        let sig_alt: agg::Signature<P> = conv(&sig_pt.plus_point(&<P as Pairing>::G1::one_point())).unwrap();
        let pk_alt: agg::PublicKey<P> = conv(&pk_pt.plus_point(&<P as Pairing>::G2::one_point())).unwrap();
        st["alg_sig"] = jb(g(|| pk.verify(&m, sig_alt)));
        st["alg_key"] = jb(g(|| pk_alt.verify(&m, sig)));
        // PS: perturb the unblinded signature and the message scalars
        let nk = 1 + (i % 3) as usize;
        let sc = gen_ps(&mut rng, nk, nk, i % 2 == 0);
        let mut csprng = HR(rng.clone()); rng.next();
        let psk = ps_sig::SecretKey::<P> { g: <P as Pairing>::G1::one_point().mul_by_scalar(&sc.gamma), g_tilda: <P as Pairing>::G2::one_point().mul_by_scalar(&sc.gamma_t), ys: sc.ys.clone(), x: sc.x };
        let ppk = ps_sig::PublicKey::<P>::from(&psk);
        let mut cmm = ppk.g.mul_by_scalar(&sc.mask);
        for (y, mm) in ppk.ys.iter().zip(sc.ms.iter()) { cmm = cmm.plus_point(&y.mul_by_scalar(mm)); }
        let psig = psk.sign_unknown_message(&ps_sig::UnknownMessage(cmm), &mut csprng).retrieve(&ps_sig::SigRetrievalRandomness::new(sc.mask));
        let km = ps_sig::KnownMessage::<P>(sc.ms.clone());
        let ps_ok = g(|| ppk.verify(&psig, &km));
        let psb = to_bytes(&psig);
        let mut pst = json!({"sig_noparse": 0, "sig_rejected": 0, "sig_same": 0, "sig_accepted": [], "msg_noparse": 0, "msg_rejected": 0, "msg_accepted": []});
        for b in pick(&mut rng, psb.len() * 8) {
            match from_bytes::<ps_sig::Signature<P>, _>(&mut &flip(&psb, b)[..]) {
                Err(_) => inc(&mut pst, "sig_noparse"),
                Ok(q) => if q == psig { inc(&mut pst, "sig_same") } else if g(|| ppk.verify(&q, &km)) == Ok(false) { inc(&mut pst, "sig_rejected") } else { pst["sig_accepted"].as_array_mut().unwrap().push(json!(b)) },
            }
        }
        let mb = to_bytes(&km);
        for b in pick(&mut rng, (mb.len() - 4) * 8).into_iter().take(per.min(64)) {
            match from_bytes::<ps_sig::KnownMessage<P>, _>(&mut &flip(&mb, 32 + b)[..]) {
                Err(_) => inc(&mut pst, "msg_noparse"),
                Ok(q) => if g(|| ppk.verify(&psig, &q)) == Ok(false) { inc(&mut pst, "msg_rejected") } else { pst["msg_accepted"].as_array_mut().unwrap().push(json!(b)) },
            }
        }
        println!("{}", json!({"k": "bits", "ok": jb(ok), "msglen": m.len(), "bls": st, "ps_ok": jb(ps_ok), "ps": pst, "ps_n": nk}));
    }
}

// ------------------------------------------------------------------ degenerate keys and points
fn ed_p() -> BigUint { (BigUint::from(1u8) << 255) - BigUint::from(19u8) }

/// canonical and non-canonical encodings of the 8 small-order points of ed25519
fn small_order_encodings() -> Vec<(String, [u8; 32])> {
    let mut out: Vec<(String, [u8; 32])> = Vec::new();
    for (i, t) in dc::EIGHT_TORSION.iter().enumerate() {
        let b = t.compress().to_bytes();
        out.push((format!("torsion{}", i), b));
        // the other sign bit: for x = 0 a non-canonical encoding of the same point
        let mut f = b; f[31] ^= 0x80;
        if !out.iter().any(|(_, x)| *x == f) && !dc::EIGHT_TORSION.iter().any(|q| q.compress().to_bytes() == f) { out.push((format!("torsion{}-signbit", i), f)); }
        // y + p when it fits in 255 bits
        let mut yb = b; let sign = yb[31] & 0x80; yb[31] &= 0x7f;
        let y = BigUint::from_bytes_le(&yb);
        if y < BigUint::from(19u8) {
            let mut e = (y + ed_p()).to_bytes_le(); e.resize(32, 0);
            let mut a = [0u8; 32]; a.copy_from_slice(&e);
            for sb in [sign, sign ^ 0x80] { let mut c = a; c[31] |= sb; out.push((format!("torsion{}-y+p-sign{}", i, sb >> 7), c)); }
        }
    }
    out
}

/// The forgery the model predicts for a key Y with 8*Y = 0 (theorem vrf_small_order_key_forgeable):
/// Gamma = identity, c = hash_points(H, 0, k*B, k*H) with c*Y = 0 (grind k), s = k.
fn forge_for_small_order_key(rng: &mut Rng, pk: &ecvrf::PublicKey, y: &EdwardsPoint, alpha: &[u8]) -> Option<ecvrf::Proof> {
    use curve25519_dalek::traits::Identity;
    let h = pk.hash_to_curve(alpha)?;
    let id = EdwardsPoint::identity();
    for _ in 0..2000 {
        let mut kb = [0u8; 64]; kb.copy_from_slice(&rng.bytes(64));
        let k = Scalar::from_bytes_mod_order_wide(&kb);
        let c = ecvrf::hash_points(&[h.compress(), id.compress(), (&k * dc::ED25519_BASEPOINT_TABLE).compress(), (k * h).compress()]);
        if c * y == id { return Some(ecvrf::Proof(id, c, k)); }
    }
    None
}

fn forge_report(rng: &mut Rng, pk: &ecvrf::PublicKey, y: &EdwardsPoint) -> J {
    let alphas: Vec<Vec<u8>> = vec![vec![], b"c19".to_vec(), rng.bytes(40)];
    let mut res = Vec::new();
    for a in &alphas {
        match forge_for_small_order_key(rng, pk, y, a) {
            None => res.push(json!({"alpha": hex(a), "forged": false})),
            Some(pf) => res.push(json!({"alpha": hex(a), "forged": true, "proof": hex(&to_bytes(&pf)),
                                        "accepted": jb(g(|| pk.verify(&pf, a))), "beta": hex(&pf.to_hash())})),
        }
    }
    json!(res)
}

fn keys_mode(seed: u64) {
    use curve25519_dalek::traits::Identity;
    let mut rng = Rng::new(seed ^ 0x6b65);
    // (1) small-order / non-canonical encodings as VRF public keys
    for (label, bytes) in small_order_encodings() {
        let parsed = from_bytes::<ecvrf::PublicKey, _>(&mut &bytes[..]);
        let pt = CompressedEdwardsY(bytes).decompress();
        let mut r = json!({"k": "vrfkey", "label": label, "bytes": hex(&bytes), "decompresses": pt.is_some(),
                           "small_order": pt.map(|p| p.is_small_order()), "parsed": parsed.is_ok()});
        if let (Ok(pk), Some(y)) = (parsed, pt) {
            r["verify_key"] = json!(pk.verify_key());
            r["forgery"] = forge_report(&mut rng, &pk, &y);
        }
        println!("{}", r);
    }
    // the identity key can be constructed without deserialization (`#[derive(Default)]`)
    {
        let pk = ecvrf::PublicKey::default();
        let id = EdwardsPoint::identity();
        println!("{}", json!({"k": "vrfdefault", "verify_key": pk.verify_key(), "reparses": from_bytes::<ecvrf::PublicKey, _>(&mut &to_bytes(&pk)[..]).is_ok(),
                              "forgery": forge_report(&mut rng, &pk, &id)}));
    }
    // (2) small-order Gamma inside proofs for an honest key: decisions must equal the model's equation and be rejections
    {
        let skb = rng.bytes(32);
        let sk = ecvrf::SecretKey::from_bytes(&skb).unwrap();
        let pk = ecvrf::PublicKey::from(&sk);
        let pkb = to_bytes(&pk);
        let y = CompressedEdwardsY::from_slice(&pkb).unwrap().decompress().unwrap();
        let alpha = rng.bytes(20);
        let honest = sk.prove(&pk, &alpha);
        let h = my_h2c(&pkb, &alpha).unwrap();
        for (i, t) in dc::EIGHT_TORSION.iter().enumerate() {
            let mut kb = [0u8; 64]; kb.copy_from_slice(&rng.bytes(64));
            let k = Scalar::from_bytes_mod_order_wide(&kb);
            let cg = ecvrf::hash_points(&[h.compress(), t.compress(), (&k * dc::ED25519_BASEPOINT_TABLE).compress(), (k * h).compress()]);
            let tries: Vec<(&str, Scalar, Scalar)> = vec![("honest-c-s", honest.1, honest.2), ("zero", Scalar::ZERO, Scalar::ZERO),
                                                          ("c0-srand", Scalar::ZERO, k), ("grind", cg, k)];
            let mut res = Vec::new();
            for (lab, c, s) in tries {
                let mut pb = t.compress().to_bytes().to_vec(); pb.extend_from_slice(&c.to_bytes()[..16]); pb.extend_from_slice(&s.to_bytes());
                let q = from_bytes::<ecvrf::Proof, _>(&mut &pb[..]);
                let u = &s * dc::ED25519_BASEPOINT_TABLE - c * y;
                let v = s * h - c * t;
                let model = c == my_hash_points(&[h, *t, u, v]);
                res.push(match q {
                    Err(_) => json!({"try": lab, "parsed": false, "model": model}),
                    Ok(q) => json!({"try": lab, "parsed": true, "model": model, "accepted": jb(g(|| pk.verify(&q, &alpha))),
                                    "beta_is_identity_hash": q.to_hash().to_vec() == my_beta(&EdwardsPoint::identity())}),
                });
            }
            println!("{}", json!({"k": "vrfgamma", "torsion": i, "gamma": hex(&t.compress().to_bytes()), "pk": hex(&pkb), "alpha": hex(&alpha), "tries": res}));
        }
    }
    // (3) BLS / PS: identity and not-in-subgroup encodings
    {
        type P = Bls12;
        use ark_ec::AffineRepr;
        use ark_serialize::CanonicalSerialize;
        let id1 = to_bytes(&<P as Pairing>::G1::zero_point());
        let id2 = to_bytes(&<P as Pairing>::G2::zero_point());
        let pk_id = from_bytes::<agg::PublicKey<P>, _>(&mut &id2[..]).ok();
        let sig_id = from_bytes::<agg::Signature<P>, _>(&mut &id1[..]).ok();
        let sk0 = from_bytes::<agg::SecretKey<P>, _>(&mut &to_bytes(&s_u64(0))[..]).ok();
        let skv = s_rand_nz(&mut rng);
        let sk = mk_sk::<P>(&skv);
        let pk = agg::PublicKey::<P>::from_secret(&sk);
        let m1 = b"message one".to_vec(); let m2 = b"message two".to_vec();
        let mut r = json!({"k": "blsid", "pk_identity_parsed": pk_id.is_some(), "sig_identity_parsed": sig_id.is_some(), "sk_zero_parsed": sk0.is_some()});
        if let Some(s0) = sig_id {
            // the identity signature under an honest (non-identity) key must be rejected
            r["identity_sig_honest_key"] = jb(g(|| pk.verify(&m1, s0)));
            if let Some(p0) = pk_id {
                r["identity_sig_identity_key"] = json!([jb(g(|| p0.verify(&m1, s0))), jb(g(|| p0.verify(&m2, s0)))]);
                let honest = sk.sign(&m1);
                r["identity_key_honest_sig"] = jb(g(|| p0.verify(&m1, honest)));
                // an (m2, identity key) pair added to a valid aggregate
                r["aggregate_with_identity_pair"] = jb(g(|| agg::verify_aggregate_sig(&[(&m1[..], pk), (&m2[..], p0)], honest)));
                r["trusted_keys_with_identity_key"] = jb(g(|| agg::verify_aggregate_sig_trusted_keys(&m1, &[pk, p0], honest)));
                let ro = RandomOracle::domain(b"ctx");
                if let Some(z) = sk0 {
                    r["sk_zero_pk_is_identity"] = json!(agg::PublicKey::<P>::from_secret(&z) == p0);
                    let mut csprng = HR(rng.clone());
                    let pf = z.prove(&mut csprng, &mut ro.split());
                    r["pop_for_identity_key"] = jb(g(|| p0.check_proof(&mut ro.split(), &pf)));
                }
            }
        }
        println!("{}", r);
        // points on the curve but outside the prime-order subgroup
        let mut g1 = Vec::new(); let mut g2 = Vec::new();
        let mut tries = 0;
        while (g1.len() < 4 || g2.len() < 4) && tries < 400 {
            tries += 1;
            let x = ark_bls12_381::Fq::from(rng.next());
            if g1.len() < 4 {
                if let Some(p) = ark_bls12_381::G1Affine::get_point_from_x_unchecked(x, rng.chance(1, 2)) {
                    if !p.is_in_correct_subgroup_assuming_on_curve() && !p.is_zero() {
                        let mut b = Vec::new(); p.serialize_compressed(&mut b).unwrap();
                        let sig = from_bytes::<agg::Signature<P>, _>(&mut &b[..]).ok();
                        let mut b2 = b.clone(); b2.extend_from_slice(&b);
                        let ps = from_bytes::<ps_sig::Signature<P>, _>(&mut &b2[..]).ok();
                        g1.push(json!({"bytes": hex(&b), "bls_sig_parsed": sig.is_some(), "ps_sig_parsed": ps.is_some(),
                                       "bls_verify": sig.map(|s| jb(g(|| pk.verify(&m1, s))))}));
                    }
                }
            }
            if g2.len() < 4 {
                let x2 = ark_bls12_381::Fq2::new(x, ark_bls12_381::Fq::from(rng.next()));
                if let Some(p) = ark_bls12_381::G2Affine::get_point_from_x_unchecked(x2, rng.chance(1, 2)) {
                    if !p.is_in_correct_subgroup_assuming_on_curve() && !p.is_zero() {
                        let mut b = Vec::new(); p.serialize_compressed(&mut b).unwrap();
                        let k = from_bytes::<agg::PublicKey<P>, _>(&mut &b[..]).ok();
                        g2.push(json!({"bytes": hex(&b), "bls_key_parsed": k.is_some(),
                                       "bls_verify": k.map(|k| jb(g(|| k.verify(&m1, sk.sign(&m1)))))}));
                    }
                }
            }
        }
        println!("{}", json!({"k": "subgroup", "g1": g1, "g2": g2}));
        // PS: signatures with an identity component
        let sc = gen_ps(&mut rng, 2, 2, true);
        let psk = ps_sig::SecretKey::<P> { g: <P as Pairing>::G1::one_point(), g_tilda: <P as Pairing>::G2::one_point(), ys: sc.ys.clone(), x: sc.x };
        let ppk = ps_sig::PublicKey::<P>::from(&psk);
        let km = ps_sig::KnownMessage::<P>(sc.ms.clone());
        let mut csprng = HR(rng.clone());
        let good = psk.sign_known_message(&km, &mut csprng).unwrap();
        let z1 = <P as Pairing>::G1::zero_point();
        let variants = vec![("a=0,b=0", ps_sig::Signature::<P>(z1, z1)), ("a=0", ps_sig::Signature::<P>(z1, good.1)), ("b=0", ps_sig::Signature::<P>(good.0, z1))];
        let res: Vec<J> = variants.iter().map(|(l, s)| {
            let rt: Option<ps_sig::Signature<P>> = conv(s);
            json!({"sig": l, "reparses": rt.is_some(), "accepted": jb(g(|| ppk.verify(s, &km)))})
        }).collect();
        println!("{}", json!({"k": "psid", "good": jb(g(|| ppk.verify(&good, &km))), "variants": res}));
    }
}

// ------------------------------------------------------------------ ECVRF: oracle tables for the executable byte-level model (VrfBytesExec.v)
struct Ops { mul: Vec<J>, add: Vec<J>, neg: Vec<J>, dec: Vec<J> }
fn sc_dec(s: &Scalar) -> String { BigUint::from_bytes_le(&s.to_bytes()).to_string() }
fn ph(p: &EdwardsPoint) -> String { hex(&p.compress().to_bytes()) }
impl Ops {
    fn new() -> Ops { Ops { mul: vec![], add: vec![], neg: vec![], dec: vec![] } }
    fn mul(&mut self, s: &Scalar, p: &EdwardsPoint) -> EdwardsPoint { let r = s * p; self.mul.push(json!([sc_dec(s), ph(p), ph(&r)])); r }
    fn mul8(&mut self, p: &EdwardsPoint) -> EdwardsPoint { let r = p.mul_by_cofactor(); self.mul.push(json!(["8", ph(p), ph(&r)])); r }
    fn sub(&mut self, p: &EdwardsPoint, q: &EdwardsPoint) -> EdwardsPoint {
        let nq = -q; self.neg.push(json!([ph(q), ph(&nq)]));
        let r = p + nq; self.add.push(json!([ph(p), ph(&nq), ph(&r)])); r
    }
    fn dec(&mut self, b: &[u8]) -> Option<EdwardsPoint> {
        let mut a = [0u8; 32]; if b.len() < 32 { return None } a.copy_from_slice(&b[..32]);
        let r = CompressedEdwardsY(a).decompress();
        self.dec.push(json!([hex(&a), r.map(|p| ph(&p))])); r
    }
    fn json(&self) -> J { json!({"mul": self.mul, "add": self.add, "neg": self.neg, "dec": self.dec}) }
}
/// the candidate loop of hash_to_curve with every decompression / cofactor multiplication recorded
fn h2c_trace(ops: &mut Ops, pkb: &[u8], alpha: &[u8]) -> (Vec<String>, Option<EdwardsPoint>) {
    let mut cands = Vec::new();
    for ctr in 0..=255u8 {
        let d = Sha512::new().chain_update([3u8]).chain_update([1u8]).chain_update(pkb).chain_update(alpha).chain_update([ctr]).chain_update([0u8]).finalize();
        cands.push(hex(&d[..32]));
        if let Some(p) = ops.dec(&d[..32]) { let p8 = ops.mul8(&p); if !p.is_small_order() { return (cands, Some(p8)) } }
    }
    (cands, None)
}
/// everything PublicKey::verify computes, recorded; decision from the real code
fn verify_trace(ops: &mut Ops, pk: &ecvrf::PublicKey, y: &EdwardsPoint, pib: &[u8], alpha: &[u8], label: &str) -> J {
    let pkb = to_bytes(pk);
    let parsed: Option<ecvrf::Proof> = from_bytes(&mut &pib[..]).ok();
    let (cands, h) = h2c_trace(ops, &pkb, alpha);
    let mut r = json!({"label": label, "alpha": hex(alpha), "pi": hex(pib), "cands": cands, "parsed": parsed.is_some()});
    if let Some(hp) = pk.hash_to_curve(alpha) { r["H_impl"] = json!(ph(&hp)); }
    if let (Some(h), Some(pr)) = (h, parsed) {
        let _ = ops.dec(&pib[..32]);
        let ecvrf::Proof(gamma, c, s) = &pr;
        let sb = ops.mul(s, &dc::ED25519_BASEPOINT_POINT); let cy = ops.mul(c, y); let u = ops.sub(&sb, &cy);
        let sh = ops.mul(s, &h); let cg = ops.mul(c, gamma); let v = ops.sub(&sh, &cg);
        let g8 = ops.mul8(gamma);
        r["H"] = json!(ph(&h)); r["Gamma"] = json!(ph(gamma)); r["U"] = json!(ph(&u)); r["V"] = json!(ph(&v)); r["G8"] = json!(ph(&g8));
        r["c"] = json!(sc_dec(c)); r["s"] = json!(sc_dec(s));
        r["decision"] = jb(g(|| pk.verify(&pr, alpha)));
        r["beta"] = json!(hex(&pr.to_hash()));
        r["reser"] = json!(hex(&to_bytes(&pr)));
    }
    r
}
fn l_big() -> BigUint { (BigUint::from(1u8) << 252) + BigUint::parse_bytes(b"27742317777372353535851937790883648493", 10).unwrap() }
fn le32(x: &BigUint) -> Vec<u8> { let mut v = x.to_bytes_le(); v.resize(32, 0); v.truncate(32); v }

fn vrfx_case(rng: &mut Rng, skb: &[u8], alpha: &[u8]) -> J {
    let sk = ecvrf::SecretKey::from_bytes(skb).unwrap();
    let pk = ecvrf::PublicKey::from(&sk);
    let pkb = to_bytes(&pk);
    let pr = match g(|| sk.prove(&pk, alpha)) { Ok(p) => p, Err(e) => return json!({"k": "vrfx", "panic": e}) };
    let pib = to_bytes(&pr);
    let mut ops = Ops::new();
    let x = secret_scalar(skb);
    let y = ops.mul(&x, &dc::ED25519_BASEPOINT_POINT);
    let _ = ops.dec(&pkb); let _ = ops.mul8(&y);
    // prove: Gamma = x*H, k*B, k*H for k = s - c*x
    let (cands, h) = h2c_trace(&mut ops, &pkb, alpha);
    let h = h.unwrap();
    let ecvrf::Proof(gamma, c, s) = &pr;
    let k = s - c * x;
    let gm = ops.mul(&x, &h); let kb = ops.mul(&k, &dc::ED25519_BASEPOINT_POINT); let kh = ops.mul(&k, &h); let g8 = ops.mul8(&gm);
    let prove = json!({"cands": cands, "H": ph(&h), "Gamma": ph(&gm), "U": ph(&kb), "V": ph(&kh), "G8": ph(&g8), "gamma_is_xH": gm == *gamma});
    // verifications: honest, other message, s + 1, c + 1, Gamma + small-order point
    let mut ver = Vec::new();
    ver.push(verify_trace(&mut ops, &pk, &y, &pib, alpha, "honest"));
    let mut a2 = alpha.to_vec(); a2.push(7);
    ver.push(verify_trace(&mut ops, &pk, &y, &pib, &a2, "other_msg"));
    let one = Scalar::from(1u8);
    ver.push(verify_trace(&mut ops, &pk, &y, &to_bytes(&ecvrf::Proof(*gamma, *c, s + one)), alpha, "s_plus_1"));
    let mut cb = pib.clone(); cb[32] ^= 1;
    ver.push(verify_trace(&mut ops, &pk, &y, &cb, alpha, "c_bit"));
    let tors = dc::EIGHT_TORSION[1 + rng.below(7) as usize];
    ver.push(verify_trace(&mut ops, &pk, &y, &to_bytes(&ecvrf::Proof(gamma + tors, *c, *s)), alpha, "gamma_torsion"));
    // malformed / non-canonical encodings of the proof: decode decisions
    let l = l_big(); let sv = BigUint::from_bytes_le(&s.to_bytes());
    let mut variants: Vec<(String, Vec<u8>)> = Vec::new();
    let with_s = |sb: Vec<u8>| { let mut v = pib[..48].to_vec(); v.extend_from_slice(&sb); v };
    variants.push(("s=l".into(), with_s(le32(&l))));
    variants.push(("s=l-1".into(), with_s(le32(&(&l - 1u8)))));
    variants.push(("s=s+l".into(), with_s(le32(&(&sv + &l)))));
    variants.push(("s=2^256-1".into(), with_s(vec![0xff; 32])));
    variants.push(("s|2^255".into(), { let mut b = s.to_bytes().to_vec(); b[31] |= 0x80; with_s(b) }));
    variants.push(("s=0".into(), with_s(vec![0; 32])));
    variants.push(("c=ff..".into(), { let mut v = pib.clone(); for i in 32..48 { v[i] = 0xff } v }));
    variants.push(("len79".into(), pib[..79].to_vec()));
    variants.push(("len81".into(), { let mut v = pib.clone(); v.push(0); v }));
    variants.push(("empty".into(), vec![]));
    variants.push(("gamma_noncanonical_identity".into(), { let mut v = pib.clone(); let p = ed_p() + 1u8; v[..32].copy_from_slice(&le32(&p)); v }));
    variants.push(("gamma_identity_signbit".into(), { let mut v = pib.clone(); for i in 0..32 { v[i] = 0 } v[0] = 1; v[31] = 0x80; v }));
    let mut gb = pib.clone();
    for t in 0..64u8 { let mut w = pib.clone(); w[1] ^= t.wrapping_add(1); let mut a = [0u8; 32]; a.copy_from_slice(&w[..32]); if CompressedEdwardsY(a).decompress().is_none() { gb = w; break } }
    variants.push(("gamma_not_on_curve".into(), gb));
    variants.push(("random80".into(), rng.bytes(80)));
    let vj: Vec<J> = variants.iter().map(|(lab, b)| {
        let _ = ops.dec(b);
        let p: Option<ecvrf::Proof> = from_bytes(&mut &b[..]).ok();
        json!({"label": lab, "bytes": hex(b), "parsed": p.is_some(), "reser": p.map(|q| hex(&to_bytes(&q)))})
    }).collect();
    json!({"k": "vrfx", "sk": hex(skb), "alpha": hex(alpha), "pk": hex(&pkb), "pi": hex(&pib), "beta": hex(&pr.to_hash()),
           "x": sc_dec(&x), "kk": sc_dec(&k), "c": sc_dec(c), "s": sc_dec(s), "B": ph(&dc::ED25519_BASEPOINT_POINT),
           "prove": prove, "verifies": ver, "variants": vj, "ops": ops.json()})
}

fn vrfx_mode(seed: u64, n: u64) {
    let mut rng = Rng::new(seed ^ 0x51f);
    for (sk, alpha, _, _, _) in VECTORS.iter() { println!("{}", vrfx_case(&mut rng, &hlib::unhex(sk), &hlib::unhex(alpha))); }
    for i in 0..n {
        let skb = match i % 7 { 5 => vec![0u8; 32], 6 => vec![0xffu8; 32], _ => rng.bytes(32) };
        let alpha = match i % 5 { 0 => vec![], 1 => rng.bytes(1), 2 => rng.bytes(32), 3 => vec![0u8; 64], _ => rng.bytes(150) };
        println!("{}", vrfx_case(&mut rng, &skb, &alpha));
    }
}

// ------------------------------------------------------------------ has_duplicates (hook) and the key sums around the 150-key threshold
fn dups_mode(seed: u64, n: u64) {
    let mut rng = Rng::new(seed ^ 0xd0b);
    for i in 0..n {
        let len = match i % 8 { 0 => 0, 1 => 1, 2 => 2, 3 => 2, 4 => 3, 5 => 5, 6 => 17, _ => 40 } as usize;
        let mut msgs: Vec<Vec<u8>> = (0..len).map(|j| { let l = rng.below(4) as usize; let mut m = rng.bytes(l); m.push(j as u8); m }).collect();
        // shape: distinct / one duplicate (adjacent, far apart, first=last) / all equal / two duplicated pairs
        let shape = if len < 2 { 0 } else { rng.below(6) };
        match shape {
            1 => { let a = rng.below(len as u64 - 1) as usize; msgs[a + 1] = msgs[a].clone() }
            2 => { let a = rng.below(len as u64) as usize; let b = rng.below(len as u64) as usize; if a != b { msgs[b] = msgs[a].clone() } }
            3 => { msgs[len - 1] = msgs[0].clone() }
            4 => { let m = msgs[0].clone(); for x in msgs.iter_mut() { *x = m.clone() } }
            5 => { if len >= 4 { msgs[1] = msgs[0].clone(); msgs[len - 1] = msgs[len - 2].clone() } }
            _ => {}
        }
        let refs: Vec<&[u8]> = msgs.iter().map(|m| &m[..]).collect();
        let r = g(|| agg::verif_has_duplicates(&refs));
        match r {
            Ok((d, hs)) => println!("{}", json!({"k": "dups", "len": len, "shape": shape, "msgs": msgs.iter().map(|m| hex(m)).collect::<Vec<_>>(),
                                                 "has_duplicates": d, "digests": hs.iter().map(|h| hex(h)).collect::<Vec<_>>()})),
            Err(e) => println!("{}", json!({"k": "dups", "len": len, "panic": e})),
        }
    }
}

fn par_run<P: Pairing<ScalarField = S>>(sks: &[S], m: &[u8]) -> J {
    let keys: Vec<agg::SecretKey<P>> = sks.iter().map(mk_sk::<P>).collect();
    let pks: Vec<agg::PublicKey<P>> = keys.iter().map(agg::PublicKey::from_secret).collect();
    let mut sig = agg::Signature::<P>::empty();
    for k in keys.iter() { sig = sig.aggregate(k.sign(m)); }
    let bad = sig.aggregate(mk_sk::<P>(&s_u64(1)).sign(m));
    let groups: Vec<(&[u8], &[agg::PublicKey<P>])> = vec![(m, &pks[..])];
    json!({"trusted": jb(g(|| agg::verify_aggregate_sig_trusted_keys(m, &pks, sig))),
           "trusted_bad": jb(g(|| agg::verify_aggregate_sig_trusted_keys(m, &pks, bad))),
           "hybrid": jb(g(|| agg::verify_aggregate_sig_hybrid(&groups, sig))),
           "hybrid_bad": jb(g(|| agg::verify_aggregate_sig_hybrid(&groups, bad))),
           "sig": hex(&to_bytes(&sig))})
}

fn par_mode(seed: u64) {
    let mut rng = Rng::new(seed ^ 0x9a7);
    for n in [0usize, 1, 2, 3, 7, 148, 149, 150, 151, 152, 299, 300, 301] {
        let sks: Vec<S> = (0..n).map(|_| s_rand(&mut rng)).collect();
        let m = rng.bytes(5);
        let mut toy = par_run::<Toy>(&sks, &m);
        let tb = hlib::unhex(toy["sig"].as_str().unwrap_or(""));
        toy["sig_exp"] = json!(from_bytes::<S, _>(&mut &tb[..]).map(|s| s_dec(&s)).unwrap_or_default());
        let real = if n <= 152 { par_run::<Bls12>(&sks, &m) } else { json!(null) };
        println!("{}", json!({"k": "par", "n": n, "sks": sks.iter().map(s_dec).collect::<Vec<_>>(), "h": s_dec(&toy_hash(&m)), "toy": toy, "real": real,
                              "threads": std::env::var("RAYON_NUM_THREADS").unwrap_or_default()}));
    }
}

fn main() {
    hlib::quiet_panics();
    let a: Vec<String> = std::env::args().collect();
    let mode = a.get(1).map(|s| s.as_str()).unwrap_or("");
    let seed: u64 = a.get(2).and_then(|s| s.parse().ok()).unwrap_or(1);
    let n: u64 = a.get(3).and_then(|s| s.parse().ok()).unwrap_or(1);
    let extra: usize = a.get(4).and_then(|s| s.parse().ok()).unwrap_or(0);
    match mode {
        "bls" => bls_mode(seed, n, extra == 1),
        "ps" => ps_mode(seed, n),
        "pop" => pop_mode(seed, n),
        "vrf" => vrf_mode(seed, n, if extra == 0 { 48 } else { extra }),
        "bits" => bits_mode(seed, n, if extra == 0 { 48 } else { extra }),
        "keys" => keys_mode(seed),
        "vrfx" => vrfx_mode(seed, n),
        "dups" => dups_mode(seed, n),
        "par" => par_mode(seed),
        _ => { eprintln!("usage: c19 bls|ps|pop|vrf|bits <seed> <n> [extra]"); std::process::exit(2) }
    }
}
