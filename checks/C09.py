"""C09 - validation admits only safe modules; parsing and validation are total.

  0. translators/gen_limits.py: wasm-transform/src/constants.rs -> coq/Gen/Limits.v (every run, loud on failure)
  1. Coq: Props/C09.v (validate_sound, type soundness on the reference semantics, LEB128, limits)
  2. harness c09 (hooks H2 on): structured cases (valid modules, instruction/module-level mutants) through
     utils::instantiate (V0/V1, plain and metered) and validate::validate; byte/LEB128/section-level mutants,
     random bytes and the .wasm corpus under all import validators; accepted modules are executed
  3. correspondence: extracted Validate model (OCaml) vs implementation on accept/reject, per-function
     max stack height; LEB128 readers vs Leb128.v and an independent decoder of the specification's grammar
"""
import importlib.util
import json
import os
import subprocess

from . import common as c

KF_TRAILING = "KF-C09-1"
# module whose only function body is `end nop` (bytes 0b 01): not an expression of the binary grammar
KF_WITNESS_HEX = ("0061736d01000000" "010401600000" "03020100" "0706010266300000" "0a050103000b01")


def wasm_corpus(repo):
    out = []
    for root, _, files in os.walk(repo):
        if "/target" in root or "/.git" in root:
            continue
        for f in files:
            if f.endswith(".wasm"):
                out.append(os.path.join(root, f))
    return sorted(out)


def run_model(runner, lines, timeout=1200):
    p = subprocess.run(["sh", "-c", "ulimit -s 1000000 2>/dev/null; exec \"$0\"", runner],
                       input=("\n".join(lines) + "\n").encode(), stdout=subprocess.PIPE,
                       stderr=subprocess.STDOUT, timeout=timeout)
    return p.returncode, p.stdout.decode("utf-8", "replace").splitlines()


# ---- independent LEB128 decoder: the grammar of the specification (binary format 5.2.2) -----------------
def spec_uleb(bs, nbits):
    """uN ::= n:byte (n < 2^7, n < 2^N) | n:byte m:u(N-7) (n >= 2^7, N > 7) => 2^7*m + (n - 2^7)"""
    if not bs:
        return None
    n = bs[0]
    if n < 128:
        return (n, 1) if n < (1 << nbits) else None
    if nbits <= 7:
        return None
    r = spec_uleb(bs[1:], nbits - 7)
    if r is None:
        return None
    return (128 * r[0] + (n - 128), r[1] + 1)


def spec_sleb(bs, nbits):
    """sN ::= n (n < 2^6, n < 2^(N-1)) | n (2^6 <= n < 2^7, n >= 2^7 - 2^(N-1)) => n - 2^7 | n m:s(N-7) (n >= 2^7, N > 7)"""
    if not bs:
        return None
    n = bs[0]
    if n < 64:
        return (n, 1) if n < (1 << (nbits - 1)) else None
    if n < 128:
        return (n - 128, 1) if n >= 128 - (1 << (nbits - 1)) else None
    if nbits <= 7:
        return None
    r = spec_sleb(bs[1:], nbits - 7)
    if r is None:
        return None
    return (128 * r[0] + (n - 128), r[1] + 1)


def run(ctx):
    kf = c.load_known_findings()
    known_ids = {f["id"] for f in kf["findings"] if f["property"] == "C09"}
    repo = c.REPO
    ctx.assumptions += [
        "undefined behaviour of the COMPILED code is observable only through hook H2 (cfg concordium_base_verif: bounds assertions next to every unchecked access of machine.rs) and catch_unwind; machine safety is correspondence-only (no theorem over Machine.v); safety on the reference semantics is proved (accepted_never_stuck)",
        "the parser (parse.rs) is modelled in Wasm/Parse.v (skeleton, all sections, opcode decoder, constant expressions, LEB128) and tied on every byte-level case of at most 64 KiB (verdict under both configs, skeleton sections or error class); totality and the allocation bound are theorems about that model; the implementation itself is additionally exercised for panics/hangs (catch_unwind, watchdog); instruction indices are truncated to the input length in the model (no index space can be longer)",
        "the model keeps each control frame's operands inside the frame (data refinement of the single operand vector with frame heights); equality of verdict and max height with the implementation is checked on every structured case",
        "import/export name tables of the v0/v1 validators: transcribed in Wasm/Imports.v and tied query by query (every validate_import_function / validate_export_function call of the harness is also answered by the extracted Coq tables), plus an independently written expectation table in the harness",
        "type soundness is proved for the reference semantics Wasm/Sem.v under well-typed host functions (hypothesis host_ok); the decoding of the binary into the structured module (corresponds vm m) is a hypothesis of accepted_never_stuck",
    ]
    # 0. translator ------------------------------------------------------------------------------
    spec = importlib.util.spec_from_file_location("gen_limits", os.path.join(c.VERIF, "translators", "gen_limits.py"))
    gl = importlib.util.module_from_spec(spec)
    spec.loader.exec_module(gl)
    tie_broken = None
    try:
        ctx.notes["translator"] = gl.generate(repo, os.path.join(c.COQ, "Gen", "Limits.v"))
    except Exception as ex:
        tie_broken = "translator gen_limits failed: %s" % ex
        ctx.log(tie_broken)

    # 1. proofs ----------------------------------------------------------------------------------
    proof_broken = None
    if tie_broken is None:
        ok, info = c.coq_prove(ctx)
        if not ok:
            proof_broken = info
            ctx.log("proof obligations broken:", info["failed_file"], info["error"][-800:])

    # 2. harness ---------------------------------------------------------------------------------
    ok, binp = c.cargo_build(ctx, "c09")
    if not ok:
        ctx.violation({"layer": "harness build against the repository", "error": binp},
                      "harness no longer builds against the implementation", no_input=True)
        return
    okx, runner = c.extract_build(ctx, "ExtractC09.v", "driver_c09.ml", "c09")
    if not okx:
        ctx.violation({"layer": "model extraction", "error": runner, "tie": tie_broken},
                      "the executable validation model no longer builds (%s)" % (tie_broken or "see error"), no_input=True)
        return

    seen, nontrivial = set(), set()
    nviol = [0]

    def viol(obj, msg):
        nviol[0] += 1
        if nviol[0] <= 8:
            ctx.violation(obj, msg)

    # 3a. structured cases ----------------------------------------------------------------------
    n_struct = 150 if ctx.quick else 4000
    rc, out = c.run_bin(binp, ["struct", ctx.seed, n_struct], timeout=3000)
    cases = []
    for l in out.splitlines():
        if not l.startswith("{"):
            continue
        j = json.loads(l)
        if "violation" in j:
            viol(j, "harness: %s" % j["violation"])
        elif "stats" in j:
            ctx.notes["generator_stats"] = j["stats"]
        else:
            cases.append(j)
    if rc != 0 or not cases:
        ctx.violation({"layer": "harness run (struct)", "rc": rc, "output": out[-1500:]}, "structured harness crashed or hung", no_input=not cases)
    rcm, mout = run_model(runner, ["MOD " + cs["line"] for cs in cases])
    if len(mout) != len(cases):
        ctx.violation({"layer": "model runner", "lines": len(mout), "cases": len(cases), "tail": mout[-3:]}, "model runner failed", no_input=True)
        mout = mout + ["runner-failed"] * (len(cases) - len(mout))
    dist = {}
    mism = {"impl_accepts_model_rejects": 0, "impl_rejects_model_accepts": 0, "fn": 0, "maxheight": 0}
    kf_hits = 0
    unrep = 0
    execs = {"runs": 0}
    for cs, mo in zip(cases, mout):
        d = dist.setdefault(cs["mut"], {"n": 0, "accepted": 0, "rejected": 0, "classes": {}})
        d["n"] += 1
        key = c.digest(cs["line"])
        seen.add(key)
        acc = cs["v1"] == "ok"
        d["accepted" if acc else "rejected"] += 1
        if acc:
            nontrivial.add(key)
        else:
            cl = cs["v1"].split(":", 1)[-1][:40]
            d["classes"][cl] = d["classes"].get(cl, 0) + 1
        rep = {"id": cs["id"], "mutation": cs["mut"], "module_line": cs["line"], "module_hex": cs.get("hex", ""),
               "impl": {k: cs.get(k) for k in ("v0", "v1", "v1m", "fn", "msg", "artmem")}, "model": mo}
        # panics are always violations
        if any("PANIC" in str(cs[k]) for k in ("v0", "v1", "v1m")) or any("PANIC" in f for f in cs["fn"]):
            viol(rep, "panic in parse/validate/compile: %s" % cs["id"])
            continue
        if cs["exec"]:
            execs["runs"] += cs["exec"]["runs"]
            for k, v in cs["exec"]["dist"].items():
                execs[k] = execs.get(k, 0) + v
            if cs["exec"]["panics"]:
                rep["exec"] = cs["exec"]
                viol(rep, "accepted module panics while executing (H2 assertion or other): %s" % cs["exec"]["panics"][0][:200])
                continue
        # cases that carry their expected verdict in the name (independent of the model)
        if cs["mut"].endswith("#ok") and not acc:
            viol(rep, "valid module rejected (%s): %s" % (cs["v1"], cs["mut"]))
        if cs["mut"].endswith("#bad") and acc:
            viol(rep, "invalid module accepted: %s" % cs["mut"])
        if (cs["v1m"] == "ok") != acc:
            viol(rep, "instantiate_with_metering and instantiate disagree on %s" % cs["id"])
        if mo.startswith("unrepresentable") or mo.startswith("runner-failed") or mo.startswith("bad-command"):
            unrep += 1
            continue
        parts = dict(p.split("=", 1) for p in mo.split(" "))
        mfn = parts["fn"].split(",") if parts["fn"] else []
        early = any(f.startswith("ok:") and f.endswith(":1") for f in mfn)
        for cfgk in ("v0", "v1"):
            ia, ma = cs[cfgk] == "ok", parts[cfgk] == "ok"
            if ia == ma:
                continue
            if ia and not ma:
                mism["impl_accepts_model_rejects"] += 1
                viol(dict(rep, theorem="validate_module_sound / validate_sound"),
                     "implementation ACCEPTS a module the proved-sound validation model rejects (%s, config %s, mutation %s)" % (cs["id"], cfgk, cs["mut"]))
            else:
                mism["impl_rejects_model_accepts"] += 1
                viol(rep, "implementation REJECTS (%s) a module the model accepts (%s, config %s, mutation %s)" % (cs[cfgk], cs["id"], cfgk, cs["mut"]))
            break
        # per-function verdict and max height (validate::validate called directly)
        for i, (fi, fm) in enumerate(zip(cs["fn"], mfn)):
            if fm == "skip" or fi == "unrepresentable":
                continue
            if fi == "notype" or fm == "notype":
                if fi != fm:
                    mism["fn"] += 1
                    viol(rep, "function %d: type lookup differs" % i)
                continue
            iok, mok = fi.startswith("ok:"), fm.startswith("ok:")
            if iok != mok:
                mism["fn"] += 1
                viol(dict(rep, function=i), "validate::validate and the model disagree on function %d of %s (%s vs %s)" % (i, cs["id"], fi, fm))
            elif iok and fi.split(":")[1] != fm.split(":")[1]:
                mism["maxheight"] += 1
                viol(dict(rep, function=i), "max_reachable_height differs on function %d of %s (%s vs %s)" % (i, cs["id"], fi, fm))
        # the memory bound handed to the interpreter (Module::compile) vs artifact_memory of the model
        if acc and parts["v1"] == "ok" and cs.get("artmem", "-") != parts.get("mem"):
            mism["artifact_memory"] = mism.get("artifact_memory", 0) + 1
            viol(dict(rep, artifact_memory_impl=cs.get("artmem"), theorem="artifact_memory_bounded"),
                 "compiled artifact's memory (init:max) is %s, the model's artifact_memory says %s (max_size must be min(declared max, MAX_NUM_PAGES)) on %s"
                 % (cs.get("artmem"), parts.get("mem"), cs["id"]))
        if acc and parts["v1"] == "ok" and early:
            kf_hits += 1
            if KF_TRAILING in known_ids:
                ctx.known_finding(KF_TRAILING, "validate accepts function bodies with instructions after the final `end` (not an expression of the binary grammar; dead code)")
            else:
                viol(rep, "implementation accepts a function body with instructions after its final end (%s)" % cs["id"])
    ctx.cov["evaluations"] += len(cases)
    ctx.cov["traces_validated_against_impl"] += len(cases) - unrep
    ctx.notes["struct"] = {"cases": len(cases), "by_mutation": dist, "mismatches": mism, "model_unrepresentable": unrep,
                           "trailing_code_accepted(KF-C09-1)": kf_hits, "executions_of_accepted": execs}
    ctx.cov["samples"] += [{"id": x["id"], "mut": x["mut"], "v1": x["v1"], "fn": x["fn"], "line": x["line"][:300]} for x in cases[1:4]]

    # 3b. byte / LEB / section level, corpus ------------------------------------------------------
    n_bytes = 150 if ctx.quick else 6000
    files = wasm_corpus(repo)
    rc, out = c.run_bin(binp, ["bytes", ctx.seed, n_bytes] + files, timeout=3000)
    bstats = None
    pcases = []
    for l in out.splitlines():
        if not l.startswith("{"):
            continue
        j = json.loads(l)
        if "violation" in j:
            viol(j, "%s (%s %s)" % (j["violation"], j.get("kind", ""), j.get("id", "")))
        elif "stats" in j:
            bstats = j["stats"]
        elif "pc" in j:
            pcases.append(j)
    # ---- the parser model (Wasm/Parse.v + Validate.v) on the same byte strings -------------------
    SK = {"magic": "magic", "version": "version", "section-order": "section-order", "section-id": "section-id",
          "byte-array": "size", "eof": "eof/leb", "leb-overflow": "eof/leb", "leb-range": "eof/leb"}
    MK = {"magic": "magic", "version": "version", "section-order": "section-order", "section-id": "section-id",
          "size": "size", "eof": "eof/leb", "leb": "eof/leb"}
    rcm, mout = run_model(runner, ["BYTES " + x["b"] for x in pcases], timeout=2400)
    pm = {"cases": len(pcases), "verdict_mismatch": 0, "skeleton_mismatch": 0, "fuel": 0, "accepted": 0, "by_kind": {}, "max_alloc_per_byte": 0.0}
    for x, mo in zip(pcases, mout + ["runner-failed"] * (len(pcases) - len(mout))):
        kk = pm["by_kind"].setdefault(x["kind"], {"n": 0, "accepted": 0})
        kk["n"] += 1
        key = c.digest(x["b"])
        seen.add(key)
        rep = {"id": x["pc"], "kind": x["kind"], "module_hex": x["b"], "impl": {k: x[k] for k in ("v0", "v1", "skel")}, "model": mo}
        if not mo.startswith("v0="):
            pm["verdict_mismatch"] += 1
            viol(rep, "parser model failed on %s: %s" % (x["pc"], mo[:100]))
            continue
        parts = dict(p.split("=", 1) for p in mo.split(" "))
        if "FUEL" in mo:
            pm["fuel"] += 1
            viol(dict(rep, theorem="parse_total"), "the parser model ran out of fuel on %s" % x["pc"])
            continue
        if x["v1"] == "ok":
            kk["accepted"] += 1
            pm["accepted"] += 1
            nontrivial.add(key)
        for cfgk in ("v0", "v1"):
            ia, ma = x[cfgk] == "ok", parts[cfgk].startswith("ok")
            if "PANIC" in x[cfgk]:
                continue  # already reported by the harness
            if ia != ma:
                pm["verdict_mismatch"] += 1
                viol(dict(rep, theorem="accepted_bytes_never_stuck / parse_sections_ordered"),
                     "bytes %s (%s, config %s): implementation %s, parser+validation model %s" % (x["pc"], x["kind"], cfgk, x[cfgk], parts[cfgk]))
                break
            if ma:
                alloc = int(parts[cfgk].split(":")[1])
                n = max(1, len(x["b"]) // 2)
                pm["max_alloc_per_byte"] = max(pm["max_alloc_per_byte"], alloc / n)
                if alloc > 14 * (1000 + 64) * n:
                    viol(dict(rep, theorem="parse_alloc_bounded"), "ghost allocation %d exceeds the proved bound on %s" % (alloc, x["pc"]))
        # skeleton: same sections (id:len) when accepted, same error class when rejected
        si, sm = x["skel"], parts["skel"]
        if si.startswith("ok") or sm.startswith("ok"):
            if si != sm:
                pm["skeleton_mismatch"] += 1
                viol(dict(rep, theorem="parse_sections_ordered"), "skeleton of %s (%s): implementation %s, model %s" % (x["pc"], x["kind"], si[:120], sm[:120]))
        elif not si.startswith("PANIC"):
            ci, cm = SK.get(si[4:], "other:" + si[4:]), MK.get(sm[4:], "other:" + sm[4:])
            if ci != cm:
                pm["skeleton_mismatch"] += 1
                viol(rep, "skeleton error class of %s (%s): implementation %s, model %s" % (x["pc"], x["kind"], si, sm))
    ctx.cov["traces_validated_against_impl"] += len(pcases)
    ctx.notes["parser_model"] = pm
    if rc != 0 or bstats is None:
        ctx.violation({"layer": "harness run (bytes)", "rc": rc, "output": out[-1500:]}, "byte-level harness crashed or hung", no_input=True)
    else:
        ctx.notes["bytes"] = bstats
        ctx.cov["evaluations"] += bstats["instantiations"]
        if bstats["corpus_files"] < 90:
            ctx.violation({"layer": "corpus", "found": bstats["corpus_files"]}, "the .wasm corpus is missing", no_input=True)

    # 3c. LEB128 readers ---------------------------------------------------------------------------
    n_leb = 4000 if ctx.quick else 200000
    rc, out = c.run_bin(binp, ["leb", ctx.seed, n_leb], timeout=3000)
    lebs = [json.loads(l) for l in out.splitlines() if l.startswith("{")]
    rcm, mout = run_model(runner, ["LEB %s %s" % (x["k"], x["b"]) for x in lebs])
    ldist = {}
    lbad = 0
    for x, mo in zip(lebs, mout + ["runner-failed"] * (len(lebs) - len(mout))):
        bs = list(bytes.fromhex(x["b"]))
        nb = 32 if x["k"].endswith("32") else 64
        sp = spec_sleb(bs, nb) if x["k"].startswith("i") else spec_uleb(bs, nb)
        spec_s = "err" if sp is None else "ok %d %d" % sp
        kk = ldist.setdefault(x["k"], {"ok": 0, "err": 0})
        kk["ok" if x["r"].startswith("ok") else "err"] += 1
        key = c.digest([x["k"], x["b"]])
        seen.add(key)
        if x["r"].startswith("ok"):
            nontrivial.add(key)
        if x["r"] != mo or x["r"] != spec_s:
            lbad += 1
            viol({"case": x, "model": mo, "specification_grammar": spec_s, "theorem": "leb_u32_roundtrip / leb_decode_bounded"},
                 "LEB128 %s reader: implementation %s, model %s, specification %s on bytes %s" % (x["k"], x["r"], mo, spec_s, x["b"]))
    ctx.cov["evaluations"] += len(lebs)
    ctx.cov["traces_validated_against_impl"] += len(lebs)
    ctx.notes["leb"] = {"cases": len(lebs), "by_type": ldist, "mismatches": lbad}
    ctx.cov["samples"] += [json.dumps(x) for x in lebs[:3]]

    # 3d. import / export tables -------------------------------------------------------------------
    rc, out = c.run_bin(binp, ["imports"], timeout=600)
    imp = None
    queries = []
    for l in out.splitlines():
        if l.startswith("{"):
            j = json.loads(l)
            if "q" in j:
                queries.append(j)
            elif "imports" in j:
                imp = j["imports"]
    # the Coq tables (Wasm/Imports.v) answer the same queries
    def ft_toks(q):
        return "%d %s %d %s" % (len(q["p"]), " ".join(q["p"]), 1 if q["r"] else 0, q["r"])
    qlines = []
    for q in queries:
        if q["q"] == "imp":
            qlines.append("IMP %s %d %s %s %s" % (q["v"], 1 if q["dup"] else 0, q["mod"] or "-", q["name"] or "-", ft_toks(q)))
        else:
            qlines.append("EXP %s %s %s" % (q["v"], q["name"] or "-", ft_toks(q)))
    rcm, mout = run_model(runner, qlines)
    tbad = 0
    for q, mo in zip(queries, mout + ["runner-failed"] * (len(queries) - len(mout))):
        if mo != ("true" if q["res"] else "false"):
            tbad += 1
            viol({"layer": "ConcordiumAllowedImports vs Wasm/Imports.v", "query": q, "model": mo,
                  "name": bytes.fromhex(q["name"]).decode("latin1"), "theorem": "import_only_listed / export_v0_entry / export_v1_entry"},
                 "allowed %s table (%s): implementation says %s, the Coq table says %s for %r" % (
                     "import" if q["q"] == "imp" else "export", q["v"], q["res"], mo, bytes.fromhex(q["name"]).decode("latin1")))
    ctx.cov["traces_validated_against_impl"] += len(queries)
    ctx.notes["import_export_model_queries"] = {"queries": len(queries), "mismatches": tbad}
    if imp is None:
        ctx.violation({"layer": "harness run (imports)", "output": out[-1000:]}, "import table harness failed", no_input=True)
    else:
        ctx.notes["import_export_tables"] = {"checks": imp["checks"], "fails": len(imp["fails"])}
        ctx.cov["evaluations"] += imp["checks"]
        for f in imp["fails"][:5]:
            viol({"layer": "ConcordiumAllowedImports", "case": f}, "allowed import/export table: %s" % f)

    # 3d'. loads / stores of every width around the end of memory (independent bounds oracle) -----------
    rc, out = c.run_bin(binp, ["memsweep"], timeout=1200)
    ms = None
    for l in out.splitlines():
        if l.startswith("{"):
            j = json.loads(l)
            if "violation" in j:
                viol(j, "memory sweep: %s" % j["violation"])
            ms = j.get("memsweep", ms)
    if ms is None:
        ctx.violation({"layer": "harness run (memsweep)", "rc": rc, "output": out[-1000:]}, "memory sweep harness crashed or hung", no_input=True)
    else:
        ctx.notes["memory_access_sweep"] = {"runs": ms["runs"], "trapped": ms["traps"], "returned": ms["ok"], "bad": len(ms["bad"])}
        ctx.cov["evaluations"] += ms["runs"]
        for b in ms["bad"][:5]:
            viol({"layer": "machine.rs memory access bounds (Artifact::run)", "case": b},
                 "memory access at the end of memory: %s" % b[:300])

    # 3e. replay of the recorded finding's witness ------------------------------------------------------
    rc, out = c.run_bin(binp, ["replay"], timeout=600, input=(KF_WITNESS_HEX + "\n").encode())
    for l in out.splitlines():
        if l.startswith("{"):
            j = json.loads(l)
            ctx.notes["kf_c09_1_witness"] = {"hex": KF_WITNESS_HEX, "v0": j["v0"], "v1": j["v1"], "exec": j["exec"]}
            if "PANIC" in j["v0"] + j["v1"] + j["v1m"] or (j["exec"] and j["exec"]["panics"]):
                viol({"case": j}, "the trailing-code witness panics")
            elif j["v1"] == "ok":
                if KF_TRAILING in known_ids:
                    ctx.known_finding(KF_TRAILING, "validate accepts function bodies with instructions after the final `end` (not an expression of the binary grammar; dead code)")
                else:
                    viol({"case": j, "theorem": "validate_sound_refuted"}, "a function body `end nop` is accepted")

    ctx.cov["distinct_nontrivial"] = len(nontrivial)
    ctx.cov["rule"] = ("structured: type-directed generated modules (nested block/loop/if with results, br/br_if/br_table/return, calls, call_indirect, "
                       "memory, globals, dead code, 1/4 with host imports) each with 5 instruction-level mutants (type swap, label/local/global/function/type index, "
                       "missing/extra end/else, if-without-else with result, blocktype, alignment, 25 typed snippets incl. select/br_table/dead-code polymorphism, trailing code), "
                       "2 module-level mutants (data/elem bounds, limits, exports, globals, locals) and 2 stack-height boundary variants (locals + max height = 1024 / 1025); "
                       "bytes: byte, LEB128 (pad to max, too long, unused bits), section (reorder, duplicate, drop, sizes, start, custom, two memories/tables, unknown id) mutants, random bytes, "
                       "the 99-file corpus and its mutants under AllowAll/v0/v1 import validators x V0/V1 x plain/metered; non-trivial = accepted by the implementation; distinct = canonical case hash")
    if tie_broken:
        ctx.violation({"layer": "translator T3 (constants.rs -> Gen/Limits.v)", "error": tie_broken},
                      "constants.rs can no longer be translated: the limit theorems are not tied to the source", no_input=not ctx.violations)
    if proof_broken:
        ctx.violation({"layer": "Coq proof obligations", "broken": proof_broken},
                      "theorem(s) of Props/C09.v no longer check (%s)" % proof_broken["failed_file"], no_input=not ctx.violations)
    if ctx.tier == "thorough" and not proof_broken and not tie_broken:
        okc, outc = c.coqchk(ctx)
        if not okc:
            ctx.violation({"layer": "coqchk", "output": outc[-2000:]}, "coqchk rejected Props/C09.vo", no_input=True)
