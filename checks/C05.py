"""C05 - binary codecs: universal codec theorem (Coq) + byte-level correspondence with the Rust
Serial/Deserial impls (model-generated, implementation-generated and malformed streams) + direct
oracles (round trip, canonicity, no panic, allocation bound) on many more types."""
import json
import os
import random
from . import common as c

# schema id (Chain/ChainSchemas.v chain_schema_table) -> Rust type (harness/c05 `types!`)
SCHEMAS = {
    1: "Amount", 2: "AccountAddress", 3: "ContractAddress", 4: "Address", 5: "Memo", 6: "RegisteredData",
    7: "common::types::Ratio", 8: "ExchangeRate", 9: "num::rational::Ratio<u64>", 10: "PayloadSize", 11: "Signature",
    12: "TransactionHeader", 13: "TransactionHeaderV1", 14: "TransactionSignature", 15: "TransactionSignaturesV1",
    16: "VerifyKey", 17: "CredentialPublicKeys", 18: "AccountAccessStructure", 19: "OpenStatus", 20: "DelegationTarget",
    21: "AmountFraction", 22: "UrlText", 23: "BakerKeysPayload", 24: "AddBakerPayload",
    25: "Payload::ConfigureBaker body", 26: "Payload::ConfigureDelegation body", 27: "Payload",
    28: "AccountTransaction<Payload>", 29: "AccountTransaction<EncodedPayload>", 30: "AccountTransactionV1<EncodedPayload>",
    31: "UpdateHeader", 32: "UpdateInstructionSignature", 33: "UpdateInstruction", 34: "UpdatePayload",
    35: "BlockItem<EncodedPayload>", 36: "LeverageFactor", 37: "MintDistributionV0", 38: "PoolParameters",
    39: "TimeoutParameters", 40: "AccountThreshold", 41: "TransactionFeeDistribution", 42: "GASRewards",
    43: "UpdateKeysThreshold", 44: "AccessStructure", 45: "HigherLevelAccessStructure", 46: "AuthorizationsV0",
    47: "RootUpdate", 48: "Level1Update", 49: "ArInfo",
    50: "Payload (all variants but InitContract/Update)", 51: "UpdatePayload (all variants but Protocol)", 52: "BlockItem<EncodedPayload> (all tags)",
    # Chain/ChainSchemasAll.v
    53: "Payload (ALL 22 variants)", 54: "AccountTransaction<Payload> (all variants)", 55: "InitContractPayload", 56: "UpdateContractPayload",
    57: "OwnedContractName", 58: "OwnedReceiveName", 59: "OwnedParameter",
    # Chain/ManualTie.v: terms regenerated from the hand-written impl bodies (translators/gen_manual_impls.py)
    60: "impl:PreIdentityProof<IpPairing,ArCurve>", 61: "impl:BakerKeysPayload", 62: "impl:AddBakerPayload", 63: "impl:InitContractPayload",
    64: "impl:UpdateContractPayload",
}
# sum types whose tag table must agree with the variants the harness constructs (exhaustive matches): schema id -> (enum, tags without a term)
TAG_TABLES = {53: ("Payload", set()), 51: ("UpdatePayload", {1}), 52: ("BlockItem", set()), 47: ("RootUpdate", set()), 48: ("Level1Update", set()),
              4: ("Address", set()), 20: ("DelegationTarget", set()), 19: ("OpenStatus", set()), 16: ("VerifyKey", set())}
PAYLOAD_TAGS = {3, 4, 5, 6, 7, 8, 13, 17, 19, 21, 22, 24, 25, 26}
UPDATE_TAGS = {2, 3, 4, 5, 6, 7, 8, 9, 10, 11, 12, 14, 15, 16, 17, 18, 19, 20, 21, 22, 23}
# sum types of which only some variants have a schema term: variant tags that ARE modelled
PARTIAL = {27: PAYLOAD_TAGS, 28: PAYLOAD_TAGS, 34: UPDATE_TAGS, 35: {0, 2, 3},
           50: PAYLOAD_TAGS | {0, 16, 18, 20, 23, 27}, 51: UPDATE_TAGS | {13, 24}}

# regression corpus: (schema id, hex, expected decision) - findings confirmed on the real code
CORPUS = [
    (25, "b70000", "R", "F4: ConfigureBaker bitmap with undefined bits 9,10,12,13,15"),
    (25, "0200", "R", "F4: ConfigureBaker bitmap with only undefined bit 9"),
    (25, "8000", "R", "F4: ConfigureBaker bitmap with only undefined bit 15"),
    (25, "0000", "A", "ConfigureBaker: empty bitmap"),
    (27, "190200", "R", "F4 through Payload"),
    (26, "0008", "R", "ConfigureDelegation bitmap with undefined bit 3"),
    (13, "0002" + "00" * 60, "R", "TransactionHeaderV1 with undefined feature bit 1"),
]
CORPUS_NAMED = [
    ("ArInfoT", "06e6c6a3a776fbcdc3da", "string_size_length=4 field declaring 2.8 GB (allocation ahead of data)"),
    ("IpInfoT", "06009c89e1d907d48b5c06a68cb8bf2c1e7bbf2cf3d1ea7db31cdbb9ebf76913b4f9c3d8f71f", "same through IpInfo"),
    ("ProtocolUpdate", "00000000000000ff" + "0000000000000000" + "0000000100000000", "url_len 2^32 guarded by message_len"),
    ("34", "0ddcd655c627ce954a5513bfd1050fcf28430f94142266e857cab0bd1f0ec4c4be8c0ddfff05", "UpdatePayload::AddIdentityProvider"),
    ("CreatePlt", "016bc2a0654a7d356b1443f2557a0be58f46335219b6d37958e1e2f3b2b44de10cb9d14b1833518cfa1c0d5d970c3687fc80bdf9c594",
     "RawCbor declaring 1.26 GB"),
    ("27", "1b0141" + "00" * 32 + "ffffffff", "Payload::TokenUpdate with RawCbor declaring 4 GiB"),
]


def mutate(rnd, b, dist):
    b = bytearray(b)
    if not b:
        dist["append"] = dist.get("append", 0) + 1
        return bytes([rnd.randrange(256)])
    k = rnd.randrange(len(b))
    kind = rnd.choice(["truncate", "bitflip", "ff", "inflate", "inc", "dec", "zero", "insert", "delete", "append",
                       "swap", "dup", "two", "highbit", "tag"])
    dist[kind] = dist.get(kind, 0) + 1
    if kind == "truncate":
        del b[k:]
    elif kind == "bitflip":
        b[k] ^= 1 << rnd.randrange(8)
    elif kind == "ff":
        b[k] = 0xFF
    elif kind == "inflate":
        w = rnd.choice([1, 2, 4, 8])
        for j in range(k, min(len(b), k + w)):
            b[j] = 0xFF
    elif kind == "inc":
        b[k] = (b[k] + 1) & 0xFF
    elif kind == "dec":
        b[k] = (b[k] - 1) & 0xFF
    elif kind == "zero":
        b[k] = 0
    elif kind == "insert":
        b.insert(k, rnd.randrange(256))
    elif kind == "delete":
        del b[k]
    elif kind == "append":
        b += bytes(rnd.randrange(256) for _ in range(1 + rnd.randrange(4)))
    elif kind == "swap":   # exchange two adjacent chunks (out-of-order keys / swapped fields)
        w = rnd.choice([1, 2, 3, 4, 8, 33, 34, 35, 67])
        if k + 2 * w <= len(b):
            b[k:k + w], b[k + w:k + 2 * w] = b[k + w:k + 2 * w], b[k:k + w]
        else:
            b[k] ^= 0x80
    elif kind == "dup":    # duplicate a chunk in place of the next one (duplicate keys)
        w = rnd.choice([1, 2, 3, 4, 35, 67])
        if k + 2 * w <= len(b):
            b[k + w:k + 2 * w] = b[k:k + w]
        else:
            b[k] = b[k - 1] if k else b[k]
    elif kind == "two":
        b[k] = 2
    elif kind == "highbit":  # undefined bitmap bits / tags near the start
        j = rnd.randrange(min(3, len(b)))
        b[j] |= 1 << rnd.randrange(8)
    elif kind == "tag":
        b[0] = rnd.choice([9, 10, 11, 12, 14, 15, 28, 29, 30, 31, 100, 255, rnd.randrange(256)])
    return bytes(b)


def run_impl(ctx, binp, cases):
    """cases: list of (key, hex).  Returns list of result dicts (same order); aborts are reported."""
    results = [None] * len(cases)
    start = 0
    huge = []
    while start < len(cases):
        inp = "".join("%s %s\n" % (k, h) for k, h in cases[start:]).encode()
        rc, out = c.run_bin(binp, ["run"], timeout=3000, input=inp)
        got = 0
        for line in out.splitlines():
            if line.startswith("HUGE-ALLOC"):
                huge.append(line)
            elif line.startswith("{"):
                try:
                    d = json.loads(line)
                except ValueError:
                    continue
                results[start + d["i"]] = d
                got = max(got, d["i"] + 1)
        if start + got >= len(cases):
            break
        # the process died while decoding case `start+got`
        results[start + got] = {"r": "ABORT", "out": out[-400:]}
        start = start + got + 1
    return results, huge


def run_model(ctx, runner, pool, cmds, timeout=3000):
    # the extracted list functions are not tail recursive: 64 KiB byte strings need a deep stack
    rc, out = c.run_bin("/bin/sh", ["-c", "ulimit -s 4000000 2>/dev/null || ulimit -s unlimited; exec %s %s" % (runner, pool)],
                        timeout=timeout, input=("\n".join(cmds) + "\n").encode())
    lines = [l for l in out.splitlines() if l.strip()]
    return rc, lines


def run(ctx):
    kf = c.load_known_findings()
    ctx.assumptions += [
        "opaque leaves (curve points, scalars, ed25519/VRF/BLS keys, dlog proofs) have abstract validity: the theorems hold for every "
        "validity oracle; the runner answers by membership in a pool of encodings produced and accepted by the implementation",
        "UTF-8 validity (UrlText) is an opaque kind whose runtime oracle is a hand-written validator in ocaml/driver_c05.ml",
        "translator T4b (translators/gen_manual_impls.py) reads the straight-line hand-written impl Serial / impl Deserial bodies (sequences of "
        "out.put(&self.f) / let f = source.get()?), checks that encoder and decoder field orders agree and regenerates their schema terms; "
        "Chain/ManualTie.v proves them equal to the hand-written terms",
        "translator T4 (translators/gen_chain_schemas.py) regenerates the schema terms of the derive(Serialize)/derive(Serial) types from the Rust "
        "declarations on every run, reading the derive macro's rules (field order, u8 variant index, size_length attributes, one-field struct = "
        "its field, PhantomData dropped); types with hand-written impls enter through the MANUAL table (hand-written terms, tied by correspondence)",
        "the model's early rejection `declared count > remaining input` is equivalent to the Rust element loop because every vector "
        "element of a well-formed schema occupies at least one byte (schema_wf); the allocation counter counts storage reserved ahead "
        "of the data (vector slots, byte-string bytes), not element pushes",
        "Rust-side allocation bound checked: peak live bytes per decode call <= 4 MiB + 256 KiB * |input|",
    ]
    # ---- translator T4: derive(Serialize)/derive(Serial) declarations -> coq/Gen/ChainSchemas.v + harness/c05/src/gen_types.rs
    #      (Props/C05.v: generated_schemas_match / generated_layouts_match / generated_table_all_laws)
    import importlib.util
    tie_broken = None
    trep = {}
    try:
        spec = importlib.util.spec_from_file_location("gen_chain_schemas", os.path.join(c.VERIF, "translators", "gen_chain_schemas.py"))
        gcs = importlib.util.module_from_spec(spec)
        spec.loader.exec_module(gcs)
        trep = gcs.generate(c.REPO)
    except Exception as ex:
        tie_broken = "translator gen_chain_schemas failed: %s" % ex
        ctx.log(tie_broken)
    mrep = {}
    if not tie_broken:
        try:
            spec2 = importlib.util.spec_from_file_location("gen_manual_impls", os.path.join(c.VERIF, "translators", "gen_manual_impls.py"))
            gmi = importlib.util.module_from_spec(spec2)
            spec2.loader.exec_module(gmi)
            mrep = gmi.generate(c.REPO)
        except Exception as ex:
            tie_broken = "translator gen_manual_impls (hand-written impl bodies -> schema terms) failed: %s" % ex
            ctx.log(tie_broken)
    S = dict(SCHEMAS)
    for k, v in trep.get("registered", {}).items():
        S[int(k)] = "derived:" + v
    ctx.notes["translator"] = {k: trep.get(k) for k in ("translated", "fully_derived", "registered", "tied_equal", "tied_layout", "serial_only", "unsupported",
                                                        "parametric", "other_macro")}
    ctx.notes["translator_counts"] = {"derive_types_translated": trep.get("translated"), "registered_for_correspondence": len(trep.get("registered", {})),
                                      "derive_types_unsupported": len(trep.get("unsupported", {})), "unsupported": trep.get("unsupported"),
                                      "bare_generic_wrappers_as_schema_functors": sorted(trep.get("parametric", {})),
                                      "other_macro_not_in_scope": trep.get("other_macro"),
                                      "hand_written_impl_pairs": mrep.get("impl_pairs"), "straight_line_impls_translated": mrep.get("straight_line_translated"),
                                      "impls_tied_by_equality": mrep.get("tied_equal"), "impls_not_straight_line": mrep.get("not_simple"),
                                      "impl_translation_errors": mrep.get("errors")}
    ctx.notes["translator_impls"] = {k: mrep.get(k) for k in ("impl_pairs", "straight_line_translated", "tied_equal", "not_simple", "not_simple_list", "errors")}
    ok, info = c.coq_prove(ctx)
    proof_broken = None if ok else info
    if not ok:
        ctx.log("proof obligations broken:", info.get("failed_file"), info.get("error", "")[-600:])

    ok, binp = c.cargo_build(ctx, "c05")
    if not ok:
        ctx.violation({"layer": "harness build against /repo", "error": binp},
                      "harness no longer builds against the implementation", no_input=True)
        return
    ok, runner = c.extract_build(ctx, "ExtractC05.v", "driver_c05.ml", "c05")
    if not ok:
        ctx.violation({"layer": "model extraction", "error": runner}, "the executable model does not build", no_input=True)
        return

    quick = ctx.quick
    n_gen = 12 if quick else 150
    n_mut = 6 if quick else 12
    n_fuzz = 1500 if quick else 40000

    # ---- pool of opaque leaves from the implementation
    rc, out = c.run_bin(binp, ["pool", ctx.seed])
    pool = os.path.join(ctx.work, "pool.txt")
    open(pool, "w").write(out)
    if rc != 0 or not out.strip():
        ctx.violation({"layer": "harness pool", "output": out[-1000:]}, "harness could not produce opaque leaves", no_input=True)
        return

    # ---- schema well-formedness as seen by the extracted model (sanity of the tie Coq <-> runner)
    rc, lines = run_model(ctx, runner, pool, ["W %d" % i for i in sorted(S)] + ["W 100"])
    wf = {i: l.split() for i, l in zip(sorted(S) + [100], lines)}
    bad = [i for i in S if wf.get(i, ["W", "false"])[1] != "true"]
    if bad or wf.get(100, ["W", "true"])[1] != "false":
        ctx.violation({"layer": "schema_wf", "not_wf": bad, "prefix_term": wf.get(100)},
                      "schema well-formedness differs from what Props/C05.v proves", no_input=True)
    ctx.notes["schema_caps"] = {S[i]: {"cap": wf[i][2], "min_size": wf[i][3]} for i in S if i in wf and len(wf[i]) >= 4}

    # ---- (a) model-generated encodings of schema-conforming values
    cases = []      # (id, hex, origin)
    rc, lines = run_model(ctx, runner, pool, ["G %d %d %d" % (i, ctx.seed, n_gen) for i in sorted(S)])
    if rc != 0 or any(l.startswith("GENFAIL") for l in lines) or len(lines) != n_gen * len(S):
        ctx.violation({"layer": "model generator", "output": [l[:300] for l in lines if l.startswith("GENFAIL")][:3], "rc": rc,
                       "lines": len(lines)}, "model generator failed (model does not round-trip its own values?)", no_input=True)
        return
    it = iter(lines)
    for i in sorted(S):
        for _ in range(n_gen):
            cases.append((i, next(it), "model"))
    # ---- (b) implementation-generated values
    impl_ids = set()
    rc, out = c.run_bin(binp, ["gen", ctx.seed, n_gen], timeout=1200)
    if rc != 0 or "GENPANIC" in out:
        ctx.violation({"layer": "harness gen", "output": out[-1500:]}, "implementation-side generator crashed", no_input=True)
        return
    for l in out.splitlines():
        p = l.split()
        if len(p) == 2 and p[0].isdigit():
            cases.append((int(p[0]), p[1], "impl"))
            impl_ids.add(int(p[0]))
    for (i, h, o) in list(cases):
        if o == "impl" and i in (27, 34, 35):
            cases.append(({27: 50, 34: 51, 35: 52}[i], h, "impl"))
        if o == "impl" and i in (27, 28):
            cases.append(({27: 53, 28: 54}[i], h, "impl"))
    # ---- (b') one or more VALUES of every variant of every hand-written sum type (exhaustive matches in the harness)
    n_rep = 3 if quick else 25
    rc, out = c.run_bin(binp, ["variants", ctx.seed, n_rep], timeout=3000)
    vlines = [json.loads(l) for l in out.splitlines() if l.startswith("{")]
    vcov = [d for d in vlines if d.get("k") == "variant_coverage"]
    vres = [d for d in vlines if d.get("k") == "variant"]
    variant_fail = []
    if rc != 0 or not vcov:
        ctx.violation({"layer": "harness variants", "rc": rc, "output": out[-1500:]},
                      "per-variant value oracle run failed (%s)" % ("setup failed" if any(d.get("k") == "variant_setup_failed" for d in vlines) else "crash"),
                      no_input=True)
    else:
        cov = vcov[0]
        if cov["missing"] or cov["unlisted"]:
            ctx.violation({"layer": "variant coverage", "missing": cov["missing"], "unlisted": cov["unlisted"]},
                          "enum variants without a constructed value: %s" % (cov["missing"] or cov["unlisted"]), no_input=True)
        ctx.notes["variant_coverage"] = cov["coverage"]
    name_to_id = {v: int(k) for k, v in trep.get("registered", {}).items()}
    fixtures = [d for d in vlines if d.get("k") == "fixture"]
    nfix = 0
    for d in fixtures:
        if d["name"].startswith("#"):
            cases.append((int(d["name"][1:]), d["hex"], "impl"))
            impl_ids.add(int(d["name"][1:]))
            nfix += 1
        elif d["name"] in name_to_id:
            cases.append((name_to_id[d["name"]], d["hex"], "impl"))
            impl_ids.add(name_to_id[d["name"]])
            nfix += 1
    ctx.notes["pipeline_fixtures"] = {"emitted": len(fixtures), "matched_to_generated_schema": nfix,
                                      "unmatched": sorted({d["name"] for d in fixtures if d["name"] not in name_to_id and not d["name"].startswith("#")})}
    for d in vres:
        if not d["ok"]:
            variant_fail.append(d)
        elif d.get("id") is not None:
            cases.append((int(d["id"]), d["hex"], "variant"))
    # ---- per-variant tie of the tag tables: the tags of the model's sum = the tags of the variants the harness constructs
    #      (exhaustive matches without wildcard on the Rust side)
    rc, tl = run_model(ctx, runner, pool, ["T %d" % i for i in sorted(TAG_TABLES)])
    tagrep = {}
    for i, l in zip(sorted(TAG_TABLES), tl):
        en, missing_ok = TAG_TABLES[i]
        model_tags = {int(x) for x in l.split()[1:]}
        rust_tags = {int(d["hex"][:2], 16) for d in vres if d["enum"] == en and d["ok"] and d["hex"]}
        tagrep[en] = {"model": sorted(model_tags), "rust": sorted(rust_tags), "rust_only_allowed": sorted(missing_ok)}
        if vres and (rust_tags - missing_ok != model_tags or not (rust_tags - model_tags) <= missing_ok):
            ctx.violation({"layer": "tag table", "enum": en, "schema_id": i, "model_tags": sorted(model_tags), "rust_tags": sorted(rust_tags)},
                          "%s: variants constructed from the Rust enum have tags %s but the schema term has %s" % (en, sorted(rust_tags), sorted(model_tags)),
                          no_input=True)
    ctx.notes["tag_tables"] = tagrep
    ctx.notes["variant_values"] = {"constructed": len(vres), "failed": len(variant_fail),
                                   "debug_form_equal_to_original": sum(1 for d in vres if d.get("debug_equal"))}
    # ---- (c) malformed stream
    rnd = random.Random(ctx.seed * 7919 + 5)
    mdist = {}
    base = list(cases)
    seen = {(i, h) for i, h, _ in cases}
    for i, h, _ in base:
        b = bytes.fromhex(h)
        if len(b) > 3000 and rnd.random() < 0.8:
            continue
        for _ in range(n_mut):
            m = mutate(rnd, b, mdist).hex()
            if (i, m) not in seen:
                seen.add((i, m))
                cases.append((i, m, "mut"))
    for i, h, exp, what in CORPUS:
        cases.append((i, h, "corpus"))
    ctx.log("cases: %d (model %d, impl %d, variant values %d, malformed %d)" % (
        len(cases), sum(1 for x in cases if x[2] == "model"), sum(1 for x in cases if x[2] == "impl"),
        sum(1 for x in cases if x[2] == "variant"), sum(1 for x in cases if x[2] == "mut")))

    # ---- opaque leaves: the model (permissive pass) lists the leaves a decode of each input consults; the implementation
    #      says which of them it accepts; the second model pass uses that verdict (no "undecided" class left)
    rc, llines = run_model(ctx, runner, pool, ["L %d %s" % (i, h) for i, h, _ in cases])
    leaves = set()
    for l in llines:
        if l.startswith("L"):
            for tok in l.split()[1:]:
                k, _, hx = tok.partition(":")
                leaves.add((k, hx))
    if len(llines) != len(cases):
        ctx.violation({"layer": "model runner (leaf pass)", "got": len(llines), "want": len(cases)}, "model runner did not answer every case", no_input=True)
        return
    leaves = sorted(leaves)
    rc, out = c.run_bin(binp, ["leaves"], timeout=1800, input="".join("%s %s\n" % kh for kh in leaves).encode())
    verdict = [l.split() for l in out.splitlines() if len(l.split()) == 3]
    if rc != 0 or len(verdict) != len(leaves):
        ctx.violation({"layer": "harness leaves", "rc": rc, "got": len(verdict), "want": len(leaves), "tail": out[-500:]},
                      "implementation-side leaf validation failed", no_input=True)
        return
    pool2 = os.path.join(ctx.work, "pool2.txt")
    with open(pool2, "w") as f:
        f.write(open(pool).read())
        for k, hx, ok in verdict:
            if ok == "1":
                f.write("%s %s\n" % (k, hx))
    ctx.notes["opaque_leaves"] = {"consulted": len(leaves), "accepted_by_implementation": sum(1 for v in verdict if v[2] == "1")}
    # ---- run both sides
    impl, huge = run_impl(ctx, binp, [(str(i), h) for i, h, _ in cases])
    rc, mlines = run_model(ctx, runner, pool2, ["D %d %s" % (i, h) for i, h, _ in cases])
    if len(mlines) != len(cases):
        ctx.violation({"layer": "model runner", "got": len(mlines), "want": len(cases), "tail": mlines[-2:]},
                      "model runner did not answer every case", no_input=True)
        return

    stats = {"agree_accept": 0, "agree_reject": 0, "undecided_opaque": 0, "unmodelled_variant": 0}
    per_type = {}
    nontrivial = set()
    nviol = 0

    def viol(obj, summary):
        nonlocal nviol
        nviol += 1
        if nviol <= 12:
            ctx.violation(obj, summary)

    for d in variant_fail:
        viol({"type": d["enum"], "variant": d["variant"], "input": d["hex"][:4000], "why": d["why"]},
             "%s::%s: value oracle failed (%s) on encoding %s" % (d["enum"], d["variant"], "; ".join(d["why"])[:200], d["hex"][:120]))
    max_ratio = 0.0
    max_model_alloc = 0
    for (i, h, origin), r, ml in zip(cases, impl, mlines):
        name = S[i]
        pt = per_type.setdefault(name, {"cases": 0, "accepted": 0, "rejected": 0})
        pt["cases"] += 1
        n = len(h) // 2
        rep = {"type": name, "schema_id": i, "input": h if n <= 2000 else h[:4000] + "...", "origin": origin, "impl": r, "model": ml[:300]}
        if r is None or r.get("r") in (None, "?"):
            viol(rep, "harness gave no result for %s" % name)
            continue
        if r["r"] == "ABORT":
            viol(rep, "decoding aborted the process (allocation failure?) on %s input %s" % (name, h[:120]))
            continue
        if r["r"] == "P":
            viol(rep, "decoder of %s panicked on %s" % (name, h[:120]))
            continue
        if r["r"] == "Q":
            viol(rep, "encoder of %s panicked on a decoded value, input %s" % (name, h[:120]))
            continue
        if r["pk"] > r["bound"]:
            viol(rep, "decoder of %s allocated %d bytes for a %d-byte input %s" % (name, r["pk"], n, h[:120]))
        max_ratio = max(max_ratio, r["pk"] / max(1, n))
        m = ml.split()
        if r["r"] == "A":
            pt["accepted"] += 1
            nontrivial.add(c.digest([i, h]))
            # direct oracles on the implementation alone
            if r["e"] != h[:2 * r["c"]]:
                viol(rep, "%s: accepted bytes re-encode differently (non-canonical decoder): %s -> %s" % (name, h[:2 * r["c"]][:100], r["e"][:100]))
                continue
            if not r["s2"]:
                viol(rep, "%s: decode(encode(v)) does not reproduce v for v decoded from %s" % (name, h[:120]))
                continue
        else:
            pt["rejected"] += 1
        if origin in ("model", "impl", "variant") and r["r"] != "A":
            viol(rep, "%s: %s-generated valid encoding rejected by the implementation: %s" % (name, origin, h[:120]))
            continue
        if origin in ("model", "impl", "variant") and r["c"] != n:
            viol(rep, "%s: valid encoding not consumed exactly (%d of %d bytes)" % (name, r["c"], n))
            continue
        # correspondence
        if m[0] == "A":
            max_model_alloc = max(max_model_alloc, int(m[3]))
            if r["r"] != "A":
                viol(rep, "%s: implementation rejects an encoding the proved model accepts: %s" % (name, h[:120]))
            elif int(m[1]) != r["c"] or (m[2] if len(m) > 2 else "") != r["e"]:
                viol(rep, "%s: consumed bytes / re-encoding differ between model and implementation on %s" % (name, h[:120]))
            else:
                stats["agree_accept"] += 1
        elif r["r"] == "A":
            if m[0] == "RO":
                # cannot happen any more: every leaf the strict decode consults was validated by the implementation
                stats["undecided_opaque"] += 1
                viol(rep, "%s: implementation accepts an input containing an opaque leaf that it rejects on its own: %s" % (name, h[:120]))
            elif i in PARTIAL and r.get("vt") is not None and r["vt"] not in PARTIAL[i]:
                stats["unmodelled_variant"] += 1
            else:
                viol(rep, "%s: implementation accepts bytes the canonical model rejects: %s" % (name, h[:120]))
        else:
            stats["agree_reject"] += 1
        if origin == "impl" and m[0] != "A":
            viol(rep, "%s: model rejects an implementation-generated value: %s" % (name, h[:120]))
    # corpus expectations
    for (i, h, exp, what), r in zip(CORPUS, impl[-len(CORPUS):]):
        if r and r.get("r") in ("A", "R") and r["r"] != exp:
            viol({"type": S[i], "input": h, "expected": exp, "impl": r, "what": what},
                 "regression corpus: %s - implementation %s" % (what, "accepts" if r["r"] == "A" else "rejects"))
    for l in huge:
        p = l.split()
        viol({"layer": "allocator", "line": l[:600]}, "a single allocation of %s bytes was requested while decoding %s %s" % (
            p[1] if len(p) > 1 else "?", p[2] if len(p) > 2 else "?", (p[3] if len(p) > 3 else "")[:120]))

    # ---- named corpus + byte-level direct oracles for all types (incl. those without a schema term)
    res_named, huge2 = run_impl(ctx, binp, [(k, h) for k, h, _ in CORPUS_NAMED])
    for (k, h, what), r in zip(CORPUS_NAMED, res_named):
        if r is None or r.get("r") in ("ABORT", "P", "Q") or (r.get("pk", 0) > r.get("bound", 1 << 62)):
            viol({"type": k, "input": h, "impl": r, "what": what},
                 "regression corpus: %s: %s on input %s" % (what, "allocation bound exceeded / abort / panic", h[:80]))
    for l in huge2:
        viol({"layer": "allocator", "line": l[:600]}, "huge allocation requested: %s" % l[:200])
    rc, out = c.run_bin(binp, ["fuzz", ctx.seed, n_fuzz], timeout=3000)
    fz = [json.loads(l) for l in out.splitlines() if l.startswith("{")]
    hl = [l for l in out.splitlines() if l.startswith("HUGE-ALLOC")]
    rc_t, out_t = c.run_bin(binp, ["types"])
    unmodelled = json.loads(out_t.splitlines()[-1])["unmodelled"] if rc_t == 0 else []
    expected_types = len(unmodelled) + len(S)
    if rc != 0 or len(fz) < expected_types:
        last = fz[-1]["type"] if fz else "(none)"
        viol({"layer": "fuzz", "rc": rc, "types_done": len(fz), "after_type": last, "tail": out[-800:], "huge": hl[:3]},
             "byte-level oracle run died (abort / allocation failure) after type %s: %s" % (last, (hl[-1] if hl else out[-200:])[:300]))
    elif hl:
        for l in hl[:3]:
            viol({"layer": "allocator", "line": l[:600]}, "huge allocation requested while decoding: %s" % l[:200])
    fuzz_acc = 0
    fuzz_cases = 0
    fuzz_tab = {}
    for d in fz:
        name = S.get(int(d["type"]), d["type"]) if d["type"].isdigit() else d["type"]
        fuzz_tab[name] = {"accepted": d["accepted"], "rejected": d["rejected"], "distinct_accepted": d["distinct_accepted"],
                          "max_peak_per_byte": round(d["max_peak_per_byte"], 1)}
        fuzz_acc += d["distinct_accepted"]
        fuzz_cases += d["accepted"] + d["rejected"]
        for v in d["violations"]:
            viol({"type": name, "case": v}, "%s: %s on input %s" % (name, "; ".join(v["why"]), v["input"][:120]))

    # ---- evidence
    ctx.cov["evaluations"] = len(cases) + fuzz_cases
    ctx.cov["traces_validated_against_impl"] = len(cases)
    ctx.cov["distinct_nontrivial"] = len(nontrivial) + fuzz_acc
    ctx.cov["rule"] = ("correspondence: per schema type, model-generated encodings of schema-conforming values (boundary-heavy integers, empty/"
                       "max-length strings, 0..25-element collections, all/none/random optional fields), implementation-generated values, "
                       "and a malformed stream (truncate, bit flip, 0xff, inflated 1/2/4/8-byte windows, +-1, zero, insert, delete, append, "
                       "swap/duplicate adjacent chunks, byte:=2, high bits near the start, undefined tags); decision, consumed count and "
                       "re-encoding compared; non-trivial = implementation accepted (distinct input hash); direct oracles (re-encode = consumed "
                       "bytes, second round trip, no panic, peak allocation) on every case and on byte-fuzzed inputs for all types")
    ctx.notes["correspondence"] = stats
    ctx.notes["mutation_distribution"] = mdist
    ctx.notes["origin_distribution"] = {o: sum(1 for x in cases if x[2] == o) for o in ("model", "impl", "variant", "mut", "corpus")}
    ctx.notes["per_type"] = per_type
    ctx.notes["impl_generators_for"] = sorted(S[i] for i in impl_ids)
    ctx.notes["max_peak_bytes_per_input_byte"] = round(max_ratio, 1)
    ctx.notes["max_model_alloc_units"] = max_model_alloc
    derived_names = set(trep.get("registered", {}).values()) | set(trep.get("tied_equal", []))
    ctx.notes["unmodelled_types"] = [t for t in unmodelled if t.split("::")[-1].split("<")[0].strip() not in derived_names]
    ctx.notes["modelled_types"] = len(S)
    ctx.notes["unmodelled_variants"] = {"Payload": "none (schema 53 has all 22 variants)", "UpdatePayload": "tag 1 (ProtocolUpdate: its last field is 'the rest of the frame')", "BlockItem": "none"}
    ctx.notes["byte_fuzz"] = fuzz_tab
    ctx.notes["fixed_findings"] = [f for f in kf.get("fixed", []) if "C05" in str(f)]
    ctx.cov["samples"] += [{"type": S[i], "input": h[:160], "origin": o, "impl": {k: (v[:160] if isinstance(v, str) else v) for k, v in (r or {}).items()},
                            "model": ml[:200]} for (i, h, o), r, ml in list(zip(cases, impl, mlines))[5::max(1, len(cases) // 6)][:6]]
    if nviol > 12:
        ctx.log("%d further mismatches not written out" % (nviol - 12))
    if tie_broken:
        ctx.violation({"layer": "translator (Rust declarations -> schema terms)", "error": tie_broken},
                      "the derive(Serialize) declarations can no longer be translated / tied: %s" % tie_broken[:300],
                      no_input=not bool(ctx.violations))
    if proof_broken:
        found = bool(ctx.violations)
        ctx.violation({"layer": "Coq proof obligations", "broken": proof_broken},
                      "theorem(s) of Props/C05.v no longer check (%s)" % proof_broken.get("failed_file"), no_input=not found)
    if ctx.tier == "thorough":
        ok, out = c.coqchk(ctx)
        if not ok:
            ctx.violation({"layer": "coqchk", "output": out[-2000:]}, "coqchk rejected Props/C05.vo", no_input=True)
