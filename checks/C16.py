"""C16 - contract-side serialisation and basic value types: Coq theorems (Props/C16.v) +
correspondence of the executable model with concordium-contracts-common (bytes, text, arithmetic)
+ direct oracles on the implementation alone."""
import json
import re
from . import common as c

PREAMBLE = ("From Coq Require Import NArith ZArith List. Import ListNotations.\n"
            "From CB Require Import Contract.Text Contract.Names Contract.CheckedArith Contract.CcCodec Contract.CcTypes Contract.Base58.\n"
            "Open Scope N_scope.\n")

# harness type name -> codec term of Contract/CcTypes.v
CODEC = {
    "u8": "c_u8", "u16": "c_u16", "u32": "c_u32", "u64": "c_u64", "u128": "c_u128",
    "i8": "c_i8", "i16": "c_i16", "i32": "c_i32", "i64": "c_i64", "i128": "c_i128",
    "bool": "c_bool",
    "pair_u8_u16": "(c_pair c_u8 c_u16)", "triple_u64_bool_u32": "(c_pair c_u64 (c_pair c_bool c_u32))",
    "opt_u32": "(c_option c_u32)", "opt_opt_u8": "(c_option (c_option c_u8))", "opt_vec_u16": "(c_option (c_vec32 c_u16))",
    "vec_u8": "(c_vec32 c_u8)", "vec_u16": "(c_vec32 c_u16)", "vec_bool": "(c_vec32 c_bool)", "vec_u128": "(c_vec32 c_u128)",
    "vec_vec_u8": "(c_vec32 (c_vec32 c_u8))", "vec_pair_u8_u32": "(c_vec32 (c_pair c_u8 c_u32))", "vec_opt_u8": "(c_vec32 (c_option c_u8))",
    "string": "c_string", "vec_string": "(c_vec32 c_string)",
    "set_u8": "(c_set32 c_u8)", "set_u32": "(c_set32 c_u32)", "map_u8_u16": "(c_map32 c_u8 c_u16)", "map_u64_vec_u8": "(c_map32 c_u64 (c_vec32 c_u8))",
    "hashset_u16": "(c_set32 c_u16)", "hashmap_u8_u8": "(c_map32 c_u8 c_u8)",
    "ordset32_u32": "(c_set_ordered 4 c_u32)", "ordset8_u8": "(c_set_ordered 1 c_u8)",
    "ordmap8_u8_u16": "(c_map_ordered 1 c_u8 c_u16)", "ordmap16_u64_bool": "(c_map_ordered 2 c_u64 c_bool)",
    "unordset16_u16": "(c_set_unordered 2 c_u16)", "unordmap8_u8_u8": "(c_map_unordered 1 c_u8 c_u8)",
    "nolenset_u16": "(c_set_ordered 1 c_u16)", "nolenmap_u32_u8": "(c_map_ordered 1 c_u32 c_u8)",
    "vec8_u16": "(c_vec8 c_u16)", "vec64_u8": "(c_vec64 c_u8)", "str16": "(c_refine (c_vec16 c_u8) utf8_valid)",
    "bytes32": "(c_bytes 32)",
    "amount": "c_amount", "timestamp": "c_timestamp", "duration": "c_duration",
    "account_address": "c_account_address", "contract_address": "c_contract_address", "address": "c_address",
    "hash": "c_hash",
    "account_balance": "c_account_balance", "exchange_rate": "c_exchange_rate", "exchange_rates": "c_exchange_rates",
    "threshold": "c_threshold",
    "contract_name": "c_contract_name", "receive_name": "c_receive_name", "entrypoint_name": "c_entrypoint_name",
    "parameter": "c_parameter",
    "attribute_tag": "c_u8", "attribute_value": "c_attribute_value", "policy": "c_policy",
    "chain_metadata": "c_chain_metadata",
}
# decoders that sort their input: re-encoding differs from the input, no canonicity claim
NONCANON = {"set_u8", "set_u32", "map_u8_u16", "map_u64_vec_u8", "hashset_u16", "hashmap_u8_u8", "unordset16_u16", "unordmap8_u8_u8"}
# pre-allocation bound in bytes: MAX_PREALLOCATED_CAPACITY slots (65535 for the u16-counted policy
# items) times the largest element size, or growth proportional to the input actually read
ELT = 64


def alloc_bound(t, inlen):
    slots = 65535 if t == "policy" else 4096
    return max(slots * ELT, 4 * ELT * inlen) + 4096


def nlist(xs):
    return "[" + ";".join(str(x) for x in xs) + "]"


def unhex(h):
    return list(bytes.fromhex(h))


AERR = {"Overflow": "AOverflow", "ExpectedDot": "AExpectedDot", "ExpectedDigit": "AExpectedDigit",
        "ExpectedMore": "AExpectedMore", "ExpectedDigitOrDot": "AExpectedDigitOrDot", "AtMostSixDecimals": "AAtMostSixDecimals"}
DERR = {"MissingUnit": "DMissingUnit", "FailedParsingNumber": "DFailedParsingNumber", "InvalidUnit": "DInvalidUnit"}
CERR = {"MissingStartBracket": "CMissingStartBracket", "MissingEndBracket": "CMissingEndBracket", "NoComma": "CNoComma",
        "ParseIndex": "CParseIndex", "ParseSubIndex": "CParseSubIndex"}
TERR = {"ParseError": "TParseError", "BeforeUnixEpoch": "TBeforeUnixEpoch"}
CNERR = {"MissingInitPrefix": "CNMissingInitPrefix", "TooLong": "CNTooLong", "ContainsDot": "CNContainsDot", "InvalidCharacters": "CNInvalidCharacters"}
RNERR = {"MissingDotSeparator": "RNMissingDotSeparator", "TooLong": "RNTooLong", "InvalidCharacters": "RNInvalidCharacters"}

PARSER = {"amount": ("parse_amount", AERR), "duration": ("parse_duration", DERR),
          "contract_address": ("parse_contract_address", CERR), "timestamp": ("parse_timestamp", TERR)}
PRINTER = {"amount": "print_amount", "duration": "print_duration", "contract_address": "print_contract_address",
           "timestamp": "print_timestamp"}
NAMECHK = {"contract_name": ("contract_name_check", CNERR), "receive_name": ("receive_name_check", RNERR),
           "entrypoint_name": ("entrypoint_name_check", RNERR)}


def canon_impl_parse(t, r):
    """implementation result -> canonical ('ok', value) | ('err', name) | 'PANIC'"""
    if r == "PANIC":
        return "PANIC"
    if "ok" in r:
        v = r["ok"]
        if t == "contract_address":
            return ("ok", (int(v[0]), int(v[1])))
        if t in NAMECHK:
            return ("ok", True)
        return ("ok", int(v))
    table = PARSER[t][1] if t in PARSER else NAMECHK[t][1]
    return ("err", table.get(r["err"], r["err"]))


def canon_model_parse(t, term):
    if t in NAMECHK:
        if term == "None":
            return ("ok", True)
        return ("err", term[1])
    if term == "Panic":
        return "PANIC"
    if term[0] == "Ok":
        v = term[1]
        return ("ok", (v[0], v[1]) if t == "contract_address" else v)
    return ("err", term[1])


B58 = "123456789ABCDEFGHJKLMNPQRSTUVWXYZabcdefghijkmnopqrstuvwxyz"


def b58check_encode(version, payload):
    """reference: Base58Check as documented (version byte, payload, first 4 bytes of SHA256(SHA256(.)))"""
    import hashlib
    raw = bytes([version]) + payload
    raw += hashlib.sha256(hashlib.sha256(raw).digest()).digest()[:4]
    n = int.from_bytes(raw, "big")
    out = ""
    while n > 0:
        n, r = divmod(n, 58)
        out = B58[r] + out
    return "1" * (len(raw) - len(raw.lstrip(b"\0"))) + out


def b58check_decode_account(s):
    """reference for FromStr for AccountAddress: 32 payload bytes, version 1, else None"""
    import hashlib
    if not s or any(ch not in B58 for ch in s):
        return None
    n = 0
    for ch in s:
        n = n * 58 + B58.index(ch)
    zeros = len(s) - len(s.lstrip("1"))
    body = n.to_bytes((n.bit_length() + 7) // 8, "big")
    raw = b"\0" * zeros + body
    if len(raw) != 37 or raw[0] != 1:
        return None
    if hashlib.sha256(hashlib.sha256(raw[:33]).digest()).digest()[:4] != raw[33:]:
        return None
    return raw[1:33].hex()



def b58check_encode_raw(raw):
    """plain Base58 of a byte string (reference)"""
    n = int.from_bytes(raw, "big")
    out = ""
    while n > 0:
        n, r = divmod(n, 58)
        out = B58[r] + out
    return "1" * (len(raw) - len(raw.lstrip(b"\0"))) + out


def b58_raw(s):
    """plain Base58 decoding (reference), None if a character is outside the alphabet"""
    if any(ch not in B58 for ch in s):
        return None
    n = 0
    for ch in s:
        n = n * 58 + B58.index(ch)
    zeros = len(s) - len(s.lstrip("1"))
    return b"\0" * zeros + n.to_bytes((n.bit_length() + 7) // 8, "big")


def dsha4(payload):
    import hashlib
    return list(hashlib.sha256(hashlib.sha256(bytes(payload)).digest()).digest()[:4])


KEYLEN = {"pk_ed25519": 32, "pk_ecdsa": 33, "sig_ed25519": 64, "sig_ecdsa": 64}


def model_values(seed, n):
    """Values written as Gallina terms for the model encoder: (type, term, well_formed)."""
    import random
    rnd = random.Random(seed)

    def edge(bits):
        k = rnd.randrange(6)
        if k == 0:
            return rnd.choice([0, 1, 2 ** bits - 1, 2 ** bits - 2, 2 ** (bits - 1), 2 ** (bits - 1) - 1])
        if k == 1:
            return 2 ** rnd.randrange(bits)
        if k == 2:
            return 2 ** rnd.randrange(1, bits + 1) - 1
        return rnd.randrange(2 ** bits)

    def z(bits):
        v = edge(bits)
        v = v - 2 ** bits if v >= 2 ** (bits - 1) else v
        return "(%d)%%Z" % v

    def lst(xs):
        return "[" + ";".join(xs) + "]"

    out = []
    for _ in range(n):
        out.append(("u128", str(edge(128)), True))
        out.append(("u64", str(edge(64)), True))
        out.append(("i8", z(8), True))
        out.append(("i64", z(64), True))
        out.append(("i128", z(128), True))
        out.append(("bool", rnd.choice(["true", "false"]), True))
        out.append(("vec_pair_u8_u32", lst(["(%d,%d)" % (edge(8), edge(32)) for _ in range(rnd.randrange(5))]), True))
        out.append(("opt_vec_u16", rnd.choice(["None", "(Some %s)" % lst([str(edge(16)) for _ in range(rnd.randrange(4))])]), True))
        out.append(("vec_vec_u8", lst([lst([str(edge(8)) for _ in range(rnd.randrange(4))]) for _ in range(rnd.randrange(4))]), True))
        txt = "".join(rnd.choice(["a", "Z", "~", "\u00e9", "\u20ac", "\U0001f600", " "]) for _ in range(rnd.randrange(6)))
        out.append(("string", lst([str(b) for b in txt.encode("utf-8")]), True))
        bad_utf8 = rnd.choice([[0xc3], [0xe2, 0x82], [0xff], [0xc0, 0x80], [0xed, 0xa0, 0x80], [0xf4, 0x90, 0x80, 0x80], [0x80]])
        out.append(("string", lst([str(b) for b in (list(b"ab") + bad_utf8)]), False))
        ks = [edge(32) for _ in range(rnd.randrange(6))]
        sorted_ks = sorted(set(ks))
        out.append(("ordset32_u32", lst([str(k) for k in sorted_ks]), True))
        if len(sorted_ks) >= 2:
            sw = list(sorted_ks)
            i = rnd.randrange(len(sw) - 1)
            sw[i], sw[i + 1] = sw[i + 1], sw[i]
            out.append(("ordset32_u32", lst([str(k) for k in sw]), False))        # descending pair
            du = list(sorted_ks)
            du[i + 1] = du[i]
            out.append(("ordset32_u32", lst([str(k) for k in du]), False))        # duplicate
            out.append(("nolenset_u16", lst([str(k % 65536) for k in sorted(set(k % 65536 for k in sorted_ks))]), True))
        mk = sorted(set(edge(8) for _ in range(rnd.randrange(6))))
        out.append(("ordmap8_u8_u16", lst(["(%d,%d)" % (k, edge(16)) for k in mk]), True))
        if len(mk) >= 2:
            mk2 = list(mk)
            mk2[0], mk2[1] = mk2[1], mk2[0]
            out.append(("ordmap8_u8_u16", lst(["(%d,%d)" % (k, edge(16)) for k in mk2]), False))
            out.append(("ordmap8_u8_u16", lst(["(%d,%d)" % (k, edge(16)) for k in [mk[0], mk[0]]]), False))
        out.append(("set_u32", lst([str(k) for k in sorted_ks]), True))
        out.append(("map_u8_u16", lst(["(%d,%d)" % (k, edge(16)) for k in mk]), True))
        out.append(("address", rnd.choice(["(inl %s)" % lst([str(edge(8)) for _ in range(32)]), "(inr (%d,%d))" % (edge(64), edge(64))]), True))
        t = edge(64)
        out.append(("account_balance", "(%d,(%d,%d))" % (t, rnd.randrange(t + 1), rnd.randrange(t + 1)), True))
        if t < 2 ** 64 - 1:
            out.append(("account_balance", "(%d,(%d,%d))" % (t, t + 1, 0), False))
            out.append(("account_balance", "(%d,(%d,%d))" % (t, 0, t + 1), False))
        out.append(("exchange_rate", "(%d,%d)" % (max(1, edge(64)), max(1, edge(64))), True))
        out.append(("exchange_rate", rnd.choice(["(0,5)", "(5,0)", "(0,0)"]), False))
        out.append(("threshold", str(max(1, edge(8))), True))
        out.append(("threshold", "0", False))
        al = rnd.choice([0, 1, 30, 31])
        out.append(("attribute_value", lst([str(edge(8)) for _ in range(al)]), True))
        out.append(("attribute_value", lst([str(edge(8)) for _ in range(rnd.choice([32, 33, 40]))]), False))
        items = lst(["(%d,%s)" % (edge(8), lst([str(edge(8)) for _ in range(rnd.choice([0, 2, 31]))])) for _ in range(rnd.randrange(4))])
        out.append(("policy", "(%d,(%d,(%d,%s)))" % (edge(32), edge(64), edge(64), items), True))
        nm = "init_" + "".join(rnd.choice("abcXYZ019_-~!") for _ in range(rnd.choice([0, 1, 9, 95])))
        out.append(("contract_name", lst([str(b) for b in nm.encode()]), True))
        out.append(("contract_name", lst([str(b) for b in (nm[:20] + ".x").encode()]), False))
        out.append(("contract_name", lst([str(b) for b in ("init_" + "a" * 96).encode()]), False))
        out.append(("receive_name", lst([str(b) for b in (nm[5:55] + "." + nm[5:30]).encode()]), True))
        out.append(("receive_name", lst([str(b) for b in b"nodot"]), False))
        out.append(("entrypoint_name", lst([str(b) for b in ("e" * rnd.choice([0, 1, 99])).encode()]), True))
        out.append(("entrypoint_name", lst([str(b) for b in ("e" * 100).encode()]), False))
    return out


def run(ctx):
    kf = c.load_known_findings()
    ctx.assumptions += [
        "chrono (RFC 3339 formatting/parsing, an external crate) is modelled for years 0000-9999 and tied by correspondence only",
        "bs58 / base58check of AccountAddress is not modelled: implementation-only oracle parse(print a) = a and canonical text",
        "vector element loops use the input length as fuel: exact for element types whose encoding is never empty (zero-width elements: observation O2, outside the claim)",
        "duration strings whose components or sum overflow u64 (observation O4) are outside the claim: recorded, never a violation",
        "harness build has overflow-checks on: unchecked +,-,* overflow is a panic, modelled as such",
    ]
    ctx.notes["fixed_findings"] = [f for f in kf.get("fixed", []) if "property=C16" in f]
    ok, info = c.coq_prove(ctx)
    ctx.log("coq_prove done: ok=%s" % ok)
    proof_broken = None
    if not ok:
        proof_broken = info
        ctx.log("proof obligations broken:", info["failed_file"], info["error"][-600:])
        c.coq_build(ctx, ["Contract/Text.vo", "Contract/Names.vo", "Contract/CheckedArith.vo", "Contract/CcTypes.vo"])

    ok, binp = c.cargo_build(ctx, "c16")
    for _ in range(4):
        # another property's crate being created in the shared workspace is not our failure: retry
        if ok or "failed to load manifest for workspace member" not in binp or "/c16" in binp.split("referenced via")[0]:
            break
        import time
        time.sleep(20)
        ok, binp = c.cargo_build(ctx, "c16")
    if not ok:
        ctx.violation({"layer": "harness build against /repo", "error": binp},
                      "harness no longer builds against the implementation", no_input=True)
        return
    seen, nontrivial = set(), set()
    samples = []

    # ------------------------------------------------------------------ bytes
    nb = 4 if ctx.quick else 24
    rc, out = c.run_bin(binp, ["bytes", ctx.seed, nb], timeout=900)
    if rc != 0:
        ctx.violation({"layer": "harness run (bytes)", "output": out[-2000:]}, "byte harness crashed", no_input=True)
        return
    cases = [json.loads(l) for l in out.split("\n") if l.startswith("{")]
    bcases = [cs for cs in cases if cs.get("k") == "b" and not cs.get("enc_panic")]
    for cs in cases:
        if cs.get("enc_panic"):
            ctx.violation({"case": cs}, "to_bytes panicked on a generated value of type %s" % cs["t"])
    exprs = ["probe %s %s" % (CODEC[cs["t"]], nlist(unhex(cs["in"]))) for cs in bcases]
    ctx.log("bytes: %d cases from the harness; evaluating the model" % len(bcases))
    terms = c.coq_eval(ctx, "bytes", PREAMBLE, exprs, shard=500)
    ctx.log("bytes: model evaluated")
    dist = {}
    accept = reject = 0
    max_alloc_seen = {}
    nviol = 0
    for cs, term in zip(bcases, terms):
        t = cs["t"]
        inp = unhex(cs["in"])
        dist[cs["cls"]] = dist.get(cs["cls"], 0) + 1
        key = c.digest([t, cs["in"]])
        seen.add(key)
        mres, mpre = term
        if mres == "None":
            m = None
        else:
            m = {"n": mres[1][0], "re": bytes(mres[1][1]).hex()}
        r = cs["r"]
        bad = None
        if r == "PANIC":
            bad = "decoding panicked (decoding arbitrary bytes must be total)"
        elif (r is None) != (m is None):
            bad = "accept/reject differs: implementation %s, model %s" % ("rejects" if r is None else "accepts", "rejects" if m is None else "accepts")
        elif r is not None:
            accept += 1
            nontrivial.add(key)
            if r["n"] != m["n"]:
                bad = "bytes consumed differ: implementation %d, model %d" % (r["n"], m["n"])
            elif r["re"] != m["re"]:
                bad = "re-encoding differs: implementation %s, model %s" % (r["re"], m["re"])
            elif t not in NONCANON and bytes(inp[:r["n"]]).hex() != r["re"]:
                # direct oracle: an accepted input of a canonical decoder re-encodes to itself
                bad = "accepted input does not re-encode to itself (canonicity)"
        else:
            reject += 1
        if cs["cls"] == "valid" and not bad:
            # direct round-trip oracle on the implementation alone
            if not cs.get("rt") or r is None or r["n"] != len(inp):
                bad = "from_bytes(to_bytes(v)) != v"
        if not bad and cs["amax"] > alloc_bound(t, len(inp)):
            bad = "pre-allocation not bounded: a single allocation of %d bytes for %d input bytes (bound %d)" % (cs["amax"], len(inp), alloc_bound(t, len(inp)))
        max_alloc_seen[t] = max(max_alloc_seen.get(t, 0), cs["amax"])
        if bad:
            nviol += 1
            if nviol <= 8:
                ctx.violation({"kind": "bytes", "type": t, "class": cs["cls"], "input_hex": cs["in"], "impl": r, "model": m,
                               "model_prealloc_slots": mpre, "impl_max_alloc": cs["amax"],
                               "theorem": "codec laws of Props/C16.v hold for the model term %s; the implementation disagrees" % CODEC[t]},
                              "%s on type %s, input %s: %s" % (cs["cls"], t, cs["in"][:80], bad))
    ctx.notes["bytes_distribution"] = dict(dist, accepted=accept, rejected=reject, types=len(CODEC))
    ctx.notes["max_single_allocation_bytes"] = {k: v for k, v in sorted(max_alloc_seen.items(), key=lambda kv: -kv[1])[:6]}
    samples += [{k: cs[k] for k in ("t", "cls", "in", "r")} for cs in bcases[100:102]]
    ctx.cov["evaluations"] += len(bcases)
    ctx.cov["traces_validated_against_impl"] += len(bcases)

    # ------------------------------------------------------------------ model-generated values
    mv = model_values(ctx.seed, 3 if ctx.quick else 25)
    ctx.log("model-generated values: %d; encoding with the model" % len(mv))
    encs = c.coq_eval(ctx, "menc", PREAMBLE, ["enc %s %s" % (CODEC[t], v) for t, v, _ in mv], shard=250)
    lines = "".join("%s %s\n" % (t, bytes(e).hex()) for (t, _, _), e in zip(mv, encs))
    rc, out = c.run_bin(binp, ["probe"], timeout=600, input=lines.encode())
    if rc != 0:
        ctx.violation({"layer": "harness run (probe)", "output": out[-2000:]}, "probe harness crashed", no_input=True)
        return
    pres = [json.loads(l) for l in out.split("\n") if l.startswith("{")]
    mdist = {"well-formed accepted": 0, "ill-formed rejected": 0}
    nviol = 0
    for (t, v, wfv), e, pr in zip(mv, encs, pres):
        key = c.digest(["model", t, v])
        seen.add(key)
        r = pr.get("r")
        hexin = bytes(e).hex()
        bad = None
        if pr.get("unknown_type"):
            bad = "harness does not know the type"
        elif r == "PANIC":
            bad = "decoding panicked"
        elif wfv:
            if r is None:
                bad = "the model encoding of a well-formed value is rejected by the implementation"
            elif r["n"] != len(e) or r["re"] != hexin:
                bad = "the implementation decodes the model encoding to a value with another encoding (%s, %d bytes)" % (r["re"], r["n"])
            else:
                mdist["well-formed accepted"] += 1
                nontrivial.add(key)
        else:
            if r is not None:
                bad = "the encoding of an ill-formed value (unordered / duplicate keys, failed refinement) is accepted"
            else:
                mdist["ill-formed rejected"] += 1
        if bad:
            nviol += 1
            if nviol <= 6:
                ctx.violation({"kind": "model-generated", "type": t, "value": v, "well_formed": wfv, "encoding_hex": hexin, "impl": r,
                               "theorem": "RT / ordered_reject / refinement laws of %s" % CODEC[t]},
                              "model-generated %s value %s (encoding %s): %s" % (t, v[:80], hexin[:80], bad))
    ctx.notes["model_generated_distribution"] = mdist
    ctx.cov["evaluations"] += len(mv)
    ctx.cov["traces_validated_against_impl"] += len(mv)

    # ------------------------------------------------------------------ text
    nt = 10 if ctx.quick else 110
    rc, out = c.run_bin(binp, ["text", ctx.seed, nt], timeout=900)
    if rc != 0:
        ctx.violation({"layer": "harness run (text)", "output": out[-2000:]}, "text harness crashed", no_input=True)
        return
    tcases = [json.loads(l) for l in out.split("\n") if l.startswith("{")]
    exprs, idx = [], []
    for i, cs in enumerate(tcases):
        if cs["k"] == "p":
            t = cs["t"]
            v = cs["v"]
            arg = "(%s, %s)" % (v[0], v[1]) if t == "contract_address" else str(v)
            exprs.append("%s %s" % (PRINTER[t], arg))
            idx.append((i, "print"))
        elif cs["k"] == "s":
            t = cs["t"]
            fn = PARSER[t][0] if t in PARSER else NAMECHK[t][0]
            exprs.append("%s %s" % (fn, nlist(cs["s"])))
            idx.append((i, "parse"))
        elif cs["k"] == "construct":
            exprs.append("(construct_receive_name %s %s, receive_name_check (construct_receive_name %s %s))" % (
                nlist(cs["c"]), nlist(cs["e"]), nlist(cs["c"]), nlist(cs["e"])))
            idx.append((i, "construct"))
        elif cs["k"] == "parts":
            exprs.append("split_dot %s" % nlist(cs["s"]))
            idx.append((i, "parts"))
        elif cs["k"] == "hp":
            exprs.append("hex_print %s" % nlist(unhex(cs["bytes"])))
            idx.append((i, "hexprint"))
        elif cs["k"] == "hs":
            if cs["t"] != "hash" and any(x >= 128 for x in cs["s"]):
                continue        # outside the model (byte offsets inside a character): observation below
            if cs["t"] == "hash":
                exprs.append("parse_hash %s" % nlist(cs["s"]))
            else:
                exprs.append("parse_key %d %s" % (KEYLEN[cs["t"]], nlist(cs["s"])))
            idx.append((i, "hexparse"))
        elif cs["k"] == "acc_print":
            # the model is evaluated with the real checksum bytes: first 4 bytes of SHA-256(SHA-256(01 || address))
            ck = dsha4([1] + unhex(cs["bytes"]))
            exprs.append("print_account_address (fun _ => %s) %s" % (nlist(ck), nlist(unhex(cs["bytes"]))))
            idx.append((i, "accprint"))
        elif cs["k"] == "acc_parse":
            raw = b58_raw(cs["s"])
            ck = dsha4(raw[:-4]) if raw is not None and len(raw) >= 4 else [0, 0, 0, 0]
            exprs.append("parse_account_address (fun _ => %s) %s" % (nlist(ck), nlist([ord(ch) for ch in cs["s"]])))
            idx.append((i, "accparse"))
    ctx.log("text: %d expressions; evaluating the model" % len(exprs))
    terms = c.coq_eval(ctx, "text", PREAMBLE, exprs, shard=500)
    ctx.log("text: model evaluated")
    tdist = {}
    o4 = []
    nviol = 0

    def tv(obj, msg):
        nonlocal nviol
        nviol += 1
        if nviol <= 10:
            ctx.violation(obj, msg)

    for (i, kind), term in zip(idx, terms):
        cs = tcases[i]
        t = cs.get("t", "construct")
        key = c.digest([kind, t, cs.get("v"), cs.get("s"), cs.get("c"), cs.get("e"), cs.get("bytes")])
        seen.add(key)
        if kind == "print":
            tdist[t + ":print"] = tdist.get(t + ":print", 0) + 1
            model_s = term if isinstance(term, list) else []
            back = canon_impl_parse(t, cs["back"])
            want = (int(cs["v"][0]), int(cs["v"][1])) if t == "contract_address" else int(cs["v"])
            text = "".join(chr(x) for x in cs["s"])
            if back != ("ok", want):
                # direct oracle on the implementation alone
                tv({"kind": "print-parse", "type": t, "value": cs["v"], "printed": text, "parsed_back": cs["back"]},
                   "%s %s prints as %r which parses back as %s" % (t, cs["v"], text, json.dumps(cs["back"])))
            elif cs.get("json_rt") is False:
                tv({"kind": "json", "type": t, "value": cs["v"], "printed": text},
                   "%s %s does not survive its JSON (string) form" % (t, cs["v"]))
            elif model_s != cs["s"]:
                tv({"kind": "print", "type": t, "value": cs["v"], "impl": text, "model": "".join(chr(x) for x in model_s),
                    "theorem": "%s_parse_print is about the model printer; the implementation prints something else" % t},
                   "%s %s: implementation prints %r, model %r" % (t, cs["v"], text, "".join(chr(x) for x in model_s)))
            else:
                nontrivial.add(key)
        elif kind == "parse":
            cls = cs["cls"]
            tdist[t + ":" + cls] = tdist.get(t + ":" + cls, 0) + 1
            impl = canon_impl_parse(t, cs["r"])
            model = canon_model_parse(t, term)
            if model == "PANIC" and t == "duration":
                # observation O4: components or sum not representable - outside the claim
                o4.append({"s": cs["txt"], "impl": cs["r"]})
                continue
            if impl != model:
                tv({"kind": "parse", "type": t, "class": cls, "string": cs["txt"], "codepoints": cs["s"], "impl": cs["r"],
                    "model": str(model), "theorem": "the model parser is the one the parse_print / validator_iff_grammar theorems are about"},
                   "%s string %r: implementation %s, model %s" % (t, cs["txt"], json.dumps(cs["r"]), model))
            elif impl != "PANIC" and impl[0] == "ok":
                nontrivial.add(key)
        elif kind == "parts":
            tdist["receive_name:parts"] = tdist.get("receive_name:parts", 0) + 1
            if [list(term[0]), list(term[1])] != [cs["c"], cs["e"]]:
                tv({"kind": "parts", "case": cs, "model": str(term)}, "ReceiveName contract_name / entrypoint_name differ from the model split at the first dot")
            else:
                nontrivial.add(key)
        elif kind == "hexprint":
            tdist[t + ":print"] = tdist.get(t + ":print", 0) + 1
            text = "".join(chr(x) for x in cs["s"])
            if cs["back"] != cs["bytes"]:
                tv({"kind": "hex print-parse", "type": t, "bytes": cs["bytes"], "printed": text, "parsed_back": cs["back"]},
                   "%s %s prints as %r which parses back as %s" % (t, cs["bytes"], text, cs["back"]))
            elif list(term) != cs["s"]:
                tv({"kind": "hex print", "type": t, "bytes": cs["bytes"], "impl": text, "model": "".join(chr(x) for x in term)},
                   "%s %s: implementation prints %r, model %r" % (t, cs["bytes"], text, "".join(chr(x) for x in term)))
            else:
                nontrivial.add(key)
        elif kind == "hexparse":
            tdist[t + ":" + cs["cls"]] = tdist.get(t + ":" + cs["cls"], 0) + 1
            m = None if term == "None" else bytes(term[1]).hex()
            if cs["r"] != m:
                tv({"kind": "hex parse", "type": t, "class": cs["cls"], "string": cs["txt"], "impl": cs["r"], "model": m,
                    "theorem": "hash_parse_print / key_parse_print are about this model parser"},
                   "%s string %r: implementation %s, model %s" % (t, cs["txt"], cs["r"], m))
            elif m is not None:
                nontrivial.add(key)
        elif kind == "accprint":
            tdist["account_address:model-print"] = tdist.get("account_address:model-print", 0) + 1
            if list(term) != [ord(ch) for ch in cs["s"]]:
                tv({"kind": "account-address-print", "bytes": cs["bytes"], "impl": cs["s"], "model": "".join(chr(x) for x in term),
                    "theorem": "account_address_parse_print is about the model printer"},
                   "AccountAddress %s: implementation prints %s, model %s" % (cs["bytes"], cs["s"], "".join(chr(x) for x in term)))
            else:
                nontrivial.add(key)
        elif kind == "accparse":
            tdist["account_address:model-parse"] = tdist.get("account_address:model-parse", 0) + 1
            m = None if term == "None" else bytes(term[1]).hex()
            if cs["r"] != m:
                tv({"kind": "account-address-parse", "string": cs["s"], "impl": cs["r"], "model": m,
                    "theorem": "account_address_accepts_iff: the model parser accepts exactly the printed strings"},
                   "AccountAddress string %r: implementation %s, model %s" % (cs["s"], cs["r"], m))
            elif m is not None:
                nontrivial.add(key)
        else:
            tdist["construct"] = tdist.get("construct", 0) + 1
            name, chk = term
            impl = cs["r"]
            if impl == "PANIC":
                tv({"kind": "construct", "case": cs}, "OwnedReceiveName::construct panicked")
            elif "ok" in impl:
                if impl["ok"] != name or chk != "None" or impl["ok"] != cs["expect"]:
                    tv({"kind": "construct", "case": cs, "model": [name, str(chk)]}, "OwnedReceiveName::construct differs from the model")
                else:
                    nontrivial.add(key)
            else:
                if chk == "None" or RNERR.get(impl["err"]) != chk[1]:
                    tv({"kind": "construct", "case": cs, "model": [name, str(chk)]}, "OwnedReceiveName::construct rejects differently from the model")
    for cs in tcases:
        if cs["k"] == "oracle_fail":
            tv({"kind": "oracle", "case": cs}, "implementation-only oracle failed: %s on %r" % (cs["t"], cs.get("s")))
        if cs["k"] == "stat":
            ctx.notes["account_address_base58"] = cs
    for cs in tcases:
        if cs["k"] == "acc_print":
            tdist["account_address:print"] = tdist.get("account_address:print", 0) + 1
            want = b58check_encode(1, bytes.fromhex(cs["bytes"]))
            if cs["s"] != want:
                tv({"kind": "account-address-print", "bytes": cs["bytes"], "impl": cs["s"], "reference": want},
                   "AccountAddress %s prints as %s, Base58Check(version 1) is %s" % (cs["bytes"], cs["s"], want))
        if cs["k"] == "acc_parse":
            tdist["account_address:parse"] = tdist.get("account_address:parse", 0) + 1
            want = b58check_decode_account(cs["s"])
            if cs["r"] != want:
                tv({"kind": "account-address-parse", "string": cs["s"], "impl": cs["r"], "reference": want},
                   "AccountAddress string %r: implementation %s, Base58Check(version 1) reference %s" % (cs["s"], cs["r"], want))
    ctx.notes["text_distribution"] = tdist
    nonascii = [cs for cs in tcases if cs["k"] == "hs" and cs["t"] != "hash" and any(x >= 128 for x in cs["s"])]
    ctx.notes["observation_key_hex_nonascii"] = {
        "count": len(nonascii), "panics": sum(1 for cs in nonascii if cs["r"] == "PANIC"),
        "example": next(({"type": cs["t"], "string": cs["txt"]} for cs in nonascii if cs["r"] == "PANIC"), None),
        "note": "outside the property's list of text forms: FromStr of PublicKey*/Signature* slices the string at byte offsets and panics "
                "when an offset falls inside a multi-byte character (string of the right byte length); never a violation here"}
    ctx.notes["observation_O4_duration_overflow"] = {"count": len(o4), "examples": o4[:4],
                                                      "note": "outside the claim: panics with overflow checks, wraps without"}
    # regression guard for the repaired finding: timestamps >= 2^63 and years >= 10000 must be exercised
    big = [cs for cs in tcases if cs["k"] == "p" and cs["t"] == "timestamp" and int(cs["v"]) >= 2 ** 63]
    y10k = [cs for cs in tcases if cs["k"] == "p" and cs["t"] == "timestamp" and 253402300800000 <= int(cs["v"]) < 2 ** 63]
    ctx.notes["timestamp_regression_guard"] = {"values>=2^63": len(big), "values in year>=10000 below 2^63": len(y10k)}
    if len(big) < 10 or len(y10k) < 5:
        ctx.violation({"layer": "generator"}, "generator no longer exercises timestamps >= 2^63 / year >= 10000", no_input=True)
    samples += [{k: cs[k] for k in ("t", "txt", "r")} for cs in tcases if cs["k"] == "s"][40:43]
    samples += [{"t": cs["t"], "v": cs["v"], "printed": "".join(chr(x) for x in cs["s"])} for cs in tcases if cs["k"] == "p"][-3:]
    ctx.cov["evaluations"] += len(idx)
    ctx.cov["traces_validated_against_impl"] += len(idx)

    # ------------------------------------------------------------------ account-address near-miss strings
    import random
    rnd = random.Random(ctx.seed + 77)
    cand = []
    for _ in range(12 if ctx.quick else 150):
        addr = bytes(rnd.randrange(256) for _ in range(32)) if rnd.randrange(4) else bytes([rnd.choice([0, 255])] * 32)
        cand.append(("valid", b58check_encode(1, addr)))
        cand.append(("version", b58check_encode(rnd.choice([0, 2, 3, 255]), addr)))
        cand.append(("length", b58check_encode(1, addr[:rnd.choice([0, 1, 31])])))
        cand.append(("length", b58check_encode(1, addr + bytes(rnd.randrange(1, 3)))))
        raw = bytearray(b58_raw(b58check_encode(1, addr)))
        raw[rnd.randrange(33, 37)] ^= 1 << rnd.randrange(8)
        cand.append(("checksum", b58check_encode_raw(bytes(raw))))
        raw = bytearray(b58_raw(b58check_encode(1, addr)))
        raw[rnd.randrange(1, 33)] ^= 1 << rnd.randrange(8)
        cand.append(("payload-bit", b58check_encode_raw(bytes(raw))))
        cand.append(("leading-one", "1" + b58check_encode(1, addr)))
        cand.append(("no-checksum", b58check_encode_raw(bytes([1]) + addr)))
    rc, out = c.run_bin(binp, ["accparse"], timeout=600, input=("\n".join(x for _, x in cand) + "\n").encode())
    if rc != 0:
        ctx.violation({"layer": "harness run (accparse)", "output": out[-2000:]}, "accparse harness crashed", no_input=True)
        return
    ares = [json.loads(l) for l in out.split("\n") if l.startswith("{")]
    aexprs = []
    for (_, sx) in cand:
        raw = b58_raw(sx)
        ck = dsha4(raw[:-4]) if raw is not None and len(raw) >= 4 else [0, 0, 0, 0]
        aexprs.append("parse_account_address (fun _ => %s) %s" % (nlist(ck), nlist([ord(ch) for ch in sx])))
    aterms = c.coq_eval(ctx, "accparse", PREAMBLE, aexprs, shard=600)
    adist = {}
    nviol = 0
    for (cls, sx), pr, term in zip(cand, ares, aterms):
        adist[cls] = adist.get(cls, 0) + 1
        key = c.digest(["accparse", sx])
        seen.add(key)
        m = None if term == "None" else bytes(term[1]).hex()
        want = b58check_decode_account(sx)
        bad = None
        if pr["r"] != m:
            bad = "implementation %s, model %s" % (pr["r"], m)
        elif pr["r"] != want:
            bad = "implementation %s, Base58Check reference %s" % (pr["r"], want)
        elif (cls == "valid") != (pr["r"] is not None):
            bad = "a %s candidate is %s" % (cls, "rejected" if pr["r"] is None else "accepted")
        elif pr["address"] != pr["r"]:
            bad = "Address::from_str disagrees with AccountAddress::from_str (%s)" % pr["address"]
        if bad:
            nviol += 1
            if nviol <= 6:
                ctx.violation({"kind": "account-address-candidate", "class": cls, "string": sx, "impl": pr, "model": m, "reference": want,
                               "theorem": "account_address_accepts_exactly_printed / wrong_{checksum,version,length}_rejected"},
                              "AccountAddress %s candidate %r: %s" % (cls, sx, bad))
        elif m is not None:
            nontrivial.add(key)
    ctx.notes["account_address_candidates"] = adist
    ctx.cov["evaluations"] += len(cand)
    ctx.cov["traces_validated_against_impl"] += len(cand)

    # ------------------------------------------------------------------ arithmetic
    na = 40 if ctx.quick else 500
    rc, out = c.run_bin(binp, ["arith", ctx.seed, na], timeout=900)
    if rc != 0:
        ctx.violation({"layer": "harness run (arith)", "output": out[-2000:]}, "arith harness crashed", no_input=True)
        return
    acases = [json.loads(l) for l in out.split("\n") if l.startswith("{")]
    MOP = {"amount_checked_add": "amount_checked_add", "amount_checked_sub": "amount_checked_sub",
           "duration_checked_add": "duration_checked_add", "duration_checked_sub": "duration_checked_sub",
           "timestamp_checked_add": "timestamp_checked_add", "timestamp_checked_sub": "timestamp_checked_sub",
           "duration_since": "duration_since", "amount_add": "add_or_panic", "amount_sub": "sub_or_panic", "amount_mul": "mul_or_panic"}
    exprs = []
    for cs in acases:
        op = cs["op"]
        if op in MOP:
            exprs.append("%s %s %s" % (MOP[op], cs["x"], cs["y"]))
        elif op == "duration_between":
            exprs.append("Some (duration_between %s %s)" % (cs["x"], cs["y"]))
        elif op == "quotient_remainder":
            exprs.append("quotient_remainder %s %s" % (cs["x"], cs["y"]))
        elif op == "euro_cent_to_amount":
            exprs.append("convert_euro_cent_to_amount %s %s %s" % (cs["num"], cs["den"], cs["x"]))
        elif op == "amount_to_euro_cent":
            exprs.append("convert_amount_to_euro_cent %s %s %s" % (cs["num"], cs["den"], cs["x"]))
    ctx.log("arith: %d expressions; evaluating the model" % len(exprs))
    terms = c.coq_eval(ctx, "arith", PREAMBLE, exprs, shard=900)
    ctx.log("arith: model evaluated")
    adist = {}
    nviol = 0
    W = 2 ** 64
    for cs, term in zip(acases, terms):
        op = cs["op"]
        adist[op] = adist.get(op, 0) + 1
        key = c.digest(cs)
        seen.add(key)
        r = cs["r"]
        checked = op.endswith("checked_add") or op.endswith("checked_sub") or op == "duration_since"
        if term == "None":
            m = None if checked else "PANIC"
        else:
            v = term[1]
            m = [str(v[0]), str(v[1])] if isinstance(v, tuple) else str(v)
        bad = None
        if r != m:
            bad = "implementation %s, model %s" % (json.dumps(r), json.dumps(m))
        # direct oracle: exact or None, never wrapped
        x, y = int(cs["x"]), int(cs.get("y", 0))
        if not bad and op.endswith("checked_add") and r != (str(x + y) if x + y < W else None):
            bad = "checked_add is not exact-or-None"
        if not bad and (op.endswith("checked_sub") or op == "duration_since") and r != (str(x - y) if x >= y else None):
            bad = "checked_sub is not exact-or-None"
        if not bad and op == "quotient_remainder" and r != "PANIC" and not (int(r[0]) * y + int(r[1]) == x and int(r[1]) < y):
            bad = "quotient_remainder law fails"
        if bad:
            nviol += 1
            if nviol <= 6:
                ctx.violation({"kind": "arith", "case": cs, "model": m, "theorem": "checked_*_exact_or_none / quotient_remainder_law"},
                              "%s(%s, %s): %s" % (op, cs["x"], cs.get("y"), bad))
        elif r not in (None, "PANIC"):
            nontrivial.add(key)
    ctx.notes["arith_distribution"] = adist
    samples += acases[5:7]
    ctx.cov["evaluations"] += len(acases)
    ctx.cov["traces_validated_against_impl"] += len(acases)

    ctx.cov["distinct_nontrivial"] = len(nontrivial)
    ctx.cov["samples"] = samples
    ctx.cov["rule"] = ("bytes: %d types; per type boundary-heavy generated values (valid stream, direct from_bytes(to_bytes v) = v oracle) and a malformed "
                       "stream derived from each (truncation, trailing bytes, bit flips, extreme byte, inflated / incremented length prefix, swapped and "
                       "duplicated chunks = unordered / duplicate keys), random short inputs, hand-written hostile lengths; compared: accept/reject, bytes "
                       "consumed, re-encoding, largest single allocation against the pre-allocation bound. text: boundary values printed by the "
                       "implementation and by the model and parsed back; grammar-generated candidate strings with near-miss mutants (delete/replace/insert/"
                       "duplicate a character) and hand-written corner cases: accept/reject, error kind and value. arithmetic: pairs around the overflow "
                       "boundary. non-trivial = implementation accepted / returned a value; distinct = canonical case hash" % len(CODEC))
    if proof_broken:
        found = bool(ctx.violations)
        ctx.violation({"layer": "Coq proof obligations", "broken": proof_broken},
                      "theorem(s) of Props/C16.v no longer check (%s)" % proof_broken["failed_file"], no_input=not found)
    if ctx.tier == "thorough":
        ok, out = c.coqchk(ctx)
        if not ok:
            ctx.violation({"layer": "coqchk", "output": out[-2000:]}, "coqchk rejected Props/C16.vo", no_input=True)
