"""C06 - transaction and update authorisation is exactly the threshold policy.

Pipeline: T5 translator (cost arithmetic -> Gen/TxCost.v) ; Coq theorems (Props/C06.v) ; Rust harness c06
against the real code ; extracted OCaml model for the volume streams, vm_compute for the rest ; direct
oracles on the implementation alone (perturbations, independent SHA-256, documented energy formula)."""
import hashlib
import json
import os

from . import common as c
from . import c06_txcost

PRE = ("From Coq Require Import NArith List String.\nImport ListNotations.\n"
       "From CB Require Import Chain.Auth Chain.Digest Gen.TxCost.\nLocal Open Scope N_scope.\n")

# documented per-type costs (direct oracle, independent of the translated source)
DOC_A, DOC_B, DOC_HEADER = 100, 1, 60
DOC_TOKEN = {"Transfer": 100, "Mint": 50, "Burn": 50, "AddAllowList": 50, "RemoveAllowList": 50, "AddDenyList": 50,
             "RemoveDenyList": 50, "Pause": 50, "Unpause": 50}


def doc_type_cost(kind, p):
    fixed = {"transfer": 300, "transfer_with_memo": 300, "register_data": 300, "configure_delegation": 300, "remove_baker": 300,
             "update_baker_stake": 300, "update_baker_restake_earnings": 300, "transfer_to_encrypted": 600}
    if kind in fixed:
        return fixed[kind]
    if kind in ("transfer_with_schedule", "transfer_with_schedule_and_memo"):
        return 364 * p["num_releases"]
    if kind == "deploy_module":
        return p["module_size"] // 10
    if kind in ("init_contract", "update_contract"):
        return int(p["energy"])
    if kind == "configure_baker":
        return 4050 if p["with_keys"] else 300
    if kind == "token_update_operations":
        return 300 + sum(DOC_TOKEN[o] for o in p["ops"])
    if kind == "update_credential_keys":
        return 500 * p["num_existing"] + 100 * p["num_keys"]
    if kind == "update_credentials":
        return 500 + 500 * p["num_existing"] + sum(54000 + 100 * k for k in p["num_cred_keys"])
    raise KeyError(kind)


def coq_cost(kind, p):
    if kind in ("transfer_with_schedule", "transfer_with_schedule_and_memo"):
        return "(cost_%s %d)" % (kind, p["num_releases"])
    if kind == "deploy_module":
        return "(cost_deploy_module %d)" % p["module_size"]
    if kind in ("init_contract", "update_contract"):
        return "(cost_%s %s)" % (kind, p["energy"])
    if kind == "configure_baker":
        return "(cost_configure_baker %s)" % ("true" if p["with_keys"] else "false")
    if kind == "token_update_operations":
        return "(cost_token_update_operations [%s])" % "; ".join('"%s"%%string' % o for o in p["ops"])
    if kind == "update_credential_keys":
        return "(cost_update_credential_keys %d %d)" % (p["num_existing"], p["num_keys"])
    if kind == "update_credentials":
        return "(cost_update_credentials %d [%s])" % (p["num_existing"], "; ".join(str(k) for k in p["num_cred_keys"]))
    return "cost_" + kind


def blist(hexs):
    """a byte string as a Gallina term: 32 bytes per number (Digest.unpack)"""
    b = bytes.fromhex(hexs)
    if len(b) <= 4:
        return "[" + "; ".join(str(x) for x in b) + "]"
    words = [b[i:i + 32] for i in range(0, len(b), 32)]
    return "(unpack (N.to_nat %d) [%s])" % (len(b), "; ".join("0x" + w.hex() for w in words))


def unpacked(t):
    """inverse of Digest.pack on the parsed answer (len, words)"""
    n, words = t
    out = b""
    for i, w in enumerate(words):
        k = 32 if i < len(words) - 1 else n - 32 * (len(words) - 1)
        out += int(w).to_bytes(k, "big")
    assert len(out) == n, (n, len(out))
    return out


def sigmap_bytes(sm):
    return "[" + "; ".join("(%d, [%s])" % (ci, "; ".join("(%d, %s)" % (ki, blist(s)) for ki, s in m)) for ci, m in sm) + "]"


def header_term(h, energy=None):
    return "(mkHeader %s %s %s %d %s)" % (blist(h["sender"]), h["nonce"], energy if energy is not None else h["energy"],
                                          h["payload_size"], h["expiry"])


def access_term(a):
    return "(mkAccess [%s] %d)" % ("; ".join("(%d, mkCred [%s] %d)" % (ci, "; ".join("(%d, tt)" % k for k in ks), t)
                                             for ci, t, ks in a["creds"]), a["t"])


def bits_term(sm):
    return "[" + "; ".join("(%d, [%s])" % (ci, "; ".join("(%d, %s)" % (k, "true" if b else "false") for k, b in m)) for ci, m in sm) + "]"


def sha(b):
    return hashlib.sha256(bytes(b)).hexdigest()


def policy_v1(d):
    """the property's reading for sponsored transactions, evaluated on the harness-computed bits"""
    def pol(a, sm):
        if len(sm) < a["t"]:
            return False
        creds = {ci: (t, set(ks)) for ci, t, ks in a["creds"]}
        for ci, m in sm:
            if ci not in creds or len(m) < creds[ci][0]:
                return False
            for k, b in m:
                if k not in creds[ci][1] or not b:
                    return False
        return True
    ok = pol(d["sender"], d["ssig"])
    if d["psig"] is not None:
        ok = ok and pol(d["sponsor"], d["psig"])
    if d["hdr_sponsor"] and d["psig"] is None:
        ok = False  # a sponsored transaction needs the sponsor's signature
    return ok


def run(ctx):
    if getattr(ctx, "replay", None):
        # every stream is a deterministic function of the seed: re-run with the seed named in the replay file
        try:
            rp = json.load(open(ctx.replay))
            h = rp.get("replay", {}).get("harness", "")
            parts = h.split()
            if len(parts) == 4 and parts[0] == "c06":
                ctx.seed = int(parts[2])
            ctx.log("replaying %s (seed %d): %s" % (ctx.replay, ctx.seed, rp.get("summary", "")[:200]))
        except (OSError, ValueError) as e:
            ctx.log("cannot read replay file: %r" % (e,))
    # at most 3 reports per kind of violation (the rest is counted in evidence)
    _report, _counts = ctx.violation, {}

    def limited(replay, summary, no_input=False):
        key = summary[:48]
        _counts[key] = _counts.get(key, 0) + 1
        if _counts[key] <= 3:
            _report(replay, summary, no_input)
        ctx.notes["violation_counts"] = dict(_counts)
    ctx.violation = limited
    kf = c.load_known_findings()
    known_ids = {f["id"] for f in kf["findings"] if f["property"] == "C06"}
    ctx.notes["known_findings_listed_for_C06"] = sorted(known_ids)  # none: KF-C06-1 was repaired by /repo 12eb729ed
    ctx.assumptions += [
        "PARTIAL: 'changing any bit of header/payload/signatures/keys makes verification fail' is relative to SHA-256 collision "
        "resistance and ed25519 unforgeability; the theorem states the explicit disjunction (collision or a signature valid on two digests), "
        "the perturbation stream exercises it on the real code",
        "sig_valid (ed25519-dalek VerifyingKey::verify incl. the length check) and H (SHA-256) are abstract in the theorems; the harness "
        "computes every validity bit with the real verifier and every digest independently with the sha2 crate, the check recomputes with hashlib",
        "rust-src has no verifier for update instructions: update_verify is the node's rule (haskell-src checkAuthorizedUpdate) as a reference "
        "specification, tied only through a harness-side evaluation with real keys; find_authorized_keys / signing / hashing / serialization are tied to the real code",
        "header/payload encoders are modelled concretely (big-endian, fixed widths) and proved prefix-free; payload *content* encodings are C05's subject",
    ]

    # ---------------------------------------------------------------- 1. translate
    rs = os.path.join(c.REPO, "rust-src/concordium_base/src/transactions.rs")
    gen_path = os.path.join(c.COQ, "Gen", "TxCost.v")
    tie_broken = None
    try:
        text, builders = c06_txcost.translate(open(rs).read())
        os.makedirs(os.path.dirname(gen_path), exist_ok=True)
        if not os.path.exists(gen_path) or open(gen_path).read() != text:
            open(gen_path, "w").write(text)
        ctx.notes["translator"] = {"builders": [b for b, _ in builders], "source": rs}
    except (c06_txcost.TranslateError, OSError, ValueError) as e:
        tie_broken = "translator T5 cannot read the cost arithmetic of transactions.rs: %r" % (e,)
        ctx.log(tie_broken)

    # ---------------------------------------------------------------- 2. prove
    ok, info = c.coq_prove(ctx)
    proof_broken = None
    if not ok:
        proof_broken = info
        ctx.log("proof obligations broken:", info["failed_file"], info["error"][-600:])
        c.coq_build(ctx, ["Chain/Auth.vo", "Chain/Digest.vo", "Gen/TxCost.vo"])
    model_cost_ok = os.path.exists(os.path.join(c.COQ, "Gen", "TxCost.vo"))

    # ---------------------------------------------------------------- 3. build
    ok, binp = c.cargo_build(ctx, "c06")
    tries = 0
    while (not ok and tries < 9 and "failed to load manifest for workspace member" in binp
           and "/harness/c06" not in binp.split("failed to load manifest for workspace member")[1][:200]):
        # another property's harness crate is being created in the shared workspace right now: wait for it
        import time
        time.sleep(20)
        tries += 1
        ok, binp = c.cargo_build(ctx, "c06")
    if not ok:
        ctx.violation({"layer": "harness build against /repo", "error": binp},
                      "harness no longer builds against the implementation", no_input=True)
        return
    ok, runner = c.extract_build(ctx, "ExtractC06.v", "driver_c06.ml", "c06")
    if not ok:
        ctx.violation({"layer": "model extraction", "error": runner}, "extracted model runner does not build", no_input=True)
        return

    seen_nontrivial = set()
    evaluations = 0
    lazy_exprs, lazy_todo = [], []

    def later(exprs, fn):
        lazy_todo.append((len(lazy_exprs), len(exprs), fn))
        lazy_exprs.extend(exprs)

    def run_pipe(mode, n, distinct):
        rc, out = c.sh(["bash", "-c", "set -o pipefail; %s %s %d %d | %s %s" % (
            binp, mode, ctx.seed, n, runner, "distinct" if distinct else "")], timeout=2400, env={"RUST_BACKTRACE": "0"})
        stats, mism, samples, other = None, [], [], []
        for l in out.splitlines():
            if l.startswith("STATS "):
                stats = json.loads(l[6:])
            elif l.startswith("MISMATCH "):
                mism.append(l[9:])
            elif l.startswith("SAMPLE "):
                samples.append(l[7:])
            elif l.startswith("{"):
                other.append(json.loads(l))
        return rc, stats, mism, samples, other, out

    def report_auth_mismatches(mode, n, mism):
        for m in mism[:5]:
            ctx.violation({"harness": "c06 %s %d %d" % (mode, ctx.seed, n), "case_line": m,
                           "theorem": "verify_iff_policy (model proved equal to the policy; implementation decides differently)",
                           "format": "A <account threshold>;<cred>:<threshold>:<key indices>|..;<cred>:<key>.<validity bit>,..|..;<implementation result>"},
                          "verify_data_signature disagrees with the proved threshold policy on: %s" % m[:300])

    # ---------------------------------------------------------------- 4. exhaustive slice
    ctx.log("built; exhaustive slice")
    level = 1 if ctx.quick else 2
    rc, stats, mism, samples, other, raw = run_pipe("exh", level, False)
    if rc != 0 or stats is None:
        ctx.violation({"layer": "exhaustive stream", "output": raw[-2000:]}, "exhaustive harness/model pipeline crashed", no_input=True)
        return
    report_auth_mismatches("exh", level, mism)
    evaluations += stats["total"]
    exh_summary = [o for o in other if o.get("k") == "exh_summary"]
    ctx.notes["exhaustive"] = {"exhaustive": True, "slices": exh_summary[0]["slices"] if exh_summary else None, "stats": stats,
                               "note": "every access structure with credential indices 0..n-1, key indices 0..k-1, credential thresholds {1..k+1,255}, "
                                       "account thresholds {1..n+1,255}, and every signer assignment over the registered key indices plus one unregistered "
                                       "key index per credential and one unregistered credential; cases are distinct by construction"}
    exh_accept = stats["model_accept"]
    ctx.cov["samples"] += samples[:3]

    # ---------------------------------------------------------------- 5. sampled stream (+ v1)
    ctx.log("sampled stream")
    n_s = 1500 if ctx.quick else 8000
    rc, stats_s, mism, samples, other, raw = run_pipe("samp", n_s, True)
    if rc != 0 or stats_s is None:
        ctx.violation({"layer": "sampled stream", "output": raw[-2000:]}, "sampled harness/model pipeline crashed", no_input=True)
        return
    report_auth_mismatches("samp", n_s, mism)
    evaluations += stats_s["total"]
    ctx.cov["samples"] += [s[:300] for s in samples[1:3]]
    summ = [o for o in other if o.get("k") == "samp_summary"]
    ctx.notes["sampled"] = {"stats": stats_s, "mutations": summ[0]["mutations"] if summ else None}
    v1 = [o for o in other if o.get("k") == "v1"]
    def v1_expr(d):
        args = "%s %s %s %s" % (access_term(d["sender"]), access_term(d["sponsor"]), bits_term(d["ssig"]),
                                "None" if d["psig"] is None else "(Some %s)" % bits_term(d["psig"]))
        return "(verify_tx_v1_bits %s %s, verify_v1_bits %s)" % ("true" if d["hdr_sponsor"] else "false", args, args)
    exprs = [v1_expr(d) for d in v1]
    v1_dist = {"accept": 0, "reject": 0, "sponsor_named_and_signed": 0, "sponsor_named_not_signed": 0,
               "sponsor_unnamed_but_signed": 0, "unsponsored": 0}

    def post_v1(terms):
        nonlocal evaluations
        for d, t in zip(v1, terms):
            m = "1" if t[0] == "true" else "0"
            m_hash = "1" if t[1] == "true" else "0"
            evaluations += 1
            v1_dist["accept" if m == "1" else "reject"] += 1
            shape = ("sponsor_named_and_signed" if d["psig"] is not None else "sponsor_named_not_signed") if d["hdr_sponsor"] else \
                    ("sponsor_unnamed_but_signed" if d["psig"] is not None else "unsponsored")
            v1_dist[shape] += 1
            if m == "1":
                seen_nontrivial.add(c.digest(["v1", d["sender"], d["ssig"], d["psig"]]))
            if not d["hash_ok"]:
                ctx.violation({"case": d}, "compute_transaction_sign_hash_v1 is not SHA256(prefix || header || payload)")
            if d["r"] != m or d["r_hash"] != m_hash:
                ctx.violation({"harness": "c06 samp %d %d" % (ctx.seed, n_s), "case": d, "model": [m, m_hash],
                               "theorem": "verify_tx_v1_iff_policy / verify_v1_iff_policy (regression witness: prefix_verify_tx_v1_refuted)"},
                              "AccountTransactionV1::verify_transaction_signature / verify_signature_transaction_sign_hash_v1 disagree with the "
                              "model (impl %s/%s, model %s/%s)" % (d["r"], d["r_hash"], m, m_hash))
                continue
            # the property's reading, evaluated independently on the harness-computed bits
            want = policy_v1(d)
            if (d["r"] == "1") != want:
                ctx.violation({"harness": "c06 samp %d %d" % (ctx.seed, n_s), "case": d, "policy": want,
                               "theorem": "sponsored_requires_sponsor_policy"},
                              "v1 verification (%s) differs from the threshold policy for sender and sponsor (%s)%s" % (
                                  d["r"], want, "; a sponsored transaction without sponsor signature verifies (regression of 12eb729ed)"
                                  if d["hdr_sponsor"] and d["psig"] is None else ""))
    later(exprs, post_v1)
    ctx.notes["v1_distribution"] = v1_dist

    # ---------------------------------------------------------------- 6. builders, digests, energy
    ctx.log("builders")
    n_t = 108 if ctx.quick else 810
    rc, out = c.run_bin(binp, ["tx", ctx.seed, n_t], timeout=1800)
    if rc != 0:
        ctx.violation({"layer": "harness run", "output": out[-2000:]}, "tx harness crashed", no_input=True)
        return
    res = [json.loads(l) for l in out.splitlines() if l.startswith("{")]
    txs = [d for d in res if d["k"] == "tx"]
    v1tx = [d for d in res if d["k"] == "v1tx"]
    kinds = {}
    energy_fail = None
    for d in [x for x in res if x["k"] == "tx_panic"]:
        # a builder panicked (the harness is built with overflow checks: arithmetic that would wrap in release panics)
        want = doc_type_cost(d["kind"], d["params"])
        energy_fail = energy_fail or d
        ctx.violation({"harness": "c06 tx %d %d" % (ctx.seed, n_t), "builder": "construct::" + d["kind"], "params": d["params"],
                       "num_sigs": d["num_sigs"], "panic": d["panic"], "documented_type_cost": want,
                       "theorem": "energy_formula / documented_type_costs"},
                      "construct::%s panics (%s) for %s; documented type cost %d" % (d["kind"], d["panic"][:80], json.dumps(d["params"]), want))
    for d in txs:
        kinds[d["kind"]] = kinds.get(d["kind"], 0) + 1
        payload = bytes.fromhex(d["payload"])
        hb = bytes.fromhex(d["header_bytes"])
        problems = []
        if d["header"]["payload_size"] != len(payload):
            problems.append("declared payload_size %d != actual payload length %d" % (d["header"]["payload_size"], len(payload)))
        if sha(hb + payload) != d["sign_hash"] or d["sha_indep"] != d["sign_hash"]:
            problems.append("sign hash is not SHA256(header bytes || payload bytes)")
        if d["bi_hash"] != d["bi_sha_indep"] or d["bi_first_byte"] != 0:
            problems.append("BlockItem::hash is not SHA256 of the serialized block item")
        if d["verifies"] != "1" or not d["sigs_valid_indep"]:
            problems.append("signing with the account's own keys does not verify (verify=%s, signatures valid on independent digest=%s)" % (d["verifies"], d["sigs_valid_indep"]))
        if d["nsigs_made"] != d["signer_num_keys"]:
            problems.append("num_keys() %d != signatures produced %d" % (d["signer_num_keys"], d["nsigs_made"]))
        if not d["payload_matches_structured"] or not d["decoded_ok"]:
            problems.append("encoded payload differs from the structured payload's serialization / does not decode back")
        want = DOC_B * (DOC_HEADER + len(payload)) + DOC_A * d["num_sigs"] + doc_type_cost(d["kind"], d["params"])
        if int(d["header"]["energy"]) != want:
            problems.append("energy %s != documented %d = 1*(60+%d) + 100*%d + type cost %d" % (
                d["header"]["energy"], want, len(payload), d["num_sigs"], doc_type_cost(d["kind"], d["params"])))
            energy_fail = d
        for p in problems:
            ctx.violation({"harness": "c06 tx %d %d" % (ctx.seed, n_t), "builder": "construct::" + d["kind"], "params": d["params"],
                           "num_sigs": d["num_sigs"], "header": d["header"], "payload": d["payload"], "problem": p},
                          "construct::%s: %s" % (d["kind"], p))
    for d in [x for x in res if x["k"] == "send_eq"]:
        want = DOC_B * (DOC_HEADER + d["payload_size"]) + DOC_A * d["num_keys"] + 300
        if not d["ok"] or d["verifies"] != "1" or d["nsigs"] != d["num_keys"] or int(d["energy"]) != want:
            ctx.violation({"case": d, "documented_energy": want}, "send::transfer differs from construct::transfer(num_keys).sign / documented energy")
    # model side
    if model_cost_ok:
        exprs = []
        for d in txs:
            en = "(builder_energy %s (len %s) %d)" % (coq_cost(d["kind"], d["params"]), blist(d["payload"]), d["num_sigs"])
            h = d["header"]
            exprs.append("(%s, pack (block_item_v0 %s (construct_header %s %s %s %s %s) %s))" % (
                en, sigmap_bytes(d["sigs"]), blist(h["sender"]), h["nonce"], h["expiry"], blist(d["payload"]), en, blist(d["payload"])))

        def post_tx(terms):
            nonlocal evaluations
            for d, t in zip(txs, terms):
                evaluations += 1
                m_energy, m_bi = t[0], unpacked(t[1])
                payload = bytes.fromhex(d["payload"])
                tail = m_bi[len(m_bi) - 60 - len(payload):]
                probs = []
                if m_energy != int(d["header"]["energy"]):
                    probs.append("energy: model %d (builder_energy, Gen/TxCost.v) vs implementation %s" % (m_energy, d["header"]["energy"]))
                if tail[:60].hex() != d["header_bytes"]:
                    probs.append("header bytes: model %s vs implementation %s" % (tail[:60].hex(), d["header_bytes"]))
                if sha(tail) != d["sign_hash"]:
                    probs.append("SHA256(model preimage_v0) != implementation sign hash")
                if sha(m_bi) != d["bi_hash"]:
                    probs.append("SHA256(model block_item_v0) != BlockItem::hash")
                for p in probs:
                    ctx.violation({"harness": "c06 tx %d %d" % (ctx.seed, n_t), "builder": "construct::" + d["kind"], "params": d["params"],
                                   "num_sigs": d["num_sigs"], "header": d["header"], "payload": d["payload"], "problem": p,
                                   "theorem": "energy_formula / declared_size_correct / digest model"},
                                  "construct::%s disagrees with the model: %s" % (d["kind"], p))
                if not probs:
                    seen_nontrivial.add(c.digest(["tx", d["kind"], d["header"], d["payload"][:64], d["num_sigs"]]))
        later(exprs, post_tx)
        exprs = []
        for d in v1tx:
            h = header_term(d["header"])
            h1 = "(match add_sponsor A (extend_header %s) %s %d with Some x => x | None => extend_header %s end)" % (h, blist(d["sponsor"]), d["num_sponsor_sigs"], h)
            exprs.append("(h_energy (h1_base %s), pack (preimage_v1 (extend_header %s) %s), pack (preimage_v1 %s %s), pack (block_item_v1 %s (Some %s) %s %s))" % (
                h1, h, blist(d["payload"]), h1, blist(d["payload"]), sigmap_bytes(d["ssig"]), sigmap_bytes(d["psig"]), h1, blist(d["payload"])))

        def post_v1tx(terms):
            nonlocal evaluations
            for d, t in zip(v1tx, terms):
                evaluations += 1
                m_energy, m_pre_ext, m_pre, m_bi = t[0], unpacked(t[1]), unpacked(t[2]), unpacked(t[3])
                probs = []
                want = int(d["base_energy"]) + 2 + 32 + 100 * d["num_sponsor_sigs"]
                if int(d["energy"]) != want or int(d["ext_energy"]) != int(d["base_energy"]) + 2 or m_energy != int(d["energy"]):
                    probs.append("sponsored energy %s (extend %s), documented %d, model %d" % (d["energy"], d["ext_energy"], want, m_energy))
                if sha(m_pre_ext) != d["ext_sign_hash"] or d["ext_sha_indep"] != d["ext_sign_hash"]:
                    probs.append("extend(): sign hash v1 is not SHA256(prefix || header_v1 || payload)")
                if sha(m_pre) != d["sign_hash"] or d["sha_indep"] != d["sign_hash"]:
                    probs.append("add_sponsor(): sign hash v1 is not SHA256(prefix || header_v1 || payload)")
                if sha(m_bi) != d["bi_hash"] or d["bi_hash"] != d["bi_sha_indep"]:
                    probs.append("BlockItem::hash (v1) is not SHA256(model block_item_v1)")
                if d["verifies"] != "1" or not d["second_add_sponsor_rejected"]:
                    probs.append("sponsored transaction signed by sender and sponsor does not verify / second add_sponsor accepted")
                for p in probs:
                    ctx.violation({"harness": "c06 tx %d %d" % (ctx.seed, n_t), "case": {k: d[k] for k in ("header", "sponsor", "num_sponsor_sigs", "energy", "payload")},
                                   "problem": p, "theorem": "sponsored_energy / digest model"}, "sponsored builder: %s" % p)
                if not probs:
                    seen_nontrivial.add(c.digest(["v1tx", d["header"], d["sponsor"], d["num_sponsor_sigs"]]))
        later(exprs, post_v1tx)
    ctx.notes["builder_distribution"] = kinds
    ctx.notes["builders_not_exercised"] = ["encrypted_transfer", "encrypted_transfer_with_memo", "transfer_to_public", "add_baker",
                                           "update_baker_keys", "update_credential_keys", "update_credentials"]
    if txs:
        ctx.cov["samples"].append({k: txs[0][k] for k in ("kind", "num_sigs", "header", "sign_hash")})

    # ---------------------------------------------------------------- 7. perturbations (implementation alone)
    ctx.log("perturbations")
    n_p = 60 if ctx.quick else 1500
    rc, out = c.run_bin(binp, ["pert", ctx.seed, n_p], timeout=1800)
    if rc != 0:
        ctx.violation({"layer": "harness run", "output": out[-2000:]}, "perturbation harness crashed", no_input=True)
        return
    pert = [json.loads(l) for l in out.splitlines() if l.startswith("{")]
    classes = {}
    survived = {}
    v1_shapes = {}
    hash_level = {}
    for d in pert:
        evaluations += len(d["rejected"]) + 1
        if not d["base_ok"] or (d["v"] == 0 and not d["all_keys_sign_ok"]):
            ctx.violation({"harness": "c06 pert %d %d" % (ctx.seed, n_p), "case": d}, "a correctly signed transaction (v%d) does not verify" % d["v"])
        for name, rej in d["rejected"]:
            classes[name] = classes.get(name, 0) + 1
            if not rej:
                survived[name] = survived.get(name, 0) + 1
                if survived[name] == 1:
                    ctx.violation({"harness": "c06 pert %d %d" % (ctx.seed, n_p), "perturbation": name, "version": d["v"],
                                   "case_index": pert.index(d)},
                                  "verification survives the perturbation `%s`" % name)
        if d["v"] == 1:
            if not d["sponsor_sig_dropped_rejected"]:
                ctx.violation({"harness": "c06 pert %d %d" % (ctx.seed, n_p), "perturbation": "sponsor signature removed, header.sponsor kept",
                               "case_index": pert.index(d), "theorem": "sponsored_requires_sponsor_policy (regression witness prefix_verify_tx_v1_refuted)"},
                              "a sponsored transaction without sponsor signature verifies (regression of fix 12eb729ed)")
            # converse shape and plain v1: the model (= the code's rule) says accept iff the supplied sponsor signature
            # satisfies the sponsor policy under the keys passed by the caller
            conv = (d["converse_signed"], d["converse_wrong_sponsor_keys"], d["converse_stale_sponsor_sig"], d["unsponsored_v1"])
            v1_shapes[conv] = v1_shapes.get(conv, 0) + 1
            if conv != ("1", "0", "0", "1"):
                ctx.violation({"harness": "c06 pert %d %d" % (ctx.seed, n_p), "case_index": pert.index(d), "observed": conv,
                               "expected": ["1", "0", "0", "1"], "theorem": "verify_tx_v1_iff_policy",
                               "fields": ["header.sponsor=None + valid sponsor signature", "same, wrong sponsor keys", "same, sponsor signature over another digest", "no sponsor at all"]},
                              "v1 verification with header.sponsor = None differs from the model")
            hash_level[d["sponsor_sig_dropped_hash_level"]] = hash_level.get(d["sponsor_sig_dropped_hash_level"], 0) + 1
    ctx.notes["perturbation_classes"] = classes
    ctx.notes["v1_unnamed_sponsor_shapes"] = {"/".join(k): v for k, v in v1_shapes.items()}
    ctx.notes["hash_level_v1_without_sponsor_signature"] = hash_level
    if survived:
        ctx.notes["perturbations_survived"] = survived

    # ---------------------------------------------------------------- 7b. wire-level tampering of the signature set
    # byte-level mutants of the signature set(s) of serialized block items (plain and sponsored): duplicated
    # credential entry, duplicated key index, entries out of order, zero-length maps.  A mutant that differs from
    # the original must be rejected at parse, or fail verification, or be canonical (re-serialize to itself).
    ctx.log("wire-level signature set tampering")
    n_w = 60 if ctx.quick else 1500
    rc, out = c.run_bin(binp, ["wire", ctx.seed, n_w], timeout=1800)
    if rc != 0:
        ctx.violation({"layer": "harness run", "output": out[-2000:]}, "wire tamper harness crashed", no_input=True)
        return
    wire = [json.loads(l) for l in out.splitlines() if l.startswith("{")]
    wsum = [d for d in wire if d["k"] == "wire_summary"]
    reported = 0
    for d in wire:
        if d["k"] == "wire_base_bad":
            ctx.violation({"harness": "c06 wire %d %d" % (ctx.seed, n_w), "block_item_hex": d["original"], "version": d["v"]},
                          "an honestly signed serialized block item (v%d) does not parse+verify+re-serialize identically" % d["v"])
        elif d["k"] == "wire" and reported < 12:
            reported += 1
            ctx.violation({"harness": "c06 wire %d %d" % (ctx.seed, n_w), "class": d["cls"], "sub_class": d["sub"], "version": d["v"],
                           "signature_set": d["set"], "mutant_block_item_hex": d["mutant"], "original_block_item_hex": d["original"],
                           "replay": "BlockItem::<EncodedPayload>::deserial(mutant) ; verify_transaction_signature ; to_bytes != mutant"},
                          "%s: a tampered signature set (%s/%s, %s signatures, v%d) parses, verifies and re-serializes to different bytes"
                          % (d["outcome"], d["cls"], d["sub"], d["set"], d["v"]))
    if len(wsum) != 1:
        ctx.violation({"layer": "harness run", "output": out[-2000:]}, "wire tamper harness printed no summary", no_input=True)
        return
    per_class = {}
    for k, v in wsum[0]["counts"].items():
        cls, outcome = k.split("|")
        per_class.setdefault(cls, {})[outcome] = v
    ctx.notes["wire_mutants_per_class"] = per_class
    ctx.notes["wire_base_transactions"] = {"plain": n_w, "sponsored_v1": n_w}
    for cls in ("dup_cred", "dup_key", "order", "zero"):
        if sum(per_class.get(cls, {}).values()) == 0:
            ctx.violation({"layer": "harness run", "class": cls}, "wire tamper stream produced no mutant of class %s" % cls, no_input=True)

    # ---------------------------------------------------------------- 8. updates
    ctx.log("updates")
    n_u = 300 if ctx.quick else 3000
    rc, out = c.run_bin(binp, ["upd", ctx.seed, n_u], timeout=1800)
    if rc != 0:
        ctx.violation({"layer": "harness run", "output": out[-2000:]}, "update harness crashed", no_input=True)
        return
    upd_all = [json.loads(l) for l in out.splitlines() if l.startswith("{")]
    upd = [d for d in upd_all if d["k"] == "upd"]
    asrt = [d for d in upd_all if d["k"] == "asrt"]
    as_dist = {"decodable": 0, "rejected_threshold": 0, "n_of_n_decodable": 0, "shapes": {}}
    exprs = ["forallb access_structure_wf [%s]" % "; ".join("mkAS [%s] %d" % ("; ".join(str(j) for j in range(nn)), t) for nn, t in d["structs"]) for d in asrt]

    def post_asrt(terms):
        nonlocal evaluations
        for d, t in zip(asrt, terms):
            evaluations += 1
            as_dist["shapes"][d["shape"]] = as_dist["shapes"].get(d["shape"], 0) + 1
            model_ok = t == "true"
            probs = []
            if "panic" in d:
                probs.append("building / reading back the update instruction panics: %s" % d["panic"][:100])
            else:
                if d["decode_ok"] != model_ok:
                    probs.append("payload decodes: %s, model (1 <= threshold <= number of keys for every access structure): %s" % (d["decode_ok"], model_ok))
                if model_ok and d["decode_ok"] and not d["reencode_eq"]:
                    probs.append("decode(encode(payload)) re-encodes differently")
                if not d["instruction_roundtrip"] or not d["payload_is_encoding"]:
                    probs.append("UpdateInstruction does not round-trip through its serialization / payload bytes are not the payload's encoding")
                as_dist["decodable" if d["decode_ok"] else "rejected_threshold"] += 1
                if d["decode_ok"] and any(nn == t for nn, t in d["structs"]):
                    as_dist["n_of_n_decodable"] += 1
            for p in probs:
                ctx.violation({"harness": "c06 upd %d %d" % (ctx.seed, n_u), "payload_shape": d["shape"],
                               "access_structures_[number_of_keys,threshold]": d["structs"], "problem": p,
                               "theorem": "access_structure_wf_iff / update_n_of_n_nonvacuous"},
                              "key-update payload %s with access structures %s: %s" % (d["shape"], json.dumps(d["structs"])[:120], p))
            if not probs and d.get("decode_ok"):
                seen_nontrivial.add(c.digest(["asrt", d["shape"], d["structs"]]))
    later(exprs, post_asrt)
    exprs = []
    for d in upd:
        acc = "(mkAS [%s] %d)" % ("; ".join(str(x) for x in d["acc"]["auth"]), d["acc"]["t"])
        exprs.append("find_authorized_ids [%s] %s [%s]" % ("; ".join(map(str, d["keys"])), acc, "; ".join(map(str, d["actual"]))))
        if "sig_bits" in d:
            exprs.append("(update_verify_bits %d %s [%s], pack (block_item_update (mkUpdateHeader %s %s %s %d) %s [%s]))" % (
                d["nkeys"], acc, "; ".join("(%d, %s)" % (i, "true" if b else "false") for i, b in d["sig_bits"]),
                d["uh"]["seq"], d["uh"]["eff"], d["uh"]["tmo"], d["uh"]["payload_size"], blist(d["payload"]),
                "; ".join("(%d, %s)" % (i, blist(s)) for i, s in d["sigs"])))
    ud = {"signer_none": 0, "signer_some": 0, "ref_accept": 0, "ref_reject": 0, "v0": 0, "v1": 0}

    def post_upd(terms):
        nonlocal evaluations
        ti = 0
        for d in upd:
            evaluations += 1
            ud["v%d" % d["version"]] += 1
            t = terms[ti]
            ti += 1
            model_signer = None if t == "None" else [list(x) for x in t[1]]
            if d["signer"] == "PANIC" or model_signer != d["signer"]:
                ctx.violation({"harness": "c06 upd %d %d" % (ctx.seed, n_u), "keys": d["keys"], "access_structure": d["acc"], "actual_keys": d["actual"],
                               "impl": d["signer"], "model": model_signer, "theorem": "find_authorized_keys_sound / update_sign_sufficient_verifies"},
                              "find_authorized_keys (Authorizations%s::construct_update_signer) disagrees with the model" % ("V1" if d["version"] else "V0"))
            ud["signer_none" if d["signer"] is None else "signer_some"] += 1
            if "sig_bits" not in d:
                continue
            m_acc, m_bi = terms[ti][0], unpacked(terms[ti][1])
            ti += 1
            evaluations += 1
            probs = []
            if (m_acc == "true") != d["ref_accept"]:
                probs.append("reference rule evaluated with real keys (%s) != model update_verify (%s)" % (d["ref_accept"], m_acc))
            ud["ref_accept" if d["ref_accept"] else "ref_reject"] += 1
            hb, pb = bytes.fromhex(d["header_bytes"]), bytes.fromhex(d["payload"])
            if m_bi[1:1 + len(hb) + len(pb)] != hb + pb or sha(m_bi[1:1 + len(hb) + len(pb)]) != d["sha_indep"]:
                probs.append("update header/payload bytes differ from the model's preimage_update")
            if sha(m_bi) != d["bi_hash"] or d["bi_hash"] != d["bi_sha_indep"]:
                probs.append("BlockItem::hash of the update instruction is not SHA256(model block_item_update)")
            if d["uh"]["payload_size"] != len(pb) or not d["payload_is_encoding"] or not d["decoded_ok"]:
                probs.append("declared update payload size / encoding wrong")
            if not d["corrupted"]:
                if not all(b == 1 for _, b in d["sig_bits"]):
                    probs.append("a signature made by update::update is not valid for SHA256(header || payload) under keys[index]")
                if len(d["actual"]) >= d["acc"]["t"] and not d["ref_accept"]:
                    probs.append("signing with >= threshold authorised keys is not accepted by the reference rule")
            if not d["perturbed_dead"]:
                probs.append("a signature survives a flipped byte of the update header / payload")
            if d.get("det"):
                nn, t, m = d["det"]
                ud["det_cases"] = ud.get("det_cases", 0) + 1
                if d["ref_accept"] != (m >= t):
                    probs.append("%d of the %d authorised keys sign a threshold-%d structure: accepted=%s" % (m, nn, t, d["ref_accept"]))
                if nn == t == m and d["ref_accept"]:
                    ud["n_of_n_accepted"] = ud.get("n_of_n_accepted", 0) + 1
            for p in probs:
                ctx.violation({"harness": "c06 upd %d %d" % (ctx.seed, n_u), "keys": d["keys"], "access_structure": d["acc"], "actual_keys": d["actual"],
                               "update_header": d["uh"], "payload": d["payload"], "problem": p, "theorem": "update_verify_iff_policy / update_sign_sufficient_verifies"},
                              "update instruction: %s" % p)
            if not probs and d["ref_accept"]:
                seen_nontrivial.add(c.digest(["upd", d["keys"], d["acc"], d["actual"], d["uh"]]))
    later(exprs, post_upd)

    # ---------------------------------------------------------------- 9. one model evaluation for all deferred cases
    ctx.log("model evaluation of %d deferred expressions" % len(lazy_exprs))
    if lazy_exprs:
        terms = c.coq_eval(ctx, "all", PRE, lazy_exprs, shard=max(8, len(lazy_exprs) // 16 + 1))
        for start, cnt, fn in lazy_todo:
            fn(terms[start:start + cnt])
    ctx.notes["update_distribution"] = ud
    ctx.notes["key_collection_roundtrips"] = as_dist
    upd_some = [d for d in upd if "sig_bits" in d]
    if upd_some:
        ctx.cov["samples"].append({k: upd_some[0][k] for k in ("field", "keys", "acc", "actual", "signer", "ref_accept")})

    # ---------------------------------------------------------------- evidence
    ctx.log("evidence")
    ctx.cov["evaluations"] = evaluations
    ctx.cov["traces_validated_against_impl"] = evaluations
    ctx.cov["distinct_nontrivial"] = exh_accept + stats_s["distinct_accept"] + len(seen_nontrivial)
    ctx.cov["rule"] = ("non-trivial = the case reaches acceptance (all checks pass): accepted cases of the exhaustive slice (distinct by construction), "
                       "distinct accepted sampled signature maps (md5 of the case text), distinct accepted v1 / builder / update cases (canonical hash); "
                       "rejecting cases are counted in evaluations only. Generators: exhaustive slice as described in notes.exhaustive; sampled accounts with "
                       "1..256 credentials x 1..256 keys (boundary indices 0,1,127,128,254,255 favoured), thresholds reachable for 3/4 of the accounts and hostile "
                       "(k, k+1, 255, random) otherwise, a threshold-meeting signer (rotated, with random extras) then one mutation from notes.sampled.mutations "
                       "(about 40% unmutated); one third of the cases go through the real header+payload hashing with validity bits taken against an independently "
                       "recomputed digest; builders rotate over 16 construct::* kinds with boundary-heavy field values; updates: AuthorizationsV0/V1 with 1..20 keys "
                       "(duplicates possible), random access structures per update type, signer sets with unauthorised / unknown / duplicate keys")
    if tie_broken:
        found = bool(ctx.violations)
        ctx.violation({"layer": "translator T5", "error": tie_broken}, tie_broken, no_input=not found)
    if proof_broken:
        found = bool(ctx.violations)
        ctx.violation({"layer": "Coq proof obligations", "broken": proof_broken, "concrete_input": energy_fail},
                      "theorem(s) of Props/C06.v no longer check (%s)" % proof_broken["failed_file"], no_input=not found)
    if ctx.tier == "thorough":
        ok, out = c.coqchk(ctx)
        if not ok:
            ctx.violation({"layer": "coqchk", "output": out[-2000:]}, "coqchk rejected Props/C06.vo", no_input=True)
