"""C10 - schema-directed JSON <-> binary conversion: Coq theorems over Contract/SchemaJson.v and
Contract/CcSchemaCodec.v, correspondence with schema_json.rs / schema.rs, direct oracles."""
import json
from . import common as c

# ----------------------------------------------------------------------------- s-expressions for the runner
def xs(b):
    return "x" + bytes(b).hex()


def xstr(s):
    return "x" + s.encode("utf-8").hex()


SIMPLE = {"Unit", "Bool", "U8", "U16", "U32", "U64", "U128", "I8", "I16", "I32", "I64", "I128", "Amount",
          "AccountAddress", "ContractAddress", "Timestamp", "Duration"}


def fields_sx(f):
    k = f["k"]
    if k == "0":
        return "Z"
    if k == "N":
        return "(N %s)" % " ".join("(%s %s)" % (xstr(n), ty_sx(t)) for n, t in f["l"])
    return "(U %s)" % " ".join(ty_sx(t) for t in f["l"])


def ty_sx(d):
    t = d["t"]
    if t in SIMPLE:
        return t
    if t == "Pair":
        return "(Pair %s %s)" % (ty_sx(d["a"]), ty_sx(d["b"]))
    if t in ("List", "Set"):
        return "(%s %d %s)" % (t, d["s"], ty_sx(d["e"]))
    if t == "Map":
        return "(Map %d %s %s)" % (d["s"], ty_sx(d["a"]), ty_sx(d["b"]))
    if t == "Array":
        return "(Array %d %s)" % (d["n"], ty_sx(d["e"]))
    if t == "Struct":
        return "(Struct %s)" % fields_sx(d["f"])
    if t == "Enum":
        return "(Enum %s)" % " ".join("(%s %s)" % (xstr(n), fields_sx(f)) for n, f in d["v"])
    if t == "TaggedEnum":
        return "(TaggedEnum %s)" % " ".join("(%d %s %s)" % (tag, xstr(n), fields_sx(f)) for tag, n, f in d["v"])
    if t in ("String", "ContractName", "ReceiveName", "ByteList"):
        return "(%s %d)" % (t, d["s"])
    if t in ("ULeb128", "ILeb128", "ByteArray"):
        return "(%s %d)" % (t, d["n"])
    raise ValueError(t)


def json_sx(v):
    if v is None:
        return "null"
    if isinstance(v, bool):
        return "t" if v else "f"
    if isinstance(v, int):
        return "(n %d)" % v
    if isinstance(v, float):
        return "F"
    if isinstance(v, str):
        return "(s %s)" % xstr(v)
    if isinstance(v, list):
        return "(a %s)" % " ".join(json_sx(x) for x in v)
    return "(o %s)" % " ".join("(%s %s)" % (xstr(k), json_sx(x)) for k, x in v.items())


def opt_sx(o, f):
    return "none" if o is None else "(some %s)" % f(o)


def f1_sx(f):
    if f["k"] == "P":
        return "(P %s)" % ty_sx(f["p"])
    if f["k"] == "R":
        return "(R %s)" % ty_sx(f["r"])
    return "(B %s %s)" % (ty_sx(f["p"]), ty_sx(f["r"]))


def f2_sx(f):
    return "(F2 %s %s %s)" % (opt_sx(f["p"], ty_sx), opt_sx(f["r"], ty_sx), opt_sx(f["e"], ty_sx))


def map_sx(m, f):
    return " ".join("(%s %s)" % (xstr(k), f(x)) for k, x in m)


def module_sx(d):
    v = d["v"]
    if v == 0:
        cs = map_sx(d["c"], lambda x: "(C0 %s %s %s)" % (opt_sx(x["state"], ty_sx), opt_sx(x["init"], ty_sx), map_sx(x["receive"], ty_sx)))
    elif v == 1:
        cs = map_sx(d["c"], lambda x: "(C1 %s %s)" % (opt_sx(x["init"], f1_sx), map_sx(x["receive"], f1_sx)))
    elif v == 2:
        cs = map_sx(d["c"], lambda x: "(C2 %s %s)" % (opt_sx(x["init"], f2_sx), map_sx(x["receive"], f2_sx)))
    else:
        cs = map_sx(d["c"], lambda x: "(C3 %s %s %s)" % (opt_sx(x["init"], f2_sx), opt_sx(x["event"], ty_sx), map_sx(x["receive"], f2_sx)))
    return "(MV%d %s)" % (v, cs)


def parse_sx(s):
    """s-expression -> nested Python lists of atoms (str)"""
    stack = [[]]
    i, n = 0, len(s)
    while i < n:
        ch = s[i]
        if ch == "(":
            stack.append([])
            i += 1
        elif ch == ")":
            top = stack.pop()
            stack[-1].append(top)
            i += 1
        elif ch == " ":
            i += 1
        else:
            j = i
            while j < n and s[j] not in " ()":
                j += 1
            stack[-1].append(s[i:j])
            i = j
    return stack[0][0]


def run_model(ctx, runner, name, lines, timeout=1500):
    rc, out = c.sh([runner], input=("\n".join(lines) + "\n").encode(), timeout=timeout)
    res = out.split("\n")
    if res and res[-1] == "":
        res.pop()
    if rc != 0 or len(res) != len(lines):
        raise RuntimeError("model runner (%s): rc=%s, %d answers for %d commands: %s" % (name, rc, len(res), len(lines), out[-500:]))
    bad = [r for r in res if r.startswith("!error")]
    if bad:
        raise RuntimeError("model runner (%s): %s" % (name, bad[0]))
    return [parse_sx(r) for r in res]


# ----------------------------------------------------------------------------- canonical forms
def canon_py(v):
    if v is None:
        return ("z",)
    if isinstance(v, bool):
        return ("b", v)
    if isinstance(v, int):
        return ("n", v)
    if isinstance(v, float):
        return ("f",)
    if isinstance(v, str):
        return ("s", v.encode("utf-8"))
    if isinstance(v, list):
        return ("a", tuple(canon_py(x) for x in v))
    return ("o", tuple(sorted((k.encode("utf-8"), canon_py(x)) for k, x in v.items())))


def canon_model(t):
    if t == "null":
        return ("z",)
    if t == "F":
        return ("f",)
    if t in ("t", "f"):
        return ("b", t == "t")
    h = t[0]
    if h == "n":
        return ("n", int(t[1]))
    if h == "s":
        return ("s", bytes.fromhex(t[1][1:]))
    if h == "a":
        return ("a", tuple(canon_model(x) for x in t[1:]))
    if h == "o":
        return ("o", tuple(sorted((bytes.fromhex(k[1:]), canon_model(x)) for k, x in t[1:])))
    raise ValueError("model json %r" % (t,))


def model_result(t):
    """'-' | [json, restlen]  ->  None | (canonical json, restlen)"""
    return None if t == "-" else (canon_model(t[0]), int(t[1]))


def hx(x):
    """'x<hex>' atom of the runner -> hex"""
    return x[1:]


def trim(o, n=1500):
    s = json.dumps(o, default=str)
    return json.loads(s) if len(s) <= n else s[:n] + "..."


def lines_of(out):
    return [json.loads(l) for l in out.splitlines() if l.startswith("{")]


def cached_runner(ctx):
    """extract + compile the model runner, reusing the binary while the model sources and the driver are unchanged"""
    import hashlib, os, shutil
    h = hashlib.sha256()
    for f in c.coq_closure("Run/ExtractC10.v"):
        h.update(open(os.path.join(c.COQ, f), "rb").read())
    h.update(open(os.path.join(c.VERIF, "ocaml", "driver_c10.ml"), "rb").read())
    tagged = os.path.join(c.CACHE, "ocaml", "c10", "runner." + h.hexdigest()[:20])
    if os.path.exists(tagged):
        ctx.notes["model_runner"] = "reused (model sources unchanged)"
        return True, tagged
    ok, r = c.extract_build(ctx, "ExtractC10.v", "driver_c10.ml", "c10")
    if ok:
        shutil.copy(r, tagged)
        ctx.notes["model_runner"] = "extracted and compiled in this run"
        return True, tagged
    return ok, r


# ----------------------------------------------------------------------------- extended streams (coq_eval)
def nlist(h):
    return "[" + "; ".join(str(b) for b in bytes.fromhex(h)) + "]"


def ext_streams(ctx, binp, quick, viol, seen, nontrivial, depth):
    n_leb, n_new, n_b64 = (400, 40, 300) if quick else (20000, 2500, 12000)
    pre = ("From Coq Require Import NArith ZArith List. Import ListNotations.\n"
           "From CB Require Import Contract.SchemaJson Contract.SchemaJsonLeb Contract.CcSchemaCodec Contract.CcSchemaNew Contract.Base64.\n"
           "Local Open Scope N_scope.\n")
    # ---- LEB128: decoder, fixed form, strip -- against to_json / serial_value
    rc, out = c.run_bin(binp, ["leb", ctx.seed, n_leb], timeout=600)
    if rc != 0:
        ctx.violation({"layer": "harness run leb", "output": out[-2000:]}, "harness crashed in mode leb", no_input=True)
        return
    lcases = lines_of(out)
    terms = c.coq_eval(ctx, "leb", pre, ["leb_probe %s %d %s" % ("true" if cs["s"] else "false", cs["c"], nlist(cs["bytes"])) for cs in lcases], shard=100)
    ldist = {}
    lstat = {"accepted": 0, "rejected": 0, "padded_accepted": 0, "strip_changed": 0}
    for cs, t in zip(lcases, terms):
        ldist[cs["kind"]] = ldist.get(cs["kind"], 0) + 1
        key = c.digest(["leb", cs["s"], cs["c"], cs["bytes"]])
        seen.add(key)
        short = {"type": ("ILeb128" if cs["s"] else "ULeb128"), "constraint": cs["c"], "bytes": cs["bytes"], "kind": cs["kind"]}
        if cs["out"] == "PANIC" or cs.get("back") == "PANIC":
            viol(dict(short, panic=cs.get("panic")), "LEB128 conversion panicked on %s" % cs["bytes"])
            continue
        if cs["out"] == "ERR":
            lstat["rejected"] += 1
            if t != "None":
                viol(dict(short, model=str(t)[:600], theorem="leb128_*_accepts_iff (model accepts, implementation rejects)"),
                     "to_json rejects a LEB128 encoding the model accepts: %s under constraint %d" % (cs["bytes"], cs["c"]))
            continue
        lstat["accepted"] += 1
        nontrivial.add(key)
        if t == "None":
            viol(dict(short, impl=cs["out"], theorem="leb128_*_accepts_iff (implementation accepts, model rejects)"),
                 "to_json accepts a LEB128 encoding the model rejects: %s under constraint %d" % (cs["bytes"], cs["c"]))
            continue
        neg, mag, nrest, strip, is_fixed, fits, enc = t[1]
        val = -mag if neg == "true" else mag
        blen = len(cs["bytes"]) // 2
        used = blen - nrest
        want_back = bytes(strip).hex()
        m_enc = "ERR" if enc == "None" else bytes(enc[1]).hex()
        if str(val) != cs["out"]["v"] or used != cs["out"]["used"]:
            viol(dict(short, impl=cs["out"], model_value=str(val), model_used=used, theorem="leb128 decoder correspondence"),
                 "to_json value / consumed bytes differ from the model on %s" % cs["bytes"])
            continue
        if is_fixed != "true" or fits != "true":
            viol(dict(short, model=str(t)[:600], theorem="leb128_*_accepts_iff: accepted bytes are the fixed form of the value"), "accepted bytes are not the fixed form (model-internal)")
            continue
        if cs["back"] != want_back or m_enc != want_back:
            viol(dict(short, impl_value=cs["out"]["v"], impl_back=cs["back"], model_strip=want_back, model_enc=m_enc, theorem="leb128_*_normal_form: from_json (to_json b) = strip b"),
                 "serial_value (to_json b) is not the stripped form of b: impl %s model %s" % (cs["back"], want_back))
            continue
        if used > len(strip):
            lstat["padded_accepted"] += 1
            lstat["strip_changed"] += 1
    ctx.notes["leb128_stream"] = {"kinds": ldist, "stats": lstat, "constraints": "0,1,2,5,10,37 and 1..12; values 0, 2^(7c)-1, 2^(7c), 2^(7c-7), 2^(7c-7)-1, +-2^(7c-1), +-(2^(7c-1)+1), 63..129, u64 edges, random"}
    ctx.cov["samples"] += [trim({k: cs[k] for k in ("s", "c", "bytes", "out", "back", "kind") if k in cs}, 400) for cs in lcases[2:4]]

    # ---- VersionedModuleSchema::new
    rc, out = c.run_bin(binp, ["new", ctx.seed, n_new, depth], timeout=600)
    if rc != 0:
        ctx.violation({"layer": "harness run new", "output": out[-2000:]}, "harness crashed in mode new", no_input=True)
        return
    ncases = lines_of(out)
    exprs, owners = [], []
    for cs in ncases:
        for r in cs["res"]:
            exprs.append("new_probe %s %s" % (nlist(cs["bytes"]), "None" if r["hint"] is None else "(Some %d)" % r["hint"]))
            owners.append((cs, r))
    terms = c.coq_eval(ctx, "new", pre, exprs, shard=70)
    ndist = {}
    for (cs, r), t in zip(owners, terms):
        k = r["r"]["k"]
        ndist["%s/%s/%s" % (cs["form"], cs["dmg"], k)] = ndist.get("%s/%s/%s" % (cs["form"], cs["dmg"], k), 0) + 1
        key = c.digest(["new", cs["bytes"], r["hint"]])
        seen.add(key)
        short = {"bytes": cs["bytes"], "hint": r["hint"], "form": cs["form"], "damage": cs["dmg"]}
        if k == "PANIC":
            viol(dict(short, panic=r["r"].get("panic")), "VersionedModuleSchema::new panicked")
            continue
        code, mb = t
        want = {0: "ok", 1: "parse", 2: "missing", 3: "invalid"}[code]
        if k != want or (k == "ok" and bytes(mb).hex() != r["r"]["bytes"]):
            viol(dict(short, impl=r["r"], model=want, model_bytes=bytes(mb).hex()[:400], theorem="schema_new_r correspondence (dispatch and error kinds)"),
                 "VersionedModuleSchema::new differs from the model: impl %s, model %s" % (k, want))
            continue
        if k == "ok":
            nontrivial.add(key)
        # direct: undamaged unversioned bytes with the right hint / versioned bytes with any hint give the module
        if cs["dmg"] == "none" and (cs["form"] == "versioned" or r["hint"] == cs["ver"]) and not (k == "ok" and r["r"]["bytes"] == cs["vbytes"]):
            viol(dict(short, impl=r["r"], expected=cs["vbytes"][:400], theorem="schema_new_unversioned / schema_new_versioned_any_hint"),
                 "VersionedModuleSchema::new does not return the module from its %s bytes (hint %s)" % (cs["form"], r["hint"]))
        if cs["dmg"] == "none" and cs["form"] == "unversioned" and ((r["hint"] is None and k != "missing") or (r["hint"] is not None and r["hint"] > 3 and k != "invalid")):
            viol(dict(short, impl=r["r"], theorem="schema_new_unversioned"), "wrong error kind for unversioned bytes with hint %s: %s" % (r["hint"], k))
    ctx.notes["schema_new_stream"] = {"cases": len(ncases), "calls": len(owners), "form/damage/result": ndist}

    # ---- base64
    rc, out = c.run_bin(binp, ["b64", ctx.seed, n_b64], timeout=600)
    if rc != 0:
        ctx.violation({"layer": "harness run b64", "output": out[-2000:]}, "harness crashed in mode b64", no_input=True)
        return
    bcs = lines_of(out)
    terms = c.coq_eval(ctx, "b64", pre, ["(b64_encode %s, b64_decode %s, b64_decode_lax %s)" % (nlist(cs["data"]), nlist(cs["s"]), nlist(cs["s"])) for cs in bcs], shard=100)
    bdist = {}
    bstat = {"accepted": 0, "rejected": 0, "rejected_only_for_trailing_bits": 0}
    for cs, t in zip(bcs, terms):
        key = c.digest(["b64", cs["s"], cs["data"]])
        seen.add(key)
        m_enc, m_dec, m_lax = t
        d = "ERR" if m_dec == "None" else bytes(m_dec[1]).hex()
        bdist["%s/%s" % (cs["kind"], "ok" if cs["dec"] != "ERR" else "err")] = bdist.get("%s/%s" % (cs["kind"], "ok" if cs["dec"] != "ERR" else "err"), 0) + 1
        short = {"string": bytes.fromhex(cs["s"]).decode("latin-1"), "string_hex": cs["s"], "kind": cs["kind"]}
        if cs["dec"] == "PANIC":
            viol(short, "base64 decode panicked")
            continue
        if bytes(m_enc).hex() != cs["enc"]:
            viol({"data": cs["data"], "impl": cs["enc"], "model": bytes(m_enc).hex(), "theorem": "b64_encode correspondence"}, "base64 encoding differs from the model")
            continue
        if d != cs["dec"]:
            viol(dict(short, impl=cs["dec"], model=d, theorem="base64_decoder_is_canonical / b64_decode correspondence"),
                 "STANDARD_NO_PAD.decode differs from the model on %r: impl %s model %s" % (short["string"], cs["dec"], d))
            continue
        if cs["dec"] == "ERR":
            bstat["rejected"] += 1
            if m_lax != "None":
                bstat["rejected_only_for_trailing_bits"] += 1
        else:
            bstat["accepted"] += 1
            nontrivial.add(key)
    ctx.notes["base64_stream"] = {"kind/result": bdist, "stats": bstat}
    ctx.cov["evaluations"] = ctx.cov.get("evaluations", 0)
    ctx.notes["extended_streams_evaluations"] = len(lcases) + len(owners) + len(bcs)


# ----------------------------------------------------------------------------- the check
def run(ctx):
    ctx.assumptions += [
        "leaf text codecs (base58check account address, RFC3339 timestamp, duration text) are abstract in the theorems; "
        "their parse-back property is exercised on the implementation (mode leaf) and owned by C16",
        "serde_json is built without arbitrary_precision/preserve_order (checked: default features): integer literals outside "
        "[-2^63, 2^64) and all non-integers are floats, which the integer schema types reject",
        "JSON values in memory hold valid UTF-8 strings and fewer than 2^32 array elements / 2^33 string bytes (json_wf)",
        "base64 (STANDARD_NO_PAD) is modelled (Contract/Base64.v) and diffed against the base64 0.21 crate; the '='-padded engines are not modelled (not used by schema.rs)",
        "converse theorems: no repeated field / variant names, <= 65536 enum variants, u32 array sizes (ty_distinct_fields), byte-valued input, "
        "and the leaf text forms parse back (leaves_rt: proved for the stub, C16's theorems for the real codecs, harness mode leaf)",
    ]
    ok, info = c.coq_prove(ctx)
    proof_broken = None
    if not ok:
        proof_broken = info
        ctx.log("proof obligations broken:", info["failed_file"], info["error"][-600:])
        okm, outm = c.coq_build(ctx, ["Contract/SchemaJson.vo", "Contract/CcSchemaCodec.vo"])
        if not okm:
            ctx.violation({"layer": "Coq model build", "error": outm[-2000:]}, "the executable model no longer builds", no_input=True)
            return

    ok, binp = c.cargo_build(ctx, "c10")
    if not ok:
        ctx.violation({"layer": "harness build against /repo", "error": binp},
                      "harness no longer builds against the implementation", no_input=True)
        return

    okx, runner = cached_runner(ctx)
    if not okx:
        ctx.violation({"layer": "model extraction / runner build", "error": runner[-2000:]}, "the extracted model runner no longer builds", no_input=True)
        return
    quick = ctx.quick
    depth = 8 if quick else 32
    n_rt, n_by, n_sc, n_ct, n_leaf = (6000, 5000, 1200, 600, 300) if quick else (50000, 40000, 10000, 10000, 5000)
    seen, nontrivial = set(), set()
    dist = {"rt": {}, "by": {}, "mut": {}, "src": {}, "depth": {}}
    counters = {"rt_accepted": 0, "rt_rejected": 0, "rt_mutated_accepted": 0, "by_value": 0, "by_error": 0,
                "conv_same_bytes": 0, "conv_other_bytes": 0, "dup_name_types": 0, "o4_leaf_panics": 0}
    nviol = [0]

    def viol(replay, summary):
        nviol[0] += 1
        if nviol[0] <= 8:
            ctx.violation(trim(replay, 6000), summary)

    def bump(d, k):
        d[k] = d.get(k, 0) + 1

    # ------------------------------------------------------------------ JSON -> bytes -> JSON
    rc, out = c.run_bin(binp, ["rt", ctx.seed, n_rt, depth], timeout=1200)
    if rc != 0:
        ctx.violation({"layer": "harness run rt", "output": out[-2000:]}, "harness crashed in mode rt (abort / stack overflow?)", no_input=True)
        return
    cases = lines_of(out)
    ctx.log("rt: %d cases from the harness" % len(cases))
    live = []
    for cs in cases:
        if "skip" in cs:
            counters["o4_leaf_panics"] += 1
            continue
        live.append(cs)
    terms = run_model(ctx, runner, "rt", ["(rt %s %s)" % (ty_sx(cs["ty"]), json_sx(cs["j"])) for cs in live])
    for cs, t in zip(live, terms):
        bump(dist["rt"], cs["kind"])
        bump(dist["mut"], cs["mut"])
        bump(dist["depth"], str(cs["depth"]))
        key = c.digest([cs["ty"], cs["j"]])
        seen.add(key)
        m_from, m_to, m_norm = t
        m_bytes = None if m_from == "-" else hx(m_from)
        ib = cs["bytes"]
        short = {"type": cs["ty"], "json": cs.get("raw", cs["j"]), "json_for_model": cs["j"], "impl_bytes": ib, "mutation": cs["mut"]}
        if ib == "PANIC" or cs.get("out") in ("PANIC", "LEAFPANIC"):
            viol(dict(short, panic=cs.get("panic")), "conversion panicked: %s" % cs.get("panic"))
            continue
        if ib == "ERR":
            counters["rt_rejected"] += 1
            if m_bytes is not None:
                viol(dict(short, model_bytes=m_bytes, impl_error=cs.get("err"), theorem="from_json (model) accepts; implementation rejects"),
                     "serial_value rejects JSON that the schema accepts in the model: %s" % json.dumps(cs.get("raw", cs["j"]))[:160])
            continue
        counters["rt_accepted"] += 1
        if cs["mut"] != "none":
            counters["rt_mutated_accepted"] += 1
        nontrivial.add(key)
        if cs["dup"]:
            counters["dup_name_types"] += 1
        if m_bytes is None:
            viol(dict(short, theorem="from_json (model) rejects; implementation accepts", impl_json_back=cs.get("out")),
                 "serial_value accepts JSON that the schema rejects in the model: %s" % json.dumps(cs.get("raw", cs["j"]))[:160])
            continue
        if m_bytes != ib:
            viol(dict(short, model_bytes=m_bytes, theorem="json_roundtrip (model proved; implementation produces other bytes)"),
                 "serial_value bytes differ from the model: impl %s model %s" % (ib[:80], str(m_bytes)[:80]))
            continue
        if cs["out"] == "ERR":
            viol(dict(short, impl_error=cs.get("err"), theorem="json_roundtrip"),
                 "to_json rejects the bytes serial_value produced: %s" % str(cs.get("err"))[:200])
            continue
        want = canon_py(cs["out"]["v"])
        if cs["rest"] != 0:
            viol(dict(short, rest=cs["rest"]), "to_json left %d bytes of serial_value's output unread" % cs["rest"])
            continue
        got_to = model_result(m_to)
        if got_to != (want, 0):
            viol(dict(short, impl_json=cs["out"]["v"], model_to_json=str(m_to)[:1500], theorem="json_roundtrip / to_json correspondence"),
                 "to_json differs from the model on bytes %s" % ib[:80])
            continue
        if canon_model(m_norm) != want:
            viol(dict(short, impl_json=cs["out"]["v"], model_normalize=str(m_norm)[:1500], theorem="json_roundtrip: to_json (from_json j) = normalize j"),
                 "round trip is not the documented normalisation of the input")
            continue
        idem = cs["idem"]
        if not cs["dup"] and not (idem.get("accepted") and idem.get("same_bytes") and idem.get("same_json")):
            viol(dict(short, impl_json=cs["out"]["v"], second_round=idem),
                 "second round trip is not the identity (printed JSON rejected or denotes other bytes): %s" % json.dumps(idem)[:200])
    ctx.cov["samples"] += [trim({k: cs[k] for k in ("ty", "raw", "bytes", "out", "mut") if k in cs}, 600) for cs in live[3:6]]

    # ------------------------------------------------------------------ arbitrary (Type, bytes)
    rc, out = c.run_bin(binp, ["bytes", ctx.seed, n_by, depth], timeout=1200)
    if rc != 0:
        ctx.violation({"layer": "harness run bytes", "output": out[-2000:]}, "harness crashed in mode bytes (abort / out of memory?)", no_input=True)
        return
    bcases = lines_of(out)
    ctx.log("rt compared; bytes: %d cases from the harness" % len(bcases))
    terms = run_model(ctx, runner, "by", ["(by %s x%s)" % (ty_sx(cs["ty"]), cs["bytes"]) for cs in bcases])
    for cs, t in zip(bcases, terms):
        bump(dist["by"], cs["kind"])
        bump(dist["src"], cs["src"])
        key = c.digest([cs["ty"], cs["bytes"]])
        seen.add(key)
        short = {"type": cs["ty"], "bytes": cs["bytes"], "source": cs["src"]}
        if cs["out"] in ("PANIC", "LEAFPANIC"):
            viol(dict(short, panic=cs.get("panic")), "to_json panicked on bytes %s: %s" % (cs["bytes"][:60], cs.get("panic")))
            continue
        if cs["out"] == "ERR":
            counters["by_error"] += 1
            if t != "-":
                viol(dict(short, model=str(t)[:1500], impl_error=cs.get("err"), theorem="to_json correspondence (model decodes, implementation fails)"),
                     "to_json fails on bytes the model decodes: %s" % cs["bytes"][:80])
            continue
        counters["by_value"] += 1
        nontrivial.add(key)
        want = (canon_py(cs["out"]["v"]), cs["rest"])
        got = model_result(t)
        if got != want:
            viol(dict(short, impl_json=cs["out"]["v"], impl_rest=cs["rest"], model=str(t)[:1500], theorem="to_json correspondence"),
                 "to_json differs from the model on bytes %s" % cs["bytes"][:80])
            continue
        conv = cs["conv"]
        if cs["dup"]:
            counters["dup_name_types"] += 1
        elif not (conv.get("accepted") and conv.get("same_json")):
            viol(dict(short, impl_json=cs["out"]["v"], converse=conv, theorem="to_json_from_json"),
                 "JSON printed by to_json is not accepted back / does not print as itself: %s" % json.dumps(conv)[:200])
            continue
        if conv.get("same_bytes"):
            counters["conv_same_bytes"] += 1
        else:
            counters["conv_other_bytes"] += 1
    ctx.cov["samples"] += [trim({k: cs[k] for k in ("ty", "bytes", "out", "src") if k in cs}, 500) for cs in bcases[5:7]]

    # ------------------------------------------------------------------ schemas in binary form
    rc, out = c.run_bin(binp, ["schema", ctx.seed, n_sc, min(depth, 32)], timeout=1200, env={"VERIF_REPO": c.REPO})
    if rc != 0:
        ctx.violation({"layer": "harness run schema", "output": out[-2000:]}, "harness crashed in mode schema", no_input=True)
        return
    scases = lines_of(out)
    ctx.log("bytes compared; schema: %d cases from the harness" % len(scases))
    exprs, owners = [], []
    sdist = {}
    flags = ("rt_versioned", "rt_new_none", "rt_new_other", "rt_unversioned", "unversioned_needs_version", "rt_base64", "reencode")
    for cs in scases:
        k = cs["k"]
        bump(sdist, k)
        if k == "file":
            if not cs.get("parsed"):
                viol({"file": cs["name"], "error": cs.get("err", cs.get("panic"))}, "testdata schema %s does not parse" % cs["name"])
                continue
            if not cs.get("file_is_canonical"):
                viol({"file": cs["name"]}, "testdata schema %s does not re-encode to the file's bytes" % cs["name"])
        if k in ("file", "module"):
            bad = [f for f in flags if not cs.get(f)]
            if bad:
                viol({"module": cs["desc"], "bytes": cs["bytes"], "failed": bad},
                     "module schema does not round-trip through its binary form: %s" % ",".join(bad))
                continue
            exprs.append("(module %s)" % module_sx(cs["desc"]))
            owners.append(cs)
        elif k == "type":
            if not cs["rt"]:
                viol({"type": cs["ty"], "bytes": cs["bytes"]}, "Type schema does not round-trip through its binary form")
                continue
            exprs.append("(encty %s)" % ty_sx(cs["ty"]))
            owners.append(cs)
        elif k in ("f1", "f2"):
            if not cs["rt"]:
                viol({"function": cs["f"], "bytes": cs["bytes"]}, "Function schema does not round-trip through its binary form")
                continue
            exprs.append("(enc%s %s)" % (k, (f1_sx if k == "f1" else f2_sx)(cs["f"])))
            owners.append(cs)
        elif k == "typebytes":
            if cs["out"] == "PANIC":
                viol({"bytes": cs["bytes"], "panic": cs.get("panic")}, "Type::deserial panicked")
                continue
            if cs["out"] != "ERR" and not cs.get("redecode"):
                viol({"bytes": cs["bytes"], "decoded": cs["out"]}, "a decoded Type schema does not round-trip through its own encoding")
                continue
            exprs.append("(decty x%s)" % cs["bytes"])
            owners.append(cs)
    terms = run_model(ctx, runner, "schema", exprs)
    for cs, t in zip(owners, terms):
        k = cs["k"]
        key = c.digest([k, cs["bytes"]])
        seen.add(key)
        if k in ("file", "module"):
            nontrivial.add(key)
            ev, eb, nv, nu = (hx(x) for x in t)
            if ev != cs["bytes"] or eb != cs["ubytes"] or nv != cs["bytes"] or nu != cs["bytes"]:
                viol({"module": cs["desc"], "impl_versioned": cs["bytes"], "model_versioned": ev, "impl_unversioned": cs["ubytes"], "model_unversioned": eb,
                      "model_new_versioned_reencoded": nv, "model_new_unversioned_reencoded": nu, "theorem": "schema_binary_roundtrip (model proved) / codec correspondence"},
                     "module schema encoding differs from the model")
        elif k == "type":
            nontrivial.add(key)
            if hx(t[0]) != cs["bytes"] or t[1] == "-" or hx(t[1][0]) != cs["bytes"] or t[1][1] != "0":
                viol({"type": cs["ty"], "impl": cs["bytes"], "model": hx(t[0]), "theorem": "schema_binary_roundtrip_type / codec correspondence"},
                     "Type schema encoding differs from the model")
        elif k in ("f1", "f2"):
            nontrivial.add(key)
            if hx(t) != cs["bytes"]:
                viol({"function": cs["f"], "impl": cs["bytes"], "model": hx(t)}, "Function schema encoding differs from the model")
        else:
            if cs["out"] == "ERR":
                if t != "-":
                    viol({"bytes": cs["bytes"], "model": str(t)[:800]}, "Type::deserial rejects bytes the model decodes")
            else:
                nontrivial.add(key)
                want = (parse_sx(ty_sx(cs["out"]["ty"])), len(bytes.fromhex(cs["bytes"])) - cs["out"]["used"])
                got = None if t == "-" else (t[0], int(t[1]))
                if got != want:
                    viol({"bytes": cs["bytes"], "impl": cs["out"], "model": str(t)[:800]}, "Type::deserial differs from the model")
    ctx.notes["schema_distribution"] = sdist
    ctx.log("schema compared")

    # ------------------------------------------------------------------ contract-side encoding, leaves
    rc, out = c.run_bin(binp, ["contract", ctx.seed, n_ct], timeout=600)
    ct = lines_of(out) if rc == 0 else []
    if rc != 0:
        ctx.violation({"layer": "harness run contract", "output": out[-2000:]}, "harness crashed in mode contract", no_input=True)
    ctd = {}
    for cs in ct:
        bump(ctd, cs["type"])
        key = c.digest(["ct", cs["type"], cs["expected"]])
        seen.add(key)
        nontrivial.add(key)
        if not (cs["bytes_ok"] and cs["decoded_ok"] and cs["to_json_denotes_value"]):
            viol({"rust_type": cs["type"], "json": cs["j"], "serial_value": cs["bytes"], "contract_side_encoding": cs["expected"], "flags": {k: cs[k] for k in ("bytes_ok", "decoded_ok", "to_json_denotes_value")}},
                 "serial_value bytes are not the contract-side encoding of the value (%s)" % cs["type"])
    ctx.notes["contract_side_types"] = ctd
    rc, out = c.run_bin(binp, ["leaf", ctx.seed, n_leaf], timeout=600)
    lf = lines_of(out) if rc == 0 else []
    for cs in lf:
        seen.add(c.digest(["leaf", cs["type"], cs["v"]]))
        if not cs["ok"]:
            viol({"leaf": cs}, "text form of %s does not parse back to the value (%s -> %s)" % (cs["type"], cs["v"], cs["text"]))

    # ------------------------------------------------------------------ length-prefix boundary (direct oracle on the implementation)
    # model: from_json writes the prefix with encode_len, which is None when the count does not fit the size length
    # (SchemaJson.encode_len_some_iff); so count <= max: accepted, prefix = count, reads back to the same JSON with no
    # bytes left; count > max: error.
    rc, out = c.run_bin(binp, ["lenb"], timeout=600)
    lb = lines_of(out) if rc == 0 else []
    if rc != 0 or not lb:
        ctx.violation({"layer": "harness run lenb", "output": out[-2000:]}, "harness crashed in mode lenb", no_input=True)
    lbd = {"accepted_fits": 0, "rejected_too_long": 0, "failures": 0}
    lbsizes = {}
    for cs in lb:
        seen.add(c.digest(["lenb", cs["type"], cs["s"], cs["n"]]))
        lbsizes.setdefault("U%d" % cs["s"], set()).add(cs["n"])
        replay = {"schema_type": cs["type"], "size_length": "U%d" % cs["s"], "element_count": cs["n"],
                  "elements": {"String": "'a' repeated", "ByteList": "hex of bytes i mod 251", "List": "U8 i mod 251", "Set": "U32 i", "Map": "[U32 i, U8 i mod 251]"}[cs["type"]],
                  "observed": {k: cs[k] for k in ("out", "detail", "prefix", "prefix_hex", "bytes_len", "back", "back_detail", "used", "same_json") if k in cs}}
        why = None
        if cs["fits"]:
            if cs["out"] != "ok":
                why = "a length that fits the size length is not accepted (%s)" % cs["out"]
            elif cs.get("prefix") != str(cs["n"]):
                why = "the length prefix written (%s) is not the element count" % cs.get("prefix")
            elif cs.get("back") != "ok" or cs.get("used") != cs["bytes_len"] or not cs.get("same_json"):
                why = "the bytes written do not read back to the same JSON with no bytes left"
            else:
                lbd["accepted_fits"] += 1
        else:
            if cs["out"] == "ok":
                why = "a length that does not fit the size length is accepted and written with prefix %s (must be an error)" % cs.get("prefix")
            elif cs["out"] != "ERR":
                why = "a length that does not fit the size length ends in %s instead of an error" % cs["out"]
            else:
                lbd["rejected_too_long"] += 1
        if why:
            lbd["failures"] += 1
            viol(replay, "length prefix boundary: %s(%s) with %d elements: %s" % (cs["type"], replay["size_length"], cs["n"], why))
    ctx.notes["length_prefix_boundary_stream"] = {"cases": len(lb), "result": lbd, "types": "String, ByteList, List(U8), Set(U32), Map(U32,U8)",
                                                  "element_counts": {k: sorted(v) for k, v in lbsizes.items()}}

    # ------------------------------------------------------------------ LEB128 forms, VersionedModuleSchema::new, base64 (vm_compute on the new definitions)
    try:
        ext_streams(ctx, binp, quick, viol, seen, nontrivial, min(depth, 32))
    except RuntimeError as e:
        ctx.violation({"layer": "model evaluation of the LEB128 / schema_new / base64 definitions", "error": str(e)[-1500:]},
                      "the model evaluation of the extended definitions failed", no_input=True)

    # ------------------------------------------------------------------ observations O1 / O2 (outside the claim)
    rc, out = c.run_bin(binp, ["obs", 20 if quick else 24], timeout=300)
    ctx.notes["observations_outside_claim"] = {
        "O1_O2": lines_of(out) if rc == 0 else "observation run ended with rc=%s: %s" % (rc, out[-300:]),
        "O4_leaf_parser_panics_skipped": counters["o4_leaf_panics"],
    }

    n_eval = len(cases) + len(bcases) + len(scases) + len(ct) + len(lf) + len(lb) + ctx.notes.get("extended_streams_evaluations", 0)
    ctx.cov["evaluations"] = n_eval
    ctx.cov["traces_validated_against_impl"] = len(live) + len(bcases) + len(owners)
    ctx.cov["distinct_nontrivial"] = len(nontrivial)
    ctx.notes["distribution"] = dist
    ctx.notes["counters"] = counters
    ctx.notes["max_type_depth"] = depth
    ctx.cov["rule"] = (
        "rt: random schema Types (1/10 a chain of exactly the maximal depth, 1/10 leaves, else random depth; all size lengths, LEB128 constraints "
        "0,1,2,5,10,19,37,2^32-1, arrays/byte arrays of boundary sizes, 255/256-element collections) with JSON generated from the type using the whole "
        "accepted grammar ('+', leading zeros, '_', '-0', upper-case hex, offsets, missing subindex, extra keys); every third case is mutated at a random "
        "node (near miss); by: valid encodings unchanged / with tail / truncated / one byte changed / 0xff-overwritten prefixes and inner runs, and random "
        "bytes; zero-width element collections keep U8/U16 lengths; schema: Types, FunctionV1/V2, modules V0-V3 and hostile schema bytes; "
        "leb / new / b64: see notes leb128_stream, schema_new_stream, base64_stream (vm_compute of leb_probe / new_probe / b64_* against to_json+serial_value, "
        "VersionedModuleSchema::new, STANDARD_NO_PAD); "
        "non-trivial = the implementation returned a value; distinct = distinct (type, input) hash")

    if nviol[0] > 8:
        ctx.log("%d further mismatches not written as replay files" % (nviol[0] - 8))
    if proof_broken:
        ctx.violation({"layer": "Coq proof obligations", "broken": proof_broken},
                      "theorem(s) of Props/C10.v no longer check (%s)" % proof_broken["failed_file"], no_input=not ctx.violations)
    if ctx.tier == "thorough":
        okc, outc = c.coqchk(ctx)
        if not okc:
            ctx.violation({"layer": "coqchk", "output": outc[-2000:]}, "coqchk rejected Props/C10.vo", no_input=True)
