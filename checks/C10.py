"""C10 - schema-directed JSON <-> binary conversion: Coq theorems over Contract/SchemaJson.v and
Contract/CcSchemaCodec.v, correspondence with schema_json.rs / schema.rs, direct oracles."""
import json
from . import common as c

PRE = ("From Coq Require Import String.\nFrom Coq Require Import NArith ZArith List. Import ListNotations.\n"
       "From CB Require Import Contract.SchemaJson Contract.CcSchemaCodec.\n"
       "Local Open Scope N_scope.\n"
       "Definition hx (s : string) : list N := match hex_decode (str_of s) with Some b => b | None => [] end.\n"
       "Definition repn (u : list N) (k : N) : list N := List.concat (List.repeat u (N.to_nat k)).\n")


# ----------------------------------------------------------------------------- Gallina terms
def nlist(bs):
    """a byte list as a hex string literal decoded inside Coq (list notations elaborate slowly)"""
    bs = bytes(bs)
    n = len(bs)
    if n == 0:
        return "[]"
    if n > 64:
        for u in (1, 2, 3):
            if n % u == 0 and bs == bs[:u] * (n // u):
                return '(repn (hx "%s") %d)' % (bs[:u].hex(), n // u)
    if n > 4000:
        return "(" + " ++ ".join('hx "%s"' % bs[i:i + 4000].hex() for i in range(0, n, 4000)) + ")"
    return '(hx "%s")' % bs.hex()


def sterm(s):
    return nlist(s.encode("utf-8"))


def hexlist(h):
    return nlist(bytes.fromhex(h))


SL = {8: "SL8", 16: "SL16", 32: "SL32", 64: "SL64"}
SIMPLE = {"Unit": "TUnit", "Bool": "TBool", "U8": "TU8", "U16": "TU16", "U32": "TU32", "U64": "TU64", "U128": "TU128",
          "I8": "TI8", "I16": "TI16", "I32": "TI32", "I64": "TI64", "I128": "TI128", "Amount": "TAmount",
          "AccountAddress": "TAccountAddress", "ContractAddress": "TContractAddress", "Timestamp": "TTimestamp",
          "Duration": "TDuration"}


def fields_term(f):
    k = f["k"]
    if k == "0":
        return "FNone"
    if k == "N":
        t = "NFnil"
        for name, ty in reversed(f["l"]):
            t = "(NFcons %s %s %s)" % (sterm(name), ty_term(ty), t)
        return "(FNamed %s)" % t
    t = "TSnil"
    for ty in reversed(f["l"]):
        t = "(TScons %s %s)" % (ty_term(ty), t)
    return "(FUnnamed %s)" % t


def ty_term(d):
    t = d["t"]
    if t in SIMPLE:
        return SIMPLE[t]
    if t == "Pair":
        return "(TPair %s %s)" % (ty_term(d["a"]), ty_term(d["b"]))
    if t in ("List", "Set"):
        return "(T%s %s %s)" % (t, SL[d["s"]], ty_term(d["e"]))
    if t == "Map":
        return "(TMap %s %s %s)" % (SL[d["s"]], ty_term(d["a"]), ty_term(d["b"]))
    if t == "Array":
        return "(TArray %d %s)" % (d["n"], ty_term(d["e"]))
    if t == "Struct":
        return "(TStruct %s)" % fields_term(d["f"])
    if t == "Enum":
        v = "Vnil"
        for name, f in reversed(d["v"]):
            v = "(Vcons %s %s %s)" % (sterm(name), fields_term(f), v)
        return "(TEnum %s)" % v
    if t == "TaggedEnum":
        v = "TVnil"
        for tag, name, f in reversed(d["v"]):
            v = "(TVcons %d %s %s %s)" % (tag, sterm(name), fields_term(f), v)
        return "(TTaggedEnum %s)" % v
    if t in ("String", "ContractName", "ReceiveName", "ByteList"):
        return "(T%s %s)" % (t, SL[d["s"]])
    if t in ("ULeb128", "ILeb128", "ByteArray"):
        return "(T%s %d)" % (t, d["n"])
    raise ValueError(t)


def json_term(v):
    if v is None:
        return "JNull"
    if isinstance(v, bool):
        return "(JBool %s)" % ("true" if v else "false")
    if isinstance(v, int):
        return "(JNum (%d)%%Z)" % v
    if isinstance(v, float):
        return "JFloat"
    if isinstance(v, str):
        return "(JStr %s)" % sterm(v)
    if isinstance(v, list):
        return "(JArr [%s])" % "; ".join(json_term(x) for x in v)
    return "(JObj [%s])" % "; ".join("(%s, %s)" % (sterm(k), json_term(x)) for k, x in v.items())


def opt_term(o, f):
    return "None" if o is None else "(Some %s)" % f(o)


def f1_term(f):
    if f["k"] == "P":
        return "(F1Param %s)" % ty_term(f["p"])
    if f["k"] == "R":
        return "(F1Ret %s)" % ty_term(f["r"])
    return "(F1Both %s %s)" % (ty_term(f["p"]), ty_term(f["r"]))


def f2_term(f):
    return "{| f2_param := %s; f2_ret := %s; f2_err := %s |}" % (
        opt_term(f["p"], ty_term), opt_term(f["r"], ty_term), opt_term(f["e"], ty_term))


def map_term(m, f):
    return "[%s]" % "; ".join("(%s, %s)" % (sterm(k), f(x)) for k, x in m)


def module_term(d):
    v = d["v"]
    if v == 0:
        cs = map_term(d["c"], lambda x: "{| c0_state := %s; c0_init := %s; c0_receive := %s |}" % (
            opt_term(x["state"], ty_term), opt_term(x["init"], ty_term), map_term(x["receive"], ty_term)))
    elif v == 1:
        cs = map_term(d["c"], lambda x: "{| c1_init := %s; c1_receive := %s |}" % (
            opt_term(x["init"], f1_term), map_term(x["receive"], f1_term)))
    elif v == 2:
        cs = map_term(d["c"], lambda x: "{| c2_init := %s; c2_receive := %s |}" % (
            opt_term(x["init"], f2_term), map_term(x["receive"], f2_term)))
    else:
        cs = map_term(d["c"], lambda x: "{| c3_init := %s; c3_receive := %s; c3_event := %s |}" % (
            opt_term(x["init"], f2_term), map_term(x["receive"], f2_term), opt_term(x["event"], ty_term)))
    return "(MV%d %s)" % (v, cs)


# ----------------------------------------------------------------------------- canonical forms
def canon_py(v):
    if v is None:
        return ("z",)
    if isinstance(v, bool):
        return ("b", v)
    if isinstance(v, int):
        return ("n", v)
    if isinstance(v, float):
        return ("f",)
    if isinstance(v, str):
        return ("s", tuple(v.encode("utf-8")))
    if isinstance(v, list):
        return ("a", tuple(canon_py(x) for x in v))
    return ("o", tuple(sorted((tuple(k.encode("utf-8")), canon_py(x)) for k, x in v.items())))


def canon_model(t):
    if t == "JNull":
        return ("z",)
    if t == "JFloat":
        return ("f",)
    h = t[0]
    if h == "JBool":
        return ("b", t[1] == "true")
    if h == "JNum":
        return ("n", t[1])
    if h == "JStr":
        return ("s", tuple(t[1]))
    if h == "JArr":
        return ("a", tuple(canon_model(x) for x in t[1]))
    if h == "JObj":
        return ("o", tuple(sorted((tuple(k), canon_model(x)) for k, x in t[1])))
    raise ValueError("model json %r" % (t,))


def fields_py(f):
    k = f["k"]
    if k == "0":
        return "FNone"
    if k == "N":
        t = "NFnil"
        for name, ty in reversed(f["l"]):
            t = ("NFcons", list(name.encode("utf-8")), ty_py(ty), t)
        return ("FNamed", t)
    t = "TSnil"
    for ty in reversed(f["l"]):
        t = ("TScons", ty_py(ty), t)
    return ("FUnnamed", t)


def ty_py(d):
    """the Python value that parse_coq_term yields for Coq's printing of the type"""
    t = d["t"]
    if t in SIMPLE:
        return SIMPLE[t]
    if t == "Pair":
        return ("TPair", ty_py(d["a"]), ty_py(d["b"]))
    if t in ("List", "Set"):
        return ("T" + t, SL[d["s"]], ty_py(d["e"]))
    if t == "Map":
        return ("TMap", SL[d["s"]], ty_py(d["a"]), ty_py(d["b"]))
    if t == "Array":
        return ("TArray", d["n"], ty_py(d["e"]))
    if t == "Struct":
        return ("TStruct", fields_py(d["f"]))
    if t == "Enum":
        v = "Vnil"
        for name, f in reversed(d["v"]):
            v = ("Vcons", list(name.encode("utf-8")), fields_py(f), v)
        return ("TEnum", v)
    if t == "TaggedEnum":
        v = "TVnil"
        for tag, name, f in reversed(d["v"]):
            v = ("TVcons", tag, list(name.encode("utf-8")), fields_py(f), v)
        return ("TTaggedEnum", v)
    if t in ("String", "ContractName", "ReceiveName", "ByteList"):
        return ("T" + t, SL[d["s"]])
    return ("T" + t, d["n"])


def hx(bs):
    return bytes(bs).hex()


def trim(o, n=1500):
    s = json.dumps(o, default=str)
    return json.loads(s) if len(s) <= n else s[:n] + "..."


def lines_of(out):
    return [json.loads(l) for l in out.splitlines() if l.startswith("{")]


# ----------------------------------------------------------------------------- the check
def run(ctx):
    ctx.assumptions += [
        "leaf text codecs (base58check account address, RFC3339 timestamp, duration text) are abstract in the theorems; "
        "their parse-back property is exercised on the implementation (mode leaf) and owned by C16",
        "serde_json is built without arbitrary_precision/preserve_order (checked: default features): integer literals outside "
        "[-2^63, 2^64) and all non-integers are floats, which the integer schema types reject",
        "JSON values in memory hold valid UTF-8 strings and fewer than 2^32 array elements / 2^33 string bytes (json_wf)",
        "base64 decoding is the base64 crate's (diffed, not modelled)",
    ]
    ok, info = c.coq_prove(ctx)
    proof_broken = None
    if not ok:
        proof_broken = info
        ctx.log("proof obligations broken:", info["failed_file"], info["error"][-600:])
        okm, outm = c.coq_build(ctx, ["Contract/SchemaJson.vo", "Contract/CcSchemaCodec.vo"])
        if not okm:
            ctx.violation({"layer": "Coq model build", "error": outm[-2000:]}, "the executable model no longer builds", no_input=True)
            return

    ok, binp = c.cargo_build(ctx, "c10")
    if not ok:
        ctx.violation({"layer": "harness build against /repo", "error": binp},
                      "harness no longer builds against the implementation", no_input=True)
        return

    quick = ctx.quick
    depth = 8 if quick else 32
    n_rt, n_by, n_sc, n_ct, n_leaf = (900, 700, 200, 250, 150) if quick else (16000, 12000, 3000, 5000, 3000)
    seen, nontrivial = set(), set()
    dist = {"rt": {}, "by": {}, "mut": {}, "src": {}, "depth": {}}
    counters = {"rt_accepted": 0, "rt_rejected": 0, "rt_mutated_accepted": 0, "by_value": 0, "by_error": 0,
                "conv_same_bytes": 0, "conv_other_bytes": 0, "dup_name_types": 0, "o4_leaf_panics": 0}
    nviol = [0]

    def viol(replay, summary):
        nviol[0] += 1
        if nviol[0] <= 8:
            ctx.violation(trim(replay, 6000), summary)

    def bump(d, k):
        d[k] = d.get(k, 0) + 1

    # ------------------------------------------------------------------ JSON -> bytes -> JSON
    rc, out = c.run_bin(binp, ["rt", ctx.seed, n_rt, depth], timeout=1200)
    if rc != 0:
        ctx.violation({"layer": "harness run rt", "output": out[-2000:]}, "harness crashed in mode rt (abort / stack overflow?)", no_input=True)
        return
    cases = lines_of(out)
    ctx.log("rt: %d cases from the harness" % len(cases))
    live = []
    for cs in cases:
        if "skip" in cs:
            counters["o4_leaf_panics"] += 1
            continue
        live.append(cs)
    exprs = []
    for cs in live:
        exprs.append("let t := %s in let j := %s in (run_from t j, match run_from t j with Some b => run_to t b | None => None end, run_norm t j)"
                     % (ty_term(cs["ty"]), json_term(cs["j"])))
    terms = c.coq_eval(ctx, "rt", PRE, exprs, shard=max(40, len(exprs) // 32 + 1), timeout=1500)
    for cs, t in zip(live, terms):
        bump(dist["rt"], cs["kind"])
        bump(dist["mut"], cs["mut"])
        bump(dist["depth"], str(cs["depth"]))
        key = c.digest([cs["ty"], cs["j"]])
        seen.add(key)
        m_from, m_to, m_norm = t
        m_bytes = None if m_from == "None" else hx(m_from[1])
        ib = cs["bytes"]
        short = {"type": cs["ty"], "json": cs.get("raw", cs["j"]), "json_for_model": cs["j"], "impl_bytes": ib, "mutation": cs["mut"]}
        if ib == "PANIC" or cs.get("out") in ("PANIC", "LEAFPANIC"):
            viol(dict(short, panic=cs.get("panic")), "conversion panicked: %s" % cs.get("panic"))
            continue
        if ib == "ERR":
            counters["rt_rejected"] += 1
            if m_bytes is not None:
                viol(dict(short, model_bytes=m_bytes, impl_error=cs.get("err"), theorem="from_json (model) accepts; implementation rejects"),
                     "serial_value rejects JSON that the schema accepts in the model: %s" % json.dumps(cs.get("raw", cs["j"]))[:160])
            continue
        counters["rt_accepted"] += 1
        if cs["mut"] != "none":
            counters["rt_mutated_accepted"] += 1
        nontrivial.add(key)
        if cs["dup"]:
            counters["dup_name_types"] += 1
        if m_bytes != ib:
            viol(dict(short, model_bytes=m_bytes, theorem="json_roundtrip (model proved; implementation produces other bytes / accepts more)"),
                 "serial_value bytes differ from the model: impl %s model %s" % (ib[:80], str(m_bytes)[:80]))
            continue
        if cs["out"] == "ERR":
            viol(dict(short, impl_error=cs.get("err"), theorem="json_roundtrip"),
                 "to_json rejects the bytes serial_value produced: %s" % str(cs.get("err"))[:200])
            continue
        want = canon_py(cs["out"]["v"])
        if cs["rest"] != 0:
            viol(dict(short, rest=cs["rest"]), "to_json left %d bytes of serial_value's output unread" % cs["rest"])
            continue
        got_to = None if m_to == "None" else (canon_model(m_to[1][0]), len(m_to[1][1]))
        if got_to != (want, 0):
            viol(dict(short, impl_json=cs["out"]["v"], model_to_json=str(m_to)[:1500], theorem="json_roundtrip / to_json correspondence"),
                 "to_json differs from the model on bytes %s" % ib[:80])
            continue
        if canon_model(m_norm) != want:
            viol(dict(short, impl_json=cs["out"]["v"], model_normalize=str(m_norm)[:1500], theorem="json_roundtrip: to_json (from_json j) = normalize j"),
                 "round trip is not the documented normalisation of the input")
            continue
        idem = cs["idem"]
        if not cs["dup"] and not (idem.get("accepted") and idem.get("same_bytes") and idem.get("same_json")):
            viol(dict(short, impl_json=cs["out"]["v"], second_round=idem),
                 "second round trip is not the identity (printed JSON rejected or denotes other bytes): %s" % json.dumps(idem)[:200])
    ctx.cov["samples"] += [trim({k: cs[k] for k in ("ty", "raw", "bytes", "out", "mut") if k in cs}, 600) for cs in live[3:6]]

    # ------------------------------------------------------------------ arbitrary (Type, bytes)
    rc, out = c.run_bin(binp, ["bytes", ctx.seed, n_by, depth], timeout=1200)
    if rc != 0:
        ctx.violation({"layer": "harness run bytes", "output": out[-2000:]}, "harness crashed in mode bytes (abort / out of memory?)", no_input=True)
        return
    bcases = lines_of(out)
    ctx.log("rt compared; bytes: %d cases from the harness" % len(bcases))
    exprs = ["run_to %s %s" % (ty_term(cs["ty"]), hexlist(cs["bytes"])) for cs in bcases]
    terms = c.coq_eval(ctx, "by", PRE, exprs, shard=max(40, len(exprs) // 32 + 1), timeout=1500)
    for cs, t in zip(bcases, terms):
        bump(dist["by"], cs["kind"])
        bump(dist["src"], cs["src"])
        key = c.digest([cs["ty"], cs["bytes"]])
        seen.add(key)
        short = {"type": cs["ty"], "bytes": cs["bytes"], "source": cs["src"]}
        if cs["out"] in ("PANIC", "LEAFPANIC"):
            viol(dict(short, panic=cs.get("panic")), "to_json panicked on bytes %s: %s" % (cs["bytes"][:60], cs.get("panic")))
            continue
        if cs["out"] == "ERR":
            counters["by_error"] += 1
            if t != "None":
                viol(dict(short, model=str(t)[:1500], impl_error=cs.get("err"), theorem="to_json correspondence (model decodes, implementation fails)"),
                     "to_json fails on bytes the model decodes: %s" % cs["bytes"][:80])
            continue
        counters["by_value"] += 1
        nontrivial.add(key)
        want = (canon_py(cs["out"]["v"]), cs["rest"])
        got = None if t == "None" else (canon_model(t[1][0]), len(t[1][1]))
        if got != want:
            viol(dict(short, impl_json=cs["out"]["v"], impl_rest=cs["rest"], model=str(t)[:1500], theorem="to_json correspondence"),
                 "to_json differs from the model on bytes %s" % cs["bytes"][:80])
            continue
        conv = cs["conv"]
        if cs["dup"]:
            counters["dup_name_types"] += 1
        elif not (conv.get("accepted") and conv.get("same_json")):
            viol(dict(short, impl_json=cs["out"]["v"], converse=conv, theorem="to_json_from_json"),
                 "JSON printed by to_json is not accepted back / does not print as itself: %s" % json.dumps(conv)[:200])
            continue
        if conv.get("same_bytes"):
            counters["conv_same_bytes"] += 1
        else:
            counters["conv_other_bytes"] += 1
    ctx.cov["samples"] += [trim({k: cs[k] for k in ("ty", "bytes", "out", "src") if k in cs}, 500) for cs in bcases[5:7]]

    # ------------------------------------------------------------------ schemas in binary form
    rc, out = c.run_bin(binp, ["schema", ctx.seed, n_sc, min(depth, 32)], timeout=1200, env={"VERIF_REPO": c.REPO})
    if rc != 0:
        ctx.violation({"layer": "harness run schema", "output": out[-2000:]}, "harness crashed in mode schema", no_input=True)
        return
    scases = lines_of(out)
    ctx.log("bytes compared; schema: %d cases from the harness" % len(scases))
    exprs, owners = [], []
    sdist = {}
    flags = ("rt_versioned", "rt_new_none", "rt_new_other", "rt_unversioned", "unversioned_needs_version", "rt_base64", "reencode")
    for cs in scases:
        k = cs["k"]
        bump(sdist, k)
        if k == "file":
            if not cs.get("parsed"):
                viol({"file": cs["name"], "error": cs.get("err", cs.get("panic"))}, "testdata schema %s does not parse" % cs["name"])
                continue
            if not cs.get("file_is_canonical"):
                viol({"file": cs["name"]}, "testdata schema %s does not re-encode to the file's bytes" % cs["name"])
        if k in ("file", "module"):
            bad = [f for f in flags if not cs.get(f)]
            if bad:
                viol({"module": cs["desc"], "bytes": cs["bytes"], "failed": bad},
                     "module schema does not round-trip through its binary form: %s" % ",".join(bad))
                continue
            mt = module_term(cs["desc"])
            exprs.append("let m := %s in (enc_versioned m, enc_module_body m, match schema_new (enc_versioned m) None with Some m' => enc_versioned m' | None => [] end,"
                         " match schema_new (enc_module_body m) (Some (module_version m)) with Some m' => enc_versioned m' | None => [] end)" % mt)
            owners.append(cs)
        elif k == "type":
            if not cs["rt"]:
                viol({"type": cs["ty"], "bytes": cs["bytes"]}, "Type schema does not round-trip through its binary form")
                continue
            exprs.append("let t := %s in (enc_ty t, match dec_ty_top (enc_ty t) with Some (t', r) => (enc_ty t', r) | None => ([], []) end)" % ty_term(cs["ty"]))
            owners.append(cs)
        elif k in ("f1", "f2"):
            if not cs["rt"]:
                viol({"function": cs["f"], "bytes": cs["bytes"]}, "Function schema does not round-trip through its binary form")
                continue
            exprs.append("enc_%s %s" % (k, (f1_term if k == "f1" else f2_term)(cs["f"])))
            owners.append(cs)
        elif k == "typebytes":
            if cs["out"] == "PANIC":
                viol({"bytes": cs["bytes"], "panic": cs.get("panic")}, "Type::deserial panicked")
                continue
            if cs["out"] != "ERR" and not cs.get("redecode"):
                viol({"bytes": cs["bytes"], "decoded": cs["out"]}, "a decoded Type schema does not round-trip through its own encoding")
                continue
            exprs.append("dec_ty_top %s" % hexlist(cs["bytes"]))
            owners.append(cs)
    terms = c.coq_eval(ctx, "sc", PRE, exprs, shard=max(20, len(exprs) // 32 + 1), timeout=1500)
    for cs, t in zip(owners, terms):
        k = cs["k"]
        key = c.digest([k, cs["bytes"]])
        seen.add(key)
        if k in ("file", "module"):
            nontrivial.add(key)
            ev, eb, nv, nu = (hx(x) for x in t)
            if ev != cs["bytes"] or eb != cs["ubytes"] or nv != cs["bytes"] or nu != cs["bytes"]:
                viol({"module": cs["desc"], "impl_versioned": cs["bytes"], "model_versioned": ev, "impl_unversioned": cs["ubytes"], "model_unversioned": eb,
                      "model_new_versioned_reencoded": nv, "model_new_unversioned_reencoded": nu, "theorem": "schema_binary_roundtrip (model proved) / codec correspondence"},
                     "module schema encoding differs from the model")
        elif k == "type":
            nontrivial.add(key)
            if hx(t[0]) != cs["bytes"] or hx(t[1][0]) != cs["bytes"] or t[1][1] != []:
                viol({"type": cs["ty"], "impl": cs["bytes"], "model": hx(t[0]), "theorem": "schema_binary_roundtrip_type / codec correspondence"},
                     "Type schema encoding differs from the model")
        elif k in ("f1", "f2"):
            nontrivial.add(key)
            if hx(t) != cs["bytes"]:
                viol({"function": cs["f"], "impl": cs["bytes"], "model": hx(t)}, "Function schema encoding differs from the model")
        else:
            if cs["out"] == "ERR":
                if t != "None":
                    viol({"bytes": cs["bytes"], "model": str(t)[:800]}, "Type::deserial rejects bytes the model decodes")
            else:
                nontrivial.add(key)
                want = (ty_py(cs["out"]["ty"]), len(bytes.fromhex(cs["bytes"])) - cs["out"]["used"])
                got = None if t == "None" else (t[1][0], len(t[1][1]))
                if got != want:
                    viol({"bytes": cs["bytes"], "impl": cs["out"], "model": str(t)[:800]}, "Type::deserial differs from the model")
    ctx.notes["schema_distribution"] = sdist
    ctx.log("schema compared")

    # ------------------------------------------------------------------ contract-side encoding, leaves
    rc, out = c.run_bin(binp, ["contract", ctx.seed, n_ct], timeout=600)
    ct = lines_of(out) if rc == 0 else []
    if rc != 0:
        ctx.violation({"layer": "harness run contract", "output": out[-2000:]}, "harness crashed in mode contract", no_input=True)
    ctd = {}
    for cs in ct:
        bump(ctd, cs["type"])
        key = c.digest(["ct", cs["type"], cs["expected"]])
        seen.add(key)
        nontrivial.add(key)
        if not (cs["bytes_ok"] and cs["decoded_ok"] and cs["to_json_denotes_value"]):
            viol({"rust_type": cs["type"], "json": cs["j"], "serial_value": cs["bytes"], "contract_side_encoding": cs["expected"], "flags": {k: cs[k] for k in ("bytes_ok", "decoded_ok", "to_json_denotes_value")}},
                 "serial_value bytes are not the contract-side encoding of the value (%s)" % cs["type"])
    ctx.notes["contract_side_types"] = ctd
    rc, out = c.run_bin(binp, ["leaf", ctx.seed, n_leaf], timeout=600)
    lf = lines_of(out) if rc == 0 else []
    for cs in lf:
        seen.add(c.digest(["leaf", cs["type"], cs["v"]]))
        if not cs["ok"]:
            viol({"leaf": cs}, "text form of %s does not parse back to the value (%s -> %s)" % (cs["type"], cs["v"], cs["text"]))

    # ------------------------------------------------------------------ observations O1 / O2 (outside the claim)
    rc, out = c.run_bin(binp, ["obs", 20 if quick else 24], timeout=300)
    ctx.notes["observations_outside_claim"] = {
        "O1_O2": lines_of(out) if rc == 0 else "observation run ended with rc=%s: %s" % (rc, out[-300:]),
        "O4_leaf_parser_panics_skipped": counters["o4_leaf_panics"],
    }

    n_eval = len(cases) + len(bcases) + len(scases) + len(ct) + len(lf)
    ctx.cov["evaluations"] = n_eval
    ctx.cov["traces_validated_against_impl"] = len(live) + len(bcases) + len(owners)
    ctx.cov["distinct_nontrivial"] = len(nontrivial)
    ctx.notes["distribution"] = dist
    ctx.notes["counters"] = counters
    ctx.notes["max_type_depth"] = depth
    ctx.cov["rule"] = (
        "rt: random schema Types (1/10 a chain of exactly the maximal depth, 1/10 leaves, else random depth; all size lengths, LEB128 constraints "
        "0,1,2,5,10,19,37,2^32-1, arrays/byte arrays of boundary sizes, 255/256-element collections) with JSON generated from the type using the whole "
        "accepted grammar ('+', leading zeros, '_', '-0', upper-case hex, offsets, missing subindex, extra keys); every third case is mutated at a random "
        "node (near miss); by: valid encodings unchanged / with tail / truncated / one byte changed / 0xff-overwritten prefixes and inner runs, and random "
        "bytes; zero-width element collections keep U8/U16 lengths; schema: Types, FunctionV1/V2, modules V0-V3 and hostile schema bytes; "
        "non-trivial = the implementation returned a value; distinct = distinct (type, input) hash")

    if nviol[0] > 8:
        ctx.log("%d further mismatches not written as replay files" % (nviol[0] - 8))
    if proof_broken:
        ctx.violation({"layer": "Coq proof obligations", "broken": proof_broken},
                      "theorem(s) of Props/C10.v no longer check (%s)" % proof_broken["failed_file"], no_input=not ctx.violations)
    if ctx.tier == "thorough":
        okc, outc = c.coqchk(ctx)
        if not okc:
            ctx.violation({"layer": "coqchk", "output": outc[-2000:]}, "coqchk rejected Props/C10.vo", no_input=True)
