"""C11 - bulletproof range / set (non-)membership proofs.

Layers (see design/C11.md):
  1. Coq: Props/C11.v (statement arithmetic, inner-product argument / range / set completeness,
     verifier = explicit equations).
  2. In-the-exponent correspondence: the harness builds every generator as a known multiple of the
     group generator, replays the prover's randomness and records the Fiat-Shamir challenges; the Coq
     model (instantiated at Z mod r, G := F) computes the discrete log of every proof component and the
     verifier's verdict for the honest and for single-component-perturbed proofs; `mulcheck` compares
     dlog * P with the real points.
  3. Direct oracles on the implementation alone: honest proofs verify; out-of-range values, perturbed
     proofs, wrong commitment / generators / bit width / transcript do not; derived statements are
     accepted exactly when true.
"""
import json
import re
from . import common as c

R = 0x73eda753299d7d483339d80809a1d80553bda402fffe5bfeffffffff00000001
W64 = 1 << 64
PRE = ("From Coq Require Import ZArith List Uint63. Import ListNotations.\n"
       "From CB Require Import Crypto.RangeStmt Crypto.BpInst.\nLocal Open Scope Z_scope.\n")
VERD = {0: "Ok", 1: "First", 2: "Second", 3: "Division"}


def zlit(x):
    """a Z literal; big ones as primitive-int limbs (base 2^60) to keep elaboration cheap"""
    x = int(x)
    if x < (1 << 60):
        return str(x)
    limbs = []
    while x:
        limbs.append(x & ((1 << 60) - 1))
        x >>= 60
    return "(zL [" + "; ".join("%d%%uint63" % l for l in limbs) + "])"


def zl(xs):
    return "[" + "; ".join(zlit(x) for x in xs) + "]"


def hx(s):
    return int(s, 16)


def evalz(ctx, name, exprs, nshards=16, timeout=1500):
    """coq_eval with (a) expressions dealt over the shards by decreasing size, so that no shard gets all
    the big cases, (b) scope annotations (%Z) stripped before the generic term parser."""
    n = len(exprs)
    if n == 0:
        return []
    nshards = max(1, min(nshards, n))
    per = -(-n // nshards)
    nb = -(-n // per)
    ranked = sorted(range(n), key=lambda i: -len(exprs[i]))
    pos = sorted(((rank % nb) * per + rank // nb, i) for rank, i in enumerate(ranked))
    order = [i for _, i in pos]
    outs = c.coq_eval(ctx, name, PRE, [exprs[i] for i in order], shard=per, timeout=timeout, parse=False)
    res = [None] * n
    for i, o in zip(order, outs):
        res[i] = c.parse_coq_term(re.sub(r"%[A-Za-z_0-9]+", "", o))
    return res


def parse_proof(hexs):
    """A S T1 T2 (48 bytes each) | tx txt et (32) | u32 len | (L R)* | a b  ->  (points, scalars-by-name, lr)"""
    b = bytes.fromhex(hexs)
    pts = [b[48 * i:48 * (i + 1)].hex() for i in range(4)]
    o = 192
    scs = [int.from_bytes(b[o + 32 * i:o + 32 * (i + 1)], "big") for i in range(3)]
    o += 96
    k = int.from_bytes(b[o:o + 4], "big")
    o += 4
    lr = []
    for _ in range(k):
        lr.append((b[o:o + 48].hex(), b[o + 48:o + 96].hex()))
        o += 96
    a = int.from_bytes(b[o:o + 32], "big")
    bb = int.from_bytes(b[o + 32:o + 64], "big")
    assert o + 64 == len(b)
    return pts, scs, lr, a, bb


def chal_list(ch, k):
    """recorded challenges [[label, hex]...] -> [y, z, x, w, u_0..u_(k-1)] (checked labels)"""
    ch = [(l, s) for l, s in ch if not l.startswith("#")]
    labs = [l for l, _ in ch]
    want = ["y", "z", "x", "w"] + ["uj"] * k
    if labs != want:
        return None
    return [hx(s) for _, s in ch]


def post_state(ch):
    for l, s in ch:
        if l == "#post":
            return s
    return None


class Acc:
    def __init__(self, ctx):
        self.ctx = ctx
        self.seen = set()
        self.nontrivial = set()
        self.dist = {}
        self.obs = {}
        self.mulpairs = []   # (dlog, pointhex, description)
        self.nviol = 0

    def count(self, k):
        self.dist[k] = self.dist.get(k, 0) + 1

    def observe(self, k, example):
        e = self.obs.setdefault(k, {"count": 0, "example": example})
        e["count"] += 1

    def case(self, obj, nontrivial):
        key = c.digest(obj)
        self.seen.add(key)
        if nontrivial:
            self.nontrivial.add(key)

    def viol(self, replay, summary):
        self.nviol += 1
        if self.nviol <= 8:
            self.ctx.violation(replay, summary)


def slim(d):
    """a replayable but short form of a harness case"""
    keep = {k: v for k, v in d.items() if k not in ("g", "h", "draws", "perturb", "pch", "vch")}
    keep["replay_cmd"] = "harness c11 %s <seed> <tier> (case id %s)" % (d.get("k"), d.get("id"))
    return keep


# ---------------------------------------------------------------------------------- direct oracles
def oracle_range(acc, d):
    n, m = d["n"], d["m"]
    acc.count("range n=%d m=%d" % (n, m))
    if not d["supported"]:
        acc.case([d["k"], n, m, d["vals"], d["prove"]], False)
        if d["prove"] == "None":
            acc.observe("O-C11-3 range prover returns None when n*m is not a power of two (no padding in range proofs)",
                        {"n": n, "m": m})
        elif d["prove"] == "Some" and d.get("verify") != "Ok":
            acc.viol({"case": slim(d)}, "range proof for n=%d m=%d was produced but does not verify" % (n, m))
        return
    acc.case([d["k"], n, m, d["ver"], d["tk"], d["vals"]], d["prove"] == "Some")
    if d["prove"] != "Some":
        acc.viol({"case": slim(d)}, "range prover failed (%s) for in-range values n=%d m=%d vals=%s" % (d["prove"], n, m, d["vals"]))
        return
    if d["verify"] != "Ok":
        acc.viol({"case": slim(d)}, "honest range proof does not verify (%s): n=%d m=%d vals=%s" % (d["verify"], n, m, d["vals"]))
    for p in d["perturb"]:
        acc.count("perturbation")
        if p["r"] == "Ok":
            acc.viol({"case": slim(d), "component": p["c"]},
                     "range proof with component %s altered still verifies (n=%d m=%d)" % (p["c"], n, m))
        elif p["r"] == "PANIC":
            acc.viol({"case": slim(d), "component": p["c"], "fixed_in": "444a641e0 (verify_scalars round-count check)"},
                     "verifier panicked instead of rejecting an altered proof (%s, n=%d m=%d)" % (p["c"], n, m))
    for name, r in d["ctx"]:
        acc.count("wrong-context")
        if r == "Ok":
            acc.viol({"case": slim(d), "context": name}, "range proof verifies in a wrong context: %s (n=%d m=%d)" % (name, n, m))
        elif r == "PANIC":
            acc.viol({"case": slim(d), "context": name}, "range verifier panicked in a wrong-context check: %s" % name)


def oracle_outside(acc, d):
    acc.count("outside " + d["what"])
    acc.case([d["k"], d["n"], d["m"], d["what"], d["bad"], d["id"]], d["prove"] == "Some")
    for f in ("verify", "verify_u64"):
        if d[f] == "Ok":
            acc.viol({"case": d}, "a proof produced by the honest algorithm for a value outside [0,2^%d) (%s) verifies" % (d["n"], d["what"]))
    if d["prove"].startswith("PANIC"):
        acc.observe("O-C11-4 prover panics on an out-of-range scalar", d)


def leq_expected(n, a, b):
    return a <= b and b - a < (1 << n) and a < (1 << n)


def oracle_leq(acc, d):
    n, a, b, ca, cb = d["n"], int(d["a"]), int(d["b"]), int(d["ca"]), int(d["cb"])
    honest = (a, b) == (ca, cb)
    acc.count("leq " + ("a=b" if a == b else "a=b+1" if a == b + 1 else "a<b" if a < b else "a>b") + ("" if honest else " vs other commitment"))
    acc.case([d["k"], n, a, b, ca, cb], d["prove"] == "Some")
    if d["prove"].startswith("PANIC"):
        if a > b:
            acc.observe("O5 prove_less_than_or_equal panics (u64 b - a) when a > b", {"n": n, "a": a, "b": b})
        else:
            acc.viol({"case": slim(d)}, "prove_less_than_or_equal panicked for a <= b (a=%d b=%d n=%d)" % (a, b, n))
        return
    if d["prove"] != "Some":
        if leq_expected(n, a, b):
            acc.viol({"case": slim(d)}, "no proof for the true statement %d <= %d (n=%d)" % (a, b, n))
        return
    exp = leq_expected(n, a, b) if honest else False
    if d["verify"] != exp:
        acc.viol({"case": slim(d), "expected": exp},
                 "a <= b statement: verify=%s but the statement (a=%d b=%d against commitments to %d,%d, n=%d) is %s"
                 % (d["verify"], a, b, ca, cb, n, exp))
    for p in d.get("perturb", []):
        acc.count("perturbation")
        if p["r"] == "true":
            acc.viol({"case": slim(d), "component": p["c"]}, "a<=b proof with component %s altered still verifies" % p["c"])
        elif "PANIC" in p["r"]:
            acc.viol({"case": slim(d), "component": p["c"]}, "a<=b verifier panicked instead of rejecting an altered proof (%s)" % p["c"])
    for name, r in d.get("ctx", []):
        acc.count("wrong-context")
        if r is True:
            acc.viol({"case": slim(d), "context": name}, "a<=b proof verifies in a wrong context: %s" % name)


def in_range_model_py(v, a, b):
    c1 = (v + W64 - b) % R
    c2 = (v - a) % R
    return c1 < W64 and c2 < W64


def oracle_inrange(acc, d, model_accepts):
    v, a, b = hx(d["v"]), hx(d["a"]), hx(d["b"])
    u64 = v < W64 and a < W64 and b < W64
    cls = "scalars beyond u64" if not u64 else ("a=b" if a == b else "v=a" if v == a else "v=b-1" if v == b - 1 else "v=b" if v == b
                                                 else "v=a-1" if v == a - 1 else "inside" if a <= v < b else "outside")
    acc.count("inrange " + cls)
    acc.case([d["k"], v, a, b], d["prove"] == "Some")
    if d["prove"] != "Some":
        acc.viol({"case": slim(d)}, "prove_in_range failed: %s" % d["prove"])
        return
    exp = in_range_model_py(v, a, b)
    if model_accepts is not None and model_accepts != exp:
        acc.viol({"case": slim(d), "coq_model": model_accepts, "python": exp, "layer": "statement model"},
                 "Coq statement model and its Python transcription disagree")
    if u64 and exp != (a <= v < b):
        acc.viol({"case": slim(d), "theorem": "in_range_prover_exact"}, "theorem in_range_prover_exact contradicted")
    got = d["verify"] == "Ok"
    if got != exp:
        acc.viol({"case": {"v": v, "a": a, "b": b, "ver": d["ver"], "verify": d["verify"]}, "expected_accept": exp,
                  "theorem": "in_range_statement_exact / in_range_prover_exact"},
                 "v in [a,b): verify=%s but the statement v=%d a=%d b=%d is %s" % (d["verify"], v, a, b, exp))
    for p in d.get("perturb", []):
        acc.count("perturbation")
        if p["r"] == "Ok":
            acc.viol({"case": slim(d), "component": p["c"]}, "in-range proof with component %s altered still verifies" % p["c"])
        elif p["r"] == "PANIC":
            acc.viol({"case": slim(d), "component": p["c"]}, "in-range verifier panicked instead of rejecting an altered proof (%s)" % p["c"])
    if got:
        for name, r in d.get("ctx", []):
            acc.count("wrong-context")
            if r == "Ok":
                acc.viol({"case": slim(d), "context": name}, "in-range proof verifies in a wrong context: %s" % name)


def oracle_set(acc, d):
    member = d["k"] == "member"
    size = len(d["set"])
    in_set = d["in_set"]
    true_stmt = in_set if member else not in_set
    pw = size > 0 and (size & (size - 1)) == 0
    acc.count("%s size=%s %s" % (d["k"], "0" if size == 0 else "1" if size == 1 else "2^k" if pw else "non-2^k", "true" if true_stmt else "false"))
    acc.case([d["k"], d["set"], d["v"], d["ver"], d["tk"]], d["prove"] == "Some")
    what = "%s: v=%s set=%s" % (d["k"], d["v"], d["set"][:9])
    if d["prove"].startswith("PANIC"):
        acc.viol({"case": slim(d)}, "set prover panicked (%s)" % what)
        return
    if d["prove"] != "Some":
        if true_stmt:
            if size == 0:
                acc.observe("O-C11-2 the empty set is not supported: non-membership prover returns %s although v not in {} is true" % d["prove"],
                            {"set": [], "v": d["v"]})
            else:
                acc.viol({"case": slim(d)}, "no proof for a true statement (%s): %s" % (d["prove"], what))
        return
    if d["verify"] == "Ok" and not true_stmt:
        acc.viol({"case": slim(d)}, "a proof for a FALSE statement verifies (%s)" % what)
        return
    if d["verify"] != "Ok" and true_stmt:
        acc.viol({"case": slim(d)}, "honest proof of a true statement does not verify (%s): %s" % (d["verify"], what))
    if not true_stmt:
        return
    for p in d["perturb"]:
        acc.count("perturbation")
        if p["r"] == "Ok":
            acc.viol({"case": slim(d), "component": p["c"]}, "set proof with component %s altered still verifies (%s)" % (p["c"], what))
        elif p["r"] == "PANIC":
            acc.viol({"case": slim(d), "component": p["c"]}, "set verifier panicked instead of rejecting an altered proof (%s)" % p["c"])
    for name, r in d["ctx"]:
        acc.count("wrong-context")
        if name.startswith("set_explicitly_padded"):
            if r != "Ok":
                acc.viol({"case": slim(d), "context": name}, "the set padded explicitly with its last element is not the same statement (%s)" % what)
        elif r == "Ok":
            acc.viol({"case": slim(d), "context": name}, "set proof verifies in a wrong context: %s (%s)" % (name, what))
    if d["as_other_kind"] == "Ok":
        acc.viol({"case": slim(d)}, "a %s proof verifies as the opposite kind of proof" % d["k"])


def oracle_ipa(acc, d):
    n = d["n"]
    acc.count("ipa n=%d" % n)
    acc.case([d["k"], n, d["a"], d["b"], d["tk"]], d["prove"] == "Some")
    pow2 = n > 0 and (n & (n - 1)) == 0
    if not pow2:
        if d["prove"] == "Some" and d["verify"] is not True:
            acc.viol({"case": slim(d)}, "inner-product proof for length %d produced but does not verify" % n)
        return
    if d["prove"] != "Some" or d["verify"] is not True:
        acc.viol({"case": slim(d)}, "inner-product argument is not complete for n=%d (%s / %s)" % (n, d["prove"], d.get("verify")))
        return
    if d["verify_wrong_P"] is True:
        acc.viol({"case": slim(d)}, "inner-product proof verifies against a different P'")
    for name, r in d["perturb"]:
        acc.count("perturbation")
        if r is True:
            acc.viol({"case": slim(d), "component": name}, "inner-product proof with %s altered verifies" % name)


def oracle_forge(acc, d):
    acc.count("attack " + str(d.get("kind")))
    acc.case([d["k"], d.get("kind"), d.get("n"), d.get("m"), d.get("ver"), d.get("tk")], True)
    if "error" in d:
        acc.viol({"case": d, "layer": "attack corpus"}, "the forger itself failed (%s): the attack corpus no longer exercises the verifier" % d["error"])
        return
    if d["verify"] == "Ok":
        acc.viol({"case": d, "attack": d["kind"],
                  "what": "adaptive forger: the message named in `kind` was replaced by a copy of the previous message when computing "
                          "the challenges and then solved from the verification equations; the proof is for a FALSE statement "
                          "(value outside [0,2^n) / no known opening)"},
                 "FORGERY ACCEPTED: %s (n=%s m=%s version=%s transcript=%s) - a challenge does not bind an earlier prover message"
                 % (d["kind"], d["n"], d["m"], d["ver"], d["tk"]))
    elif d["verify"] == "PANIC":
        acc.viol({"case": d}, "verifier panicked on a forged proof (%s)" % d["kind"])
    elif not d["valid_under_simulated_challenges"]:
        acc.viol({"case": {k: v for k, v in d.items() if k != "proof"}, "layer": "attack corpus self-check"},
                 "forged proof does not satisfy the verifier equations under the simulated challenges (%s): "
                 "the verifier's equations changed or the forger is broken" % d["kind"])


# ---------------------------------------------------------------------------------- transcript model
PRE_T = ("From Coq Require Import NArith List String. Import ListNotations.\n"
         "From CB Require Import Crypto.Transcript Crypto.BpTranscript Crypto.BpTranscriptEval.\nOpen Scope string_scope.\n")
MASK254 = (1 << 254) - 1


def sfb(h):
    """Curve::scalar_from_bytes for BLS12-381 (Transcript.scalar_from_bytes_bls)"""
    return int.from_bytes(h[:32], "little") & MASK254


def expand(state, markers):
    out = bytearray()
    for x in state:
        if x < 256:
            out.append(x)
        else:
            out += markers[x]
    return bytes(out)


def proof_markers(d):
    pts, scs, lr, a, b = parse_proof(d["proof"])
    mk = {1002: pts[0], 1003: pts[1], 1004: pts[2], 1005: pts[3]}
    mk = {k: bytes.fromhex(v) for k, v in mk.items()}
    for i, v in enumerate(scs):
        mk[1006 + i] = v.to_bytes(32, "big")
    mk[1009] = a.to_bytes(32, "big")
    mk[1010] = b.to_bytes(32, "big")
    for j, (l, r) in enumerate(lr):
        mk[400000 + j] = bytes.fromhex(l)
        mk[500000 + j] = bytes.fromhex(r)
    mk[1001] = bytes.fromhex(d["kp"])
    for i, g in enumerate(d.get("Gp", [])):
        mk[100000 + i] = bytes.fromhex(g)
    for i, g in enumerate(d.get("Hp", [])):
        mk[200000 + i] = bytes.fromhex(g)
    return mk, len(lr)


def transcript_tie(ctx, acc, rng_cases, set_cases, ipa_cases):
    """sha3(model transcript bytes) == every challenge the implementation extracted (prover and verifier),
    and == the transcript state after the proof."""
    import hashlib
    jobs = []   # (shape expr, case, markers, rounds, kind)
    for d in rng_cases:
        if d["k"] != "range" or d.get("prove") != "Some":
            continue
        mk, k = proof_markers(d)
        for j, v in enumerate(d["V"]):
            mk[300000 + j] = bytes.fromhex(v)
        e = 'range_states_eval %s "%s" %s %d %d %d %d' % ("V1" if d["tk"] == 1 else "Legacy", d["dom"], "true" if d["ver"] == 2 else "false",
                                                          d["n"] * d["m"], d["n"], d["m"], k)
        jobs.append((e, d, mk, k, "range"))
    for d in set_cases:
        if d.get("prove") != "Some":
            continue
        mk, k = proof_markers(d)
        mk[1011] = bytes.fromhex(d["Vc"])
        sz = len(d["g"])
        elems = [int(x) for x in d["set"]]
        elems += [elems[-1]] * (sz - len(elems))
        for i, x in enumerate(elems):
            mk[600000 + i] = x.to_bytes(32, "big")
        e = 'set_states_eval %s "%s" %s %s %d %d' % ("V1" if d["tk"] == 1 else "Legacy", d["dom"], "true" if d["k"] == "member" else "false",
                                                     "true" if d["ver"] == 2 else "false", sz, k)
        jobs.append((e, d, mk, k, "set"))
    for d in ipa_cases:
        if d.get("prove") != "Some" or not d["lr"]:
            continue
        mk = {}
        for j, (l, r) in enumerate(d["lr"]):
            mk[400000 + j] = bytes.fromhex(l)
            mk[500000 + j] = bytes.fromhex(r)
        e = 'ipa_states_eval %s "c11-ipa" %d' % ("V1" if d["tk"] == 1 else "Legacy", len(d["lr"]))
        jobs.append((e, d, mk, len(d["lr"]), "ipa"))
    shapes = sorted({j[0] for j in jobs})
    ctx.log("transcript model: %d proofs, %d distinct shapes" % (len(jobs), len(shapes)))
    outs = c.coq_eval(ctx, "transcript", PRE_T, shapes, shard=max(1, len(shapes) // 8 + 1), timeout=900, parse=False)
    model = {e: c.parse_coq_term(re.sub(r"%[A-Za-z_0-9]+", "", o)) for e, o in zip(shapes, outs)}
    tied = 0
    for e, d, mk, k, kind in jobs:
        t = model[e]
        if kind == "ipa":
            states, post = t, None
        else:
            states, post = t
        try:
            got = [sfb(hashlib.sha3_256(expand(st, mk)).digest()) for st in states]
        except KeyError as ex:
            acc.viol({"case": slim(d), "layer": "transcript model", "missing_marker": str(ex)}, "transcript model refers to a message the proof does not have")
            continue
        for who in ("pch", "vch"):
            if who not in d or (who == "vch" and d.get("verify") != "Ok"):
                continue
            real = [hx(s_) for l, s_ in d[who] if not l.startswith("#")]
            labels = [l for l, _ in d[who] if not l.startswith("#")]
            acc.count("transcript challenges compared")
            if real != got:
                bad = next((i for i, (a_, b_) in enumerate(zip(real, got)) if a_ != b_), min(len(real), len(got)))
                acc.viol({"case": slim(d), "layer": "Fiat-Shamir transcript (%s %s)" % (kind, "prover" if who == "pch" else "verifier"),
                          "first_differing_challenge": {"index": bad, "label": labels[bad] if bad < len(labels) else None,
                                                        "impl": "%064x" % real[bad] if bad < len(real) else None,
                                                        "sha3_of_model_frame": "%064x" % got[bad] if bad < len(got) else None},
                          "theorem": "ipa_challenges_bind_L_and_R / range_challenges_bind_all_commitments hold for the model frame, not for this code"},
                         "challenge #%d (%s) of the %s %s is not the hash of the frame the proved model prescribes: "
                         "some prover message is not (or differently) bound" % (bad, labels[bad] if bad < len(labels) else "?", kind,
                                                                                "prover" if who == "pch" else "verifier"))
                break
            tied += 1
            if post is not None:
                hp = hashlib.sha3_256(expand(post, mk)).hexdigest()
                if post_state(d[who]) != hp:
                    acc.viol({"case": slim(d), "layer": "transcript state after the proof (%s)" % who, "impl": post_state(d[who]), "model": hp},
                             "the transcript state after the %s proof differs from the model (final prover messages a, b)" % kind)
                    break
    return tied


# ---------------------------------------------------------------------------------- model expressions
def expr_range(d):
    ch = chal_list(d["pch"], (d["n"] * d["m"]).bit_length() - 1)
    if ch is None:
        return None
    return "range_eval %d %s %s %s %s %s %s %s %s" % (
        d["n"], zl(d["vals"]), zl(hx(x) for x in d["r"]), zl(hx(x) for x in d["g"]), zl(hx(x) for x in d["h"]),
        zlit(hx(d["b"])), zlit(hx(d["bt"])), zl(hx(x) for x in d["draws"]), zl(ch))


def expr_range_verify(d, parts, jobs):
    """jobs: list of (index or -1, challenge list)"""
    vd = [(int(v) * hx(d["b"]) + hx(r) * hx(d["bt"])) % R for v, r in zip(d["vals"], d["r"])]
    js = "[" + "; ".join("((%d)%%Z, %s)" % (i, zl(ch)) for i, ch in jobs) + "]"
    return "range_verify_many %d %s %s %s %s %s %s %s" % (
        d["n"], zl(hx(x) for x in d["g"]), zl(hx(x) for x in d["h"]), zlit(hx(d["b"])), zlit(hx(d["bt"])), zl(vd), zl(parts), js)


def expr_set(d):
    n = len(d["g"])
    ch = chal_list(d["pch"], n.bit_length() - 1)
    if ch is None:
        return None
    return "set_eval %s %s %s %s %s %s %s %s %s %s" % (
        "true" if d["k"] == "member" else "false", zl(d["set"]), zlit(d["v"]), zlit(hx(d["r"])),
        zl(hx(x) for x in d["g"]), zl(hx(x) for x in d["h"]), zlit(hx(d["b"])), zlit(hx(d["bt"])), zl(hx(x) for x in d["draws"]), zl(ch))


def expr_set_verify(d, parts, jobs):
    vd = (int(d["v"]) * hx(d["b"]) + hx(d["r"]) * hx(d["bt"])) % R
    js = "[" + "; ".join("((%d)%%Z, %s)" % (i, zl(ch)) for i, ch in jobs) + "]"
    return "set_verify_many %s %s %s %s %s %s %s %s %s" % (
        "true" if d["k"] == "member" else "false", zl(d["set"]), zl(hx(x) for x in d["g"]), zl(hx(x) for x in d["h"]),
        zlit(hx(d["b"])), zlit(hx(d["bt"])), zlit(vd), zl(parts), js)


def expr_ipa(d):
    us = [hx(s) for l, s in d["pch"] if not l.startswith("#")]
    return "ipa_eval %s %s %s %s %s %s" % (zl(hx(x) for x in d["g"]), zl(hx(x) for x in d["h"]), zlit(hx(d["q"])),
                                          zl(hx(x) for x in d["a"]), zl(hx(x) for x in d["b"]), zl(us))


def flat_parts(d):
    pts, scs, lr, a, b = parse_proof(d["proof"])
    return pts, scs, lr, a, b


def compare_proof(acc, d, term, kind):
    """term = model's [A;S;T1;T2;tx;txt;et;L0;R0;...;a;b]; scalars compared here, points queued for mulcheck"""
    pts, scs, lr, a, b = flat_parts(d)
    k = len(lr)
    if not isinstance(term, list) or len(term) != 7 + 2 * k + 2:
        acc.viol({"case": slim(d), "model": str(term)[:300], "layer": "in-the-exponent correspondence (%s prover)" % kind},
                 "model produced a proof of a different shape than the implementation (%s)" % kind)
        return None
    names = ["A", "S", "T1", "T2", "tx", "txt", "et"] + [x + str(j) for j in range(k) for x in ("L", "R")] + ["a", "b"]
    impl_sc = {4: scs[0], 5: scs[1], 6: scs[2], 7 + 2 * k: a, 8 + 2 * k: b}
    for i, val in impl_sc.items():
        if term[i] != val:
            acc.viol({"case": slim(d), "component": names[i], "model": term[i], "impl": val,
                      "layer": "in-the-exponent correspondence (%s prover)" % kind,
                      "theorem": "range_complete / set_member_complete / set_nonmember_complete apply to the model, not to this code"},
                     "%s prover: scalar %s differs from the proved model" % (kind, names[i]))
            return term
    for i in range(4):
        acc.mulpairs.append((term[i], pts[i], d, names[i], kind))
    for j in range(k):
        acc.mulpairs.append((term[7 + 2 * j], lr[j][0], d, "L%d" % j, kind))
        acc.mulpairs.append((term[8 + 2 * j], lr[j][1], d, "R%d" % j, kind))
    return term


def verify_jobs(d, k, limit):
    jobs = []
    ch = chal_list(d["vch"], k)
    if ch is not None:
        jobs.append((-1, ch, d["verify"], "honest"))
    for p in d["perturb"]:
        if "ch" not in p or "i" not in p:
            continue
        ch = chal_list(p["ch"], k)
        if ch is None or p["r"] in ("PANIC", "ParseError"):
            continue
        jobs.append((p["i"], ch, p["r"], p["c"]))
    if limit and len(jobs) > limit:
        # honest + an evenly spread selection
        step = (len(jobs) - 1) / float(limit - 1)
        idx = sorted({0} | {min(len(jobs) - 1, 1 + int(i * step)) for i in range(limit - 1)})
        jobs = [jobs[i] for i in idx]
    return jobs


# ---------------------------------------------------------------------------------- run
def run(ctx):
    ctx.assumptions += [
        "group = prime-order module over its scalar field (one-dimensional); arkworks curve arithmetic and SHA3 are not modelled",
        "soundness (no accepting proof for a false statement from ANY prover) is computational (discrete log) - NOT a theorem; "
        "proved: completeness for all witnesses/randomness/challenges, exact statement arithmetic, verifier = explicit equations",
        "in-the-exponent tie: prover randomness is replayed from a clone of the RNG in draw order; challenges are recorded by a wrapping TranscriptProtocol",
        "Fiat-Shamir transcript bytes are not modelled (binding of context is exercised by the wrong-context oracles, not proved)",
        "harness build has overflow-checks=on: prove_less_than_or_equal with a > b panics (observation O5)",
    ]
    ok, info = c.coq_prove(ctx)
    proof_broken = None
    if not ok:
        proof_broken = info
        ctx.log("proof obligations broken:", info["failed_file"], info["error"][-600:])
    # the executable instance is not in the closure of Props/C11.v: build it explicitly
    okb, outb = c.coq_build(ctx, ["Crypto/BpInst.vo", "Crypto/RangeStmt.vo", "Crypto/BpTranscriptEval.vo"])
    if not okb:
        ctx.log("model files do not build:", outb[-800:])
    ok, binp = c.cargo_build(ctx, "c11")
    if not ok:
        ctx.violation({"layer": "harness build against /repo", "error": binp},
                      "harness no longer builds against the implementation", no_input=True)
        return
    acc = Acc(ctx)
    thorough = ctx.tier == "thorough"

    def harness(mode, *args, timeout=2400):
        rc, out = c.run_bin(binp, [mode, ctx.seed] + list(args), timeout=timeout)
        if rc != 0:
            ctx.violation({"layer": "harness run", "mode": mode, "output": out[-2000:]}, "harness crashed in mode %s" % mode, no_input=True)
            return []
        return [json.loads(l) for l in out.splitlines() if l.startswith("{")]

    # ---- run the implementation
    rng_cases = harness("range", 1 if thorough else 0)
    ctx.log("range cases:", len(rng_cases))
    der_cases = harness("derived", 80 if thorough else 14)
    ctx.log("derived cases:", len(der_cases))
    set_cases = harness("sets", 3 if thorough else 1, "full" if thorough else "quick")
    ctx.log("set cases:", len(set_cases))
    ipa_cases = harness("ipa", 8 if thorough else 3)
    ctx.log("ipa cases:", len(ipa_cases))
    atk_cases = harness("attacks", 6 if thorough else 1)
    ctx.log("attack corpus:", len(atk_cases))

    # ---- statement model (Coq) for the derived statements
    inr = [d for d in der_cases if d["k"] == "inrange"]
    leq = [d for d in der_cases if d["k"] == "leq"]
    model_ok = True
    try:
        ex = ["in_range_accepts r_bls %s %s %s" % (zlit(hx(d["v"])), zlit(hx(d["a"])), zlit(hx(d["b"]))) for d in inr]
        ex += ["leq_accepts_wrapping r_bls %d %s %s" % (d["n"], zlit(d["a"]), zlit(d["b"])) for d in leq]
        terms = evalz(ctx, "stmt", ex, nshards=2)
    except Exception as e:  # model does not build / evaluate: broken tie
        model_ok = False
        terms = [None] * (len(inr) + len(leq))
        ctx.violation({"layer": "statement model evaluation", "error": repr(e)[-1500:]},
                      "the Coq statement model could not be evaluated", no_input=True)
    for d, t in zip(inr, terms[:len(inr)]):
        oracle_inrange(acc, d, None if t is None else (t == "true"))
    for d, t in zip(leq, terms[len(inr):]):
        oracle_leq(acc, d)
        if t is not None and (t == "true") != leq_expected(d["n"], int(d["a"]), int(d["b"])):
            acc.viol({"case": slim(d), "coq_model": t, "layer": "statement model"}, "Coq leq model disagrees with its Python transcription")
    for d in rng_cases:
        (oracle_range if d["k"] == "range" else oracle_outside)(acc, d)
    for d in set_cases:
        oracle_set(acc, d)
    for d in ipa_cases:
        oracle_ipa(acc, d)
    for d in atk_cases:
        oracle_forge(acc, d)
    ctx.cov["evaluations"] += len(rng_cases) + len(der_cases) + len(set_cases) + len(ipa_cases) + len(atk_cases) + acc.dist.get("perturbation", 0) + acc.dist.get("wrong-context", 0)

    # ---- in-the-exponent correspondence
    tied = 0
    if model_ok:
        try:
            tied = correspondence(ctx, acc, binp, rng_cases, set_cases, ipa_cases, thorough)
        except Exception as e:
            ctx.violation({"layer": "in-the-exponent correspondence", "error": repr(e)[-2000:]},
                          "the algebraic model could not be evaluated against the implementation", no_input=True)
    try:
        tied += transcript_tie(ctx, acc, rng_cases, set_cases, ipa_cases)
    except Exception as e:
        ctx.violation({"layer": "Fiat-Shamir transcript model", "error": repr(e)[-2000:]},
                      "the transcript model could not be evaluated against the implementation", no_input=True)
    ctx.cov["traces_validated_against_impl"] += tied
    ctx.cov["distinct_nontrivial"] = len(acc.nontrivial)
    ctx.notes["distribution"] = dict(sorted(acc.dist.items()))
    ctx.notes["observations"] = acc.obs
    for k in acc.obs:
        ctx.log("observation:", k, "x%d" % acc.obs[k]["count"])
    ctx.cov["samples"] += [x for x in (slim(rng_cases[3]) if len(rng_cases) > 3 else None, slim(der_cases[0]) if der_cases else None,
                                       slim(set_cases[5]) if len(set_cases) > 5 else None) if x]
    ctx.cov["rule"] = (
        "range: every supported (n,m) shape with n in {1,2,4,8,16,32,64}, n*m a power of two <= 256 (thorough: <= 512), values 0, 1, 2^n-1, 2^(n-1), random; "
        "both ProofVersions x both transcript implementations; unsupported shapes (n in {3,7,63}, m in {3,5}) must yield no proof; values 2^n, 2^n+1, 2^n+rand, -1 via prove_given_scalars and prove; "
        "for every honest proof: all 9+2k single-component perturbations, 5 structural ones, 10+ wrong-context checks; "
        "a<=b / v in [a,b): boundary-heavy u64 triples (a=b, a=b+1, v=a, v=b-1, v=b, v=a-1) and scalars beyond u64; "
        "sets: sizes 0,1,2,3,4,5,7,8,9,16,17 (thorough up to 64), members first/last/middle, non-members 0, 1, last+1, random, multisets; "
        "non-trivial = the prover returned a proof; distinct = distinct canonical case hash")
    if proof_broken:
        found = bool(ctx.violations)
        ctx.violation({"layer": "Coq proof obligations", "broken": proof_broken},
                      "theorem(s) of Props/C11.v no longer check (%s)" % proof_broken["failed_file"], no_input=not found)
    if thorough:
        ok, out = c.coqchk(ctx)
        if not ok:
            ctx.violation({"layer": "coqchk", "output": out[-2000:]}, "coqchk rejected Props/C11.vo", no_input=True)


def correspondence(ctx, acc, binp, rng_cases, set_cases, ipa_cases, thorough):
    """Model (Coq, Z mod r in the exponent) vs implementation.  Returns number of validated traces."""
    tied = 0
    # --- provers
    rc = [d for d in rng_cases if d["k"] == "range" and d["prove"] == "Some"]
    sc = [d for d in set_cases if d["prove"] == "Some"]
    ic = [d for d in ipa_cases if d["prove"] == "Some"]
    exprs, owners = [], []
    for d in rc:
        e = expr_range(d)
        if e is None:
            acc.viol({"case": slim(d), "labels": [l for l, _ in d["pch"]], "layer": "challenge order"},
                     "range prover extracts challenges in an unexpected order")
            continue
        exprs.append(e); owners.append(("range", d))
    for d in sc:
        e = expr_set(d)
        if e is None:
            acc.viol({"case": slim(d), "labels": [l for l, _ in d["pch"]], "layer": "challenge order"},
                     "set prover extracts challenges in an unexpected order")
            continue
        exprs.append(e); owners.append(("set", d))
    for d in ic:
        exprs.append(expr_ipa(d)); owners.append(("ipa", d))
    ctx.log("model: %d prover evaluations" % len(exprs))
    terms = evalz(ctx, "prove", exprs, nshards=16)
    model_parts = {}
    for (kind, d), t in zip(owners, terms):
        if kind == "ipa":
            k = len(d["lr"])
            # t = (flat [L0;R0;...;a;b], s)
            flat, s = t
            if flat[2 * k] != hx(d["pa"]) or flat[2 * k + 1] != hx(d["pb"]):
                acc.viol({"case": slim(d), "model": flat[2 * k:], "layer": "in-the-exponent correspondence (ipa prover)", "theorem": "ipa_complete"},
                         "inner-product prover: final scalars differ from the proved model (n=%d)" % d["n"])
                continue
            for j in range(k):
                acc.mulpairs.append((flat[2 * j], d["lr"][j][0], d, "L%d" % j, "ipa"))
                acc.mulpairs.append((flat[2 * j + 1], d["lr"][j][1], d, "R%d" % j, "ipa"))
            if "s" in d:
                # the verifier's scalar vector on the challenges it extracted itself
                pass
            tied += 1
        else:
            got = compare_proof(acc, d, t, kind)
            if got is not None:
                model_parts[id(d)] = got
                tied += 1
    # verify_scalars: s vector of the implementation vs svec of the model on the same challenges
    sex, sown = [], []
    for d in ic:
        if "s" in d:
            us_ = zl(hx(s) for l, s in d["sch"] if not l.startswith("#"))
            sex.append("(svec_eval %s, svec_iter_eval %s)" % (us_, us_)); sown.append(d)
    if sex:
        st = evalz(ctx, "svec", sex, nshards=2)
        for d, t in zip(sown, st):
            want_s = [hx(x) for x in d["s"]]
            if list(t[0]) != want_s or list(t[1]) != want_s:
                acc.viol({"case": slim(d), "model": t, "impl": d["s"], "layer": "verify_scalars vs svec", "theorem": "ipa_complete"},
                         "verify_scalars: the vector s differs from the model's svec (n=%d)" % d["n"])
            else:
                tied += 1
    # --- verifiers: honest and perturbed proofs, verdict and which check fails
    vex, vown = [], []
    for kind, cases in (("range", rc), ("set", sc)):
        for d in cases:
            parts = model_parts.get(id(d))
            if parts is None:
                continue
            k = (len(parts) - 9) // 2
            big = len(d["g"]) > 32
            jobs = verify_jobs(d, k, None if thorough and not big else (4 if big else 10))
            if not jobs:
                continue
            e = (expr_range_verify if kind == "range" else expr_set_verify)(d, parts, [(i, ch) for i, ch, _, _ in jobs])
            vex.append(e); vown.append((kind, d, jobs))
    ctx.log("model: %d verifier evaluations (%d verdicts)" % (len(vex), sum(len(j) for _, _, j in vown)))
    if vex:
        vt = evalz(ctx, "verify", vex, nshards=16)
        for (kind, d, jobs), t in zip(vown, vt):
            for (i, ch, impl, name), code in zip(jobs, t):
                acc.count("model verdicts")
                mv = VERD.get(code, str(code))
                if mv != impl:
                    acc.viol({"case": slim(d), "component": name, "model_verdict": mv, "impl_verdict": impl,
                              "layer": "in-the-exponent correspondence (%s verifier)" % kind, "theorem": "verify_is_equations"},
                             "%s verifier: verdict %s on %s proof, the proved equations give %s" % (kind, impl, name, mv))
                else:
                    tied += 1
    # --- points: dlog * P == point, on the implementation's curve arithmetic
    if acc.mulpairs:
        inp = "".join("%064x %s\n" % (dl % R, pt) for dl, pt, _, _, _ in acc.mulpairs)
        rcode, out = c.run_bin(binp, ["mulcheck"], timeout=1200, input=inp.encode())
        res = out.split()
        if rcode != 0 or len(res) != len(acc.mulpairs):
            ctx.violation({"layer": "mulcheck", "output": out[-1000:]}, "mulcheck failed", no_input=True)
        else:
            bad = 0
            for (dl, pt, d, name, kind), r in zip(acc.mulpairs, res):
                acc.count("points checked")
                if r != "ok":
                    bad += 1
                    if bad <= 3:
                        acc.viol({"case": slim(d), "component": name, "model_dlog": dl, "impl_point": pt,
                                  "layer": "in-the-exponent correspondence (%s prover)" % kind,
                                  "theorem": "ipa_complete / range_complete / set_*_complete apply to the model, not to this code"},
                                 "%s prover: point %s is not the one the proved model computes" % (kind, name))
                else:
                    tied += 1
    return tied
