"""C02 - energy metering is exact, never undercharges, and bounds execution.

Pipeline (DESIGN.md 7.C02):
  0. translator T2: metering_transformation.rs (cost_v0 / cost_v1, trait impls) -> coq/Gen/CostV0.v, CostV1.v
  1. Coq: Props/C02.vo (theorems over the generated tables, Wasm/Meter.v, Wasm/SemTrace.v)
  2. Rust harness c02 (real inject_metering, real engine with a recording host, real InterpreterEnergy)
  3. extracted model runner (ExtractC02.v + driver_c02.ml) on the same programs
  4. correspondence: (i) metered instruction stream + module surgery, (ii) host event sequence and outcome,
     (iii) remaining energy / out-of-energy under budgets
  5. oracles on the implementation alone: determinism, memory.grow announced, Sum ticks == / >= Sum cost of the
     instructions the UNMETERED module executed on the real engine (instrumented run), prefix-wise at every
     call / return / host call, budgets (out of energy exactly when the need exceeds the budget)
"""
import importlib.util
import json
import os
import re
from . import common as c

FUEL = 60000


def _norm_tok(t):
    # the model drops the alignment immediate of memory instructions
    p = t.split(":")
    try:
        b = int(p[0], 16)
    except ValueError:
        return t
    if 0x28 <= b <= 0x3e and len(p) == 3:
        return p[0] + ":" + p[1]
    return t


def norm_code(s):
    return [_norm_tok(t) for t in s.split()]


def drop_empty_else(toks):
    out = []
    for i, t in enumerate(toks):
        if t == "05" and i + 1 < len(toks) and toks[i + 1] == "0b":
            continue
        out.append(t)
    return out


def parse_model_line(line):
    """-> [cfg0, cfg1] dicts with keys FLAT STRUCT MOD EV SUM COSTS (raw strings)"""
    if line.startswith("ERR"):
        return None
    res = []
    for part in line.split(" ## "):
        d = {}
        for sec in part.split(" ;; "):
            k, _, v = sec.partition(" ")
            d[k] = v
        res.append(d)
    return res


def src_ops(prog):
    """flat source ops per function from the program line"""
    t = prog.split()
    i = t.index("F")
    nf = int(t[i + 1])
    i += 2
    fs = []
    for _ in range(nf):
        nl = int(t[i + 1])
        i += 2 + nl
        n = int(t[i])
        fs.append(t[i + 1:i + 1 + n])
        i += 1 + n
    ti = t.index("I")
    ni = int(t[ti + 1])
    nt = int(t[1])
    return fs, ni, nt


def traced_work(traced_ev, costs, ops):
    """Recompute the work of the instrumented unmetered run from the generated cost table.
    Returns (total, list of cumulative work before each sync event, sync events)."""
    ids = []
    for fi, f in enumerate(ops):
        for pc in range(len(f)):
            ids.append((fi, pc))
    total = 0
    sync = []
    cum = []
    evs = traced_ev.split()
    entered = True  # the entry function is entered before the first instruction
    for k, e in enumerate(evs):
        if e[0] in "ia":
            continue
        if e.isdigit():
            fi, pc = ids[int(e)]
            if entered:
                total += costs[fi][0]
                entered = False
            cst, tk = costs[fi][1][pc]
            total += cst
            if ops[fi][pc].startswith("0d:"):
                nxt = evs[k + 1] if k + 1 < len(evs) else None
                if nxt is not None and nxt != str(int(e) + 1):
                    total += tk
        else:
            sync.append(e)
            cum.append(total)
            if e == "c":
                entered = True
    return total, cum, sync


def metered_ticks(ev):
    total = 0
    sync = []
    cum = []
    for e in ev.split():
        if e[0] == "t":
            total += int(e[1:])
        elif e[0] in "ia":
            continue
        else:
            sync.append(e)
            cum.append(total)
    return total, cum, sync


def need_of(ev):
    n = 0
    for e in ev.split():
        if e[0] == "t":
            n += int(e[1:])
        elif e[0] in "ia":
            n += 100 * int(e[1:])
    return n


def run(ctx):
    ctx.assumptions += [
        "host functions other than account_memory are abstract (any deterministic function of arguments and memory); "
        "the recording host of the harness implements three fixed test imports",
        "the compiler/interpreter pair executes metered code as the reference semantics Wasm/Sem.v does (property C01; "
        "the dynamic layer uses programs outside the known compiler defect classes KF-C01-1..3)",
        "u64 overflow of the energy accumulator is out of range: a function body would need > 2^32 cost per segment; "
        "the u32 range check of the tick amount IS modelled (Meter.fits_u32)",
        "steps bound (meter_bounds_steps) is proved on the trace model: see design/C02.md for what is partial",
    ]
    # 0. translator ------------------------------------------------------------------------------
    tie_broken = None
    try:
        spec = importlib.util.spec_from_file_location("gen_costs", os.path.join(c.VERIF, "translators", "gen_costs.py"))
        gc = importlib.util.module_from_spec(spec)
        spec.loader.exec_module(gc)
        info = gc.generate(c.REPO, os.path.join(c.COQ, "Gen"))
        ctx.notes["translator"] = info
    except Exception as ex:  # TranslateError or anything else: the tie is broken
        tie_broken = "translator gen_costs failed: %s" % ex
        ctx.log(tie_broken)
        if not os.path.exists(os.path.join(c.COQ, "Gen", "CostV0.v")):
            ctx.violation({"layer": "translator T2 (metering_transformation.rs -> Gen/CostV*.v)", "error": tie_broken},
                          "cost schedule could not be translated and no earlier translation exists", no_input=True)
            return

    # 1. proofs -----------------------------------------------------------------------------------
    ok, info = c.coq_prove(ctx)
    proof_broken = None
    if not ok:
        proof_broken = info
        ctx.log("proof obligations broken:", info["failed_file"], info["error"][-600:])
        c.coq_build(ctx, ["Wasm/MeterRun.vo"])

    # 2. harness + model runner -------------------------------------------------------------------
    ok, binp = c.cargo_build(ctx, "c02")
    if not ok:
        ctx.violation({"layer": "harness build against /repo", "error": binp},
                      "harness no longer builds against the implementation", no_input=True)
        return
    ok, runner = c.extract_build(ctx, "ExtractC02.v", "driver_c02.ml", "c02")
    if not ok:
        ctx.violation({"layer": "model extraction", "error": runner}, "the Coq model could not be extracted/compiled",
                      no_input=True)
        return

    n_dyn = 1200 if ctx.quick else 20000
    n_static = 2500 if ctx.quick else 40000
    cases = []
    stats = {}
    for mode, args in (("single", []), ("gen", [ctx.seed, n_dyn]), ("static", [ctx.seed, n_static])):
        rc, out = c.run_bin(binp, [mode] + args, timeout=2400)
        if rc != 0:
            ctx.violation({"layer": "harness run", "mode": mode, "output": out[-2000:]}, "metering harness crashed (%s)" % mode,
                          no_input=True)
            return
        for l in out.splitlines():
            if l.startswith('{"id"'):
                cases.append(json.loads(l))
            elif l.startswith('{"stats"'):
                for k, v in json.loads(l)["stats"].items():
                    stats[k] = stats.get(k, 0) + v
    # non-terminating programs under a finite budget: must stop, out of energy, within `budget` ticks
    rc, out = c.run_bin(binp, ["spin", 20000], timeout=90)
    spin_lines = [json.loads(l) for l in out.splitlines() if l.startswith("{")]
    spins = [l for l in spin_lines if "spin" in l]
    starts = [l for l in spin_lines if "START" in l]
    if rc != 0 or len(spins) != len(starts) or len(spins) < 16:
        hung = starts[len(spins)] if len(starts) > len(spins) else {"START": "?"}
        ctx.violation({"layer": "budget bounds execution", "program": hung, "budget": 20000, "rc": rc,
                       "what": "the real engine did not stop this metered program under a finite energy budget "
                               "(killed after 90 s / watchdog): some control-flow cycle is not charged"},
                      "a metered non-terminating program (%s, %s) does not run out of energy" % (hung.get("START"), hung.get("cfg")))
    for sp in spins:
        if sp["out"] != "ooe" or sp["rem"] != "0" or sp["ticks"] > 20000 or sp["nev"] > 3 * 20000 + 3:
            ctx.violation({"layer": "budget bounds execution", "case": sp},
                          "non-terminating program %s (%s) under budget 20000: outcome %s after %d events" % (sp["spin"], sp["cfg"], sp["out"], sp["nev"]))
    ctx.notes["spin_programs"] = {"n": len(spins), "max_events": max([sp["nev"] for sp in spins] + [0])}
    ctx.cov["evaluations"] += len(spins)
    # regression corpus
    corp = os.path.join(c.VERIF, "corpus", "C02", "programs.txt")
    if os.path.exists(corp):
        rc, out = c.run_bin(binp, ["run"], timeout=600, input=open(corp, "rb").read())
        cases += [x for x in (json.loads(l) for l in out.splitlines() if l.startswith('{"id"')) if "prog" in x]
    ctx.log("harness produced %d cases" % len(cases))
    inp = "".join("C02 %d %s\n" % (FUEL, cs["prog"]) for cs in cases)
    rc, out = c.sh([runner], input=inp.encode(), timeout=3000, env={"OCAMLRUNPARAM": "l=8G"})
    mlines = out.splitlines()
    if rc != 0 or len(mlines) != len(cases):
        ctx.violation({"layer": "model runner", "rc": rc, "lines": len(mlines), "cases": len(cases), "tail": out[-1500:]},
                      "model runner failed", no_input=True)
        return

    dist = {"cases": len(cases), "static_compared": 0, "dynamic_compared": 0, "budget_runs": 0, "oracle_exact": 0,
            "oracle_trap_ge": 0, "oracle_sync_points": 0, "model_fuel": 0, "traced_diverged": 0, "rejected": 0,
            "outcomes": {}, "events_total": 0, "brif_value_rewrites": 0, "brif_rewrites": 0, "memgrow_sites": 0,
            "calls_shifted": 0}
    seen = set()
    nontrivial = set()
    nviol = [0]

    percat = {}

    def viol(obj, summary):
        # at most 2 reports per kind of failure (the kind = the summary without its numbers), 10 in total
        nviol[0] += 1
        cat = re.sub(r"\d+", "#", summary)
        percat[cat] = percat.get(cat, 0) + 1
        if percat[cat] <= 2 and len(ctx.violations) < 10:
            ctx.violation(obj, summary)

    for cs, ml in zip(cases, mlines):
        model = parse_model_line(ml)
        ops, ni, nt = src_ops(cs["prog"])
        key = c.digest(cs["prog"])
        seen.add(key)
        if model is None:
            viol({"case": cs["id"], "prog": cs["prog"], "model": ml[:300]}, "model runner could not process the program")
            continue
        for ci, cfg in enumerate(("m0", "m1")):
            r = cs["res"][cfg]
            md = model[ci]
            inj = r["inject"]
            rep = {"case": cs["id"], "cost_config": "V%d" % ci, "prog": cs["prog"],
                   "replay": "printf '%%s\\n' '<prog>' | .cache/target/release/c02 run"}
            if "code" not in inj:
                dist["rejected"] += 1
                if md["FLAT"] != "FAIL":
                    viol(dict(rep, impl=inj, model=md["FLAT"][:200]), "inject_metering fails on a program the model meters")
                continue
            # ---- (i) instruction stream and module surgery
            impl_code = [norm_code(s) for s in inj["code"]]
            flat = [f.split() for f in md["FLAT"].split(" | ")] if md["FLAT"] != "FAIL" else None
            struct = [f.split() for f in md["STRUCT"].split(" | ")] if md["STRUCT"] != "FAIL" else None
            dist["static_compared"] += 1
            static_bad = False
            if flat != impl_code:
                fi = next((i for i in range(len(impl_code)) if flat is None or i >= len(flat) or flat[i] != impl_code[i]), 0)
                viol(dict(rep, function=fi, source=" ".join(ops[fi]), impl=" ".join(impl_code[fi]),
                          model=" ".join(flat[fi]) if flat and fi < len(flat) else "FAIL",
                          layer="(i) InstrSeqTransformer::run vs Meter.trun"),
                     "metered instruction stream differs from the model (function %d, cost V%d)" % (fi, ci))
                static_bad = True
            if static_bad:
                pass
            elif struct is None or [drop_empty_else(f) for f in impl_code] != [drop_empty_else(f) for f in struct]:
                viol(dict(rep, impl=[" ".join(f) for f in impl_code], model=md["STRUCT"][:600],
                          layer="(i) structured transformer Meter.mseq vs implementation"),
                     "structured metering model differs from the implementation's output (cost V%d)" % ci)
                static_bad = True
            for f in impl_code:
                for j, t in enumerate(f):
                    if t == "40":
                        dist["memgrow_sites"] += 1
                        if j == 0 or f[j - 1] != "10:0":
                            viol(dict(rep, code=" ".join(f), at=j), "memory.grow not immediately preceded by the account_memory call")
                    if t == "10:0" and (j + 1 >= len(f) or f[j + 1] != "40"):
                        viol(dict(rep, code=" ".join(f), at=j), "call of account_memory not followed by memory.grow")
                    if t.startswith("10:") and t != "10:0":
                        dist["calls_shifted"] += 1
                    if t == "04:7f" and j + 1 < len(f) and f[j + 1].startswith("fe:") and j + 2 < len(f) and f[j + 2] == "41:1":
                        dist["brif_value_rewrites"] += 1
                    if t == "04:40" and j + 2 < len(f) and f[j + 1].startswith("fe:") and f[j + 2].startswith("0c:"):
                        dist["brif_rewrites"] += 1
            mparts = md["MOD"].split(" I ")
            m_nt, m_last = mparts[0].split()[:2] if mparts[0] != "FAIL" else ("?", "?")
            m_imps, _, m_elems = mparts[1].partition(" E ") if len(mparts) > 1 else ("", "", "")
            impl_imps = [str(i["ty"]) for i in inj["imports"]]
            impl_elems = " ".join("%d:%s" % (e[0], ",".join(str(x) for x in e[1])) for e in inj["elems"])
            want_exports = {"f%d" % j: ni + j + 1 for j in range(len(ops))}
            first = inj["imports"][0] if inj["imports"] else {}
            if (str(len(inj["types"])) != m_nt or inj["types"][-1] != m_last or ",".join(impl_imps) != m_imps.strip()
                    or impl_elems != m_elems.strip() or inj["exports"] != want_exports
                    or first.get("mod") != "concordium_metering" or first.get("item") != "account_memory"
                    or len(inj["types"]) != nt + 1 or int(impl_imps[0]) != nt):
                viol(dict(rep, impl={k: inj[k] for k in ("types", "imports", "elems", "exports")}, model=md["MOD"],
                          want_exports=want_exports, layer="(i) Module::inject_metering vs Meter.inject"),
                     "module surgery of inject_metering differs from the model (types/imports/elements/exports)")
                static_bad = True
            # ---- (ii) dynamic
            if "run" not in r:
                continue
            run_ = r["run"]
            if md["EV"] == "FAIL":
                viol(dict(rep, model="FAIL"), "model failed to run a program the implementation runs")
                continue
            mev, _, mout = md["EV"].rpartition(" => ")
            okind = run_["out"].split()[0]
            dist["outcomes"][okind] = dist["outcomes"].get(okind, 0) + 1
            if run_["out"].startswith("PANIC"):
                viol(dict(rep, out=run_["out"]), "the engine panicked on a metered module")
                continue
            if mout in ("fuel", "stuck"):
                dist["model_fuel"] += 1
                continue
            dist["dynamic_compared"] += 1
            dist["events_total"] += len(run_["ev"].split())
            if not run_["repeat_same"]:
                viol(dict(rep, events=run_["ev"][:400]), "two runs of the same metered module with the same input differ (ticks/outcome/energy)")
            if run_["ev"] != mev or run_["out"] != mout:
                ie, me = run_["ev"].split(), mev.split()
                k = next((i for i in range(min(len(ie), len(me))) if ie[i] != me[i]), min(len(ie), len(me)))
                viol(dict(rep, first_difference_at_event=k, impl_events=" ".join(ie[max(0, k - 8):k + 8]),
                          model_events=" ".join(me[max(0, k - 8):k + 8]), impl_outcome=run_["out"], model_outcome=mout,
                          metered_code=inj["code"], layer="(ii) recording host vs SemTrace on Meter.inject"),
                     "host event sequence (ticks / account_memory / calls) differs from the model at event %d (cost V%d)" % (k, ci))
                dyn_bad = True
            else:
                dyn_bad = False
                nontrivial.add(key + cfg)
            # ---- (iii) budgets
            sm = md["SUM"].split()
            m_ticks, m_work, m_bal, m_srcwork, m_same = sm[0], sm[1], sm[2], sm[3], sm[4]
            m_need = sm[sm.index("NEED") + 1]
            m_bud = {b.split(":")[0]: b.split(":")[1:] for b in sm[sm.index("BUD") + 1:]}
            need = need_of(run_["ev"])
            if str(need) != run_["need"] or (m_need != run_["need"] and not dyn_bad):
                viol(dict(rep, need_from_events=need, need_measured=run_["need"], model_need=m_need),
                     "energy consumed differs from the sum of the charges seen by the host")
            if m_bal == "NEG" or (okind == "ok" and (m_ticks != m_work or m_bal != "0")) or m_same != "same" or m_srcwork != m_work:
                viol(dict(rep, model_sum=md["SUM"], layer="model self-check (meter_exact/meter_prepaid instance)"),
                     "the model's own trace violates exactness/prepaid on this program")
            for b in run_["budgets"]:
                dist["budget_runs"] += 1
                B = int(b["b"])
                want_ooe = need > B
                got_ooe = b["out"] == "ooe"
                mb = m_bud.get(b["b"])
                good = (got_ooe == want_ooe and b["prefix"]
                        and (int(b["rem"]) == (0 if want_ooe else B - need))
                        and (want_ooe or b["out"] == run_["out"])
                        and (dyn_bad or (mb is not None and mb[0] == ("ooe" if got_ooe else "ok") and mb[1] == b["rem"])))
                if not good:
                    viol(dict(rep, budget=b, need=need, model=mb, unbounded_outcome=run_["out"],
                              layer="(iii) InterpreterEnergy under a budget"),
                         "budget %d: out-of-energy/remaining energy not as the property demands (need %d)" % (B, need))
            # ---- direct oracle: unmetered instrumented run vs ticks
            tr = cs.get("traced")
            if isinstance(tr, dict) and "ev" in tr and md["COSTS"] != "FAIL":
                costs = []
                for fpart in md["COSTS"].split(" | "):
                    tk = fpart.split()
                    costs.append((int(tk[0]), [tuple(int(x) for x in p.split(":")) for p in tk[1:]]))
                try:
                    w_total, w_cum, w_sync = traced_work(tr["ev"], costs, ops)
                except Exception as ex:  # malformed trace
                    viol(dict(rep, traced=tr["ev"][:300], error=repr(ex)), "instrumented run produced an unusable trace")
                    continue
                t_total, t_cum, t_sync = metered_ticks(run_["ev"])
                if t_sync != w_sync or tr["out"].split()[0] != okind:
                    dist["traced_diverged"] += 1
                else:
                    under = [k for k in range(len(t_cum)) if t_cum[k] < w_cum[k]]
                    dist["oracle_sync_points"] += len(t_cum)
                    if okind == "ok":
                        dist["oracle_exact"] += 1
                        bad = t_total != w_total
                    else:
                        dist["oracle_trap_ge"] += 1
                        bad = t_total < w_total
                    if bad or under:
                        viol(dict(rep, ticks_total=t_total, work_of_executed_source_instructions=w_total, outcome=run_["out"],
                                  first_undercharged_sync_point=(under[0] if under else None),
                                  ticks_before=(t_cum[under[0]] if under else None), work_before=(w_cum[under[0]] if under else None),
                                  metered_code=inj["code"], events=run_["ev"][:600],
                                  layer="direct oracle: ticks vs cost of the instructions the unmetered module executed"),
                             ("energy charged (%d) differs from the cost schedule summed over the executed instructions (%d)" % (t_total, w_total))
                             if bad else "undercharge: at a call/return the ticks so far are less than the work done so far")
    ctx.cov["evaluations"] += dist["static_compared"] + dist["dynamic_compared"] + dist["budget_runs"]
    ctx.cov["traces_validated_against_impl"] += dist["dynamic_compared"]
    ctx.cov["distinct_nontrivial"] = len(nontrivial)
    ctx.notes["distribution"] = dist
    ctx.notes["generator_stats"] = stats
    ctx.notes["violations_found"] = nviol[0]
    ctx.cov["rule"] = ("programs: one per opcode (single), type-directed random modules (nested block/loop/if, br/br_if/br_table/return "
                       "with and without values, calls, call_indirect, imported host functions, memory.grow, traps) in the clean class "
                       "for execution and in all classes for the static layer; both cost configurations; non-trivial = distinct "
                       "(program, cost config) whose full host event sequence and outcome were compared with the model")
    ex = [cs for cs in cases if cs["id"].startswith("g")][:2]
    for cs in ex:
        r = cs["res"]["m1"]
        ctx.cov["samples"].append({"id": cs["id"], "prog": cs["prog"][:300], "metered_f0": r["inject"].get("code", ["?"])[0][:300],
                                   "events": r.get("run", {}).get("ev", "")[:200], "out": r.get("run", {}).get("out")})
    if tie_broken:
        ctx.violation({"layer": "translator T2 (metering_transformation.rs -> Gen/CostV*.v)", "error": tie_broken},
                      "the cost schedule can no longer be translated: " + tie_broken, no_input=not ctx.violations)
    if proof_broken:
        found = bool(ctx.violations)
        ctx.violation({"layer": "Coq proof obligations", "broken": proof_broken},
                      "theorem(s) of Props/C02.v no longer check (%s)" % proof_broken["failed_file"], no_input=not found)
    if ctx.tier == "thorough":
        ok, out = c.coqchk(ctx)
        if not ok:
            ctx.violation({"layer": "coqchk", "output": out[-2000:]}, "coqchk rejected Props/C02.vo", no_input=True)
