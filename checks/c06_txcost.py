"""T5: translate the declarative energy arithmetic of transactions.rs (`mod cost`, and the energy
expression of every `construct::*` builder) into Gallina definitions over N  ->  coq/Gen/TxCost.v.

Only constants, `+ * /`, `u64::from`, `Energy::from`, `Energy { energy: e }`, calls of other `cost`
items, `match ty { CredentialType::X => e, .. }` and `xs.iter().map(|&v| e).sum::<u64>()` are understood.
Anything else raises TranslateError: a broken tie that the check reports loudly, never a silent default.
"""
import re


class TranslateError(Exception):
    pass


def strip(src):
    src = re.sub(r"//[^\n]*", "", src)
    src = re.sub(r"#\[[^\]]*\]", "", src, flags=re.S)
    return src


def block_after(src, header_re):
    """text between the braces that follow the first match of header_re"""
    m = re.search(header_re, src)
    if not m:
        raise TranslateError("cannot find %r" % header_re)
    i = src.index("{", m.end() - 1)
    depth = 0
    for j in range(i, len(src)):
        if src[j] == "{":
            depth += 1
        elif src[j] == "}":
            depth -= 1
            if depth == 0:
                return src[i + 1:j]
    raise TranslateError("unbalanced braces after %r" % header_re)


TOK = re.compile(r"\s*(?:(\d[\d_]*)(u64|u32|u16|u8|usize)?|([A-Za-z_][A-Za-z0-9_]*(?:::(?:<[^>]*>|[A-Za-z_][A-Za-z0-9_]*))*)|(=>|\|&|[-+*/(){},.;:|&=<>\[\]]))")

WIDTH = {"u8": 8, "u16": 16, "u32": 32, "u64": 64}


def tokens(s):
    out, pos = [], 0
    s = s.strip()
    while pos < len(s):
        m = TOK.match(s, pos)
        if not m or m.end() == pos:
            raise TranslateError("cannot tokenise %r" % s[pos:pos + 30])
        if m.group(1) is not None:
            out.append(("num", (int(m.group(1).replace("_", "")), m.group(2))))
        elif m.group(3) is not None:
            out.append(("id", m.group(3)))
        else:
            out.append(("sym", m.group(4)))
        pos = m.end()
        while pos < len(s) and s[pos].isspace():
            pos += 1
    return out


def unify(t1, t2, what):
    """the type of `a op b`: Rust demands equal integer types; an unsuffixed literal takes the other's type"""
    if t1 in ("lit", "any"):
        return t2 if t2 != "any" or t1 == "any" else t1
    if t2 in ("lit", "any"):
        return t1
    if t1 != t2:
        raise TranslateError("operands of different types %s / %s in %s (the source would not compile: translator misreads it)" % (t1, t2, what))
    return t1


class P:
    """Recursive descent over the token list.  Every sub-expression carries its Rust integer type, so that
    the Gallina term places the arithmetic where the source places it: `a op b` at a type narrower than u64
    becomes `wrap W (a op b)` (the value a release build computes; the checked build panics exactly when the
    wrap changes the value).  u64 arithmetic is left unwrapped: `energy_formula` shows it stays below 2^64
    for every transaction that can exist."""

    def __init__(self, toks, known, local=None, hint=None):
        # known: name -> ("const",) | ("fn", [param types]);  local: name -> type;  hint: types of free identifiers
        self.t, self.i, self.known, self.free, self.local, self.hint = toks, 0, known, [], dict(local or {}), dict(hint or {})

    def peek(self, k=0):
        return self.t[self.i + k] if self.i + k < len(self.t) else (None, None)

    def eat(self, kind=None, val=None):
        k, v = self.peek()
        if k is None or (kind and k != kind) or (val is not None and v != val):
            raise TranslateError("expected %s %s, got %s %s at token %d" % (kind, val, k, v, self.i))
        self.i += 1
        return v

    def ident(self, name):
        name = name.split("::")[-1] if name.startswith("cost::") or name.startswith("super::") else name
        if name in self.local:
            return name, self.local[name]
        if name in self.known:
            return name, "u64"
        if "::" in name:
            raise TranslateError("unknown path %s" % name)
        if name not in self.free:
            self.free.append(name)
        return name, self.hint.get(name, "any")

    @staticmethod
    def binop(s1, t1, op, s2, t2):
        t = unify(t1, t2, "%s %s %s" % (s1, op, s2))
        s = "%s %s %s" % (s1, op, s2)
        if t in ("u8", "u16", "u32") and op in "+*":
            s = "(wrap %d (%s))" % (WIDTH[t], s)
        return s, t

    def expr(self):
        s, t = self.term()
        while self.peek() == ("sym", "+"):
            self.eat()
            s2, t2 = self.term()
            s, t = self.binop(s, t, "+", s2, t2)
        if self.peek() == ("sym", "-"):
            raise TranslateError("subtraction is not supported (u64 underflow semantics)")
        return s, t

    def term(self):
        s, t = self.factor()
        while self.peek() in (("sym", "*"), ("sym", "/")):
            op = self.eat()
            s2, t2 = self.factor()
            s, t = self.binop(s, t, op, s2, t2)
        return s, t

    def args(self):
        self.eat("sym", "(")
        a = []
        while self.peek() != ("sym", ")"):
            if self.peek() == ("sym", "&"):
                self.eat()
            a.append(self.expr())
            if self.peek() == ("sym", ","):
                self.eat()
        self.eat("sym", ")")
        return a

    def factor(self):
        k, v = self.peek()
        if k == "num":
            self.eat()
            if v[1] == "usize":
                raise TranslateError("usize literal")
            return str(v[0]), (v[1] or "lit")
        if (k, v) == ("sym", "("):
            self.eat()
            s, t = self.expr()
            self.eat("sym", ")")
            return "(%s)" % s, t
        if k == "id":
            self.eat()
            if v in ("u64::from", "u32::from", "u16::from", "u8::from"):
                a = self.args()
                if len(a) != 1:
                    raise TranslateError("from with %d args" % len(a))
                target = v.split("::")[0]
                src = a[0][1]
                if src in WIDTH and WIDTH[src] > WIDTH[target]:
                    raise TranslateError("%s of a %s" % (v, src))
                # a widening conversion: the value is unchanged, the TYPE (hence where later arithmetic wraps) changes
                return "(%s)" % a[0][0], target
            if v == "Energy::from":
                a = self.args()
                if len(a) != 1 or a[0][1] not in ("u64", "lit", "any"):
                    raise TranslateError("Energy::from of %r" % (a,))
                return "(%s)" % a[0][0], "u64"
            if v == "Energy" and self.peek() == ("sym", "{"):
                self.eat()
                self.eat("id", "energy")
                self.eat("sym", ":")
                s, t = self.expr()
                if t not in ("u64", "lit", "any"):
                    raise TranslateError("Energy { energy: <%s> }" % t)
                if self.peek() == ("sym", ","):
                    self.eat()
                self.eat("sym", "}")
                return "(%s)" % s, "u64"
            if v == "match":
                scrut, st = self.ident(self.eat("id"))
                if st != "credential_type":
                    raise TranslateError("match on a %s" % st)
                self.eat("sym", "{")
                arms, t = [], "lit"
                while self.peek() != ("sym", "}"):
                    pat = self.eat("id")
                    if not pat.startswith("CredentialType::"):
                        raise TranslateError("unsupported match pattern %s" % pat)
                    self.eat("sym", "=>")
                    s, t1 = self.expr()
                    t = unify(t, t1, "match arms")
                    arms.append("| %s => %s" % (pat.split("::")[-1], s))
                    if self.peek() == ("sym", ","):
                        self.eat()
                self.eat("sym", "}")
                return "(match %s with %s end)" % (scrut, " ".join(arms)), t
            if v.startswith("CredentialType::"):
                return v.split("::")[-1], "credential_type"
            if self.peek() == ("sym", "("):
                name = v.split("::")[-1] if v.startswith("cost::") or v.startswith("super::") else v
                if name not in self.known or self.known[name][0] != "fn":
                    raise TranslateError("call of unknown function %s" % v)
                a = self.args()
                ptypes = self.known[name][1]
                if len(a) != len(ptypes):
                    raise TranslateError("%s called with %d arguments" % (name, len(a)))
                for (sa, ta), pt in zip(a, ptypes):
                    if ta not in (pt, "lit", "any"):
                        raise TranslateError("argument of type %s for parameter of type %s in call of %s" % (ta, pt, name))
                return "(%s %s)" % (name, " ".join("(%s)" % x if " " in x and not x.startswith("(") else x for x, _ in a)), "u64"
            if self.peek() == ("sym", "."):
                # xs.iter().map(|&v| e).sum::<u64>()
                lst, lt = self.ident(v)
                if not lt.startswith("list "):
                    raise TranslateError(".iter() on a %s" % lt)
                self.eat()
                self.eat("id", "iter")
                self.eat("sym", "(")
                self.eat("sym", ")")
                self.eat("sym", ".")
                self.eat("id", "map")
                self.eat("sym", "(")
                if self.peek() == ("sym", "|&"):
                    self.eat()
                else:
                    self.eat("sym", "|")
                    if self.peek() == ("sym", "&"):
                        self.eat()
                var = self.eat("id")
                self.eat("sym", "|")
                self.local[var] = lt[5:]
                body, bt = self.expr()
                del self.local[var]
                self.eat("sym", ")")
                self.eat("sym", ".")
                sm = self.eat("id")
                if sm != "sum::<u64>" or bt not in ("u64", "lit"):
                    raise TranslateError("expected .sum::<u64>() of u64 items, got %s of %s" % (sm, bt))
                self.eat("sym", "(")
                self.eat("sym", ")")
                return "(fold_right N.add 0 (map (fun %s => %s) %s))" % (var, body, lst), "u64"
            return self.ident(v)
        raise TranslateError("unexpected token %s %s" % (k, v))

    def done(self):
        if self.i != len(self.t):
            raise TranslateError("trailing tokens %r" % (self.t[self.i:self.i + 5],))


def parse_body(body, known, params, want="u64"):
    """`let x: T = e; tail` | `e`   (params: name -> type)"""
    body = body.strip()
    lets = []
    while True:
        m = re.match(r"let\s+([a-z_][a-z0-9_]*)\s*(?::\s*([A-Za-z0-9_]+))?\s*=", body)
        if not m:
            break
        depth, j = 0, m.end()
        while j < len(body):
            ch = body[j]
            if ch in "({[":
                depth += 1
            elif ch in ")}]":
                depth -= 1
            elif ch == ";" and depth == 0:
                break
            j += 1
        lets.append((m.group(1), m.group(2), body[m.end():j]))
        body = body[j + 1:].strip()
    local = dict(params)
    out = ""
    for name, annot, e in lets:
        p = P(tokens(e), known, local)
        s, t = p.expr()
        p.done()
        if p.free:
            raise TranslateError("free identifiers %s in let %s" % (p.free, name))
        if annot and annot != "Energy" and t not in (annot, "lit"):
            raise TranslateError("let %s: %s = <%s>" % (name, annot, t))
        t = t if t != "lit" else (annot or "lit")
        out += "let %s := %s in " % (name, s)
        local[name] = "u64" if annot == "Energy" else t
    p = P(tokens(body), known, local)
    s, t = p.expr()
    p.done()
    if p.free:
        raise TranslateError("free identifiers %s" % p.free)
    if want and t not in (want, "lit", "any"):
        raise TranslateError("body of type %s where %s is expected" % (t, want))
    return out + s


def rust_ty(t):
    t = t.strip()
    if t in WIDTH:
        return t
    if t == "Energy":
        return "u64"
    if t == "CredentialType":
        return "credential_type"
    if t == "&[u16]":
        return "list u16"
    raise TranslateError("unsupported parameter type %s" % t)


def gallina_ty(t):
    if t in WIDTH:
        return "N"
    if t == "credential_type":
        return "credential_type"
    if t.startswith("list "):
        return "list " + gallina_ty(t[5:])
    if t == "bool":
        return "bool"
    if t == "string":
        return "string"
    raise TranslateError("no Gallina type for %s" % t)


def translate(rs_text):
    src = strip(rs_text)
    cost = block_after(src, r"pub mod cost\s*\{")
    items = {}  # name -> (kind, params, bodytext)
    for m in re.finditer(r"(?:pub\s+)?const\s+([A-Z_0-9]+)\s*:\s*(u64|Energy)\s*=\s*([^;]+);", cost):
        items[m.group(1)] = ("const", [], m.group(3))
    for m in re.finditer(r"(?:pub\s+)?fn\s+([a-z_0-9]+)\s*\(([^)]*)\)\s*->\s*Energy\s*\{", cost):
        body = block_after(cost[m.start():], r"fn\s+" + m.group(1) + r"\s*\([^)]*\)\s*->\s*Energy\s*\{")
        params = []
        for p in [x for x in m.group(2).split(",") if x.strip()]:
            n, t = p.split(":")
            params.append((n.strip(), rust_ty(t)))
        items[m.group(1)] = ("fn", params, body)
    if "base_cost" not in items or "A" not in items or "B" not in items:
        raise TranslateError("mod cost lacks base_cost / A / B")
    construct = block_after(src, r"pub mod construct\s*\{")
    m = re.search(r"pub const TRANSACTION_HEADER_SIZE\s*:\s*u64\s*=\s*([^;]+);", construct)
    if not m:
        raise TranslateError("TRANSACTION_HEADER_SIZE not found")
    items["TRANSACTION_HEADER_SIZE"] = ("const", [], m.group(1))
    # dependency order
    names = list(items)
    deps = {n: [d for d in names if d != n and re.search(r"\b%s\b" % d, items[n][2])] for n in names}
    order, seen = [], set()

    def visit(n, stack=()):
        if n in seen:
            return
        if n in stack:
            raise TranslateError("cyclic definition %s" % n)
        for d in deps[n]:
            visit(d, stack + (n,))
        seen.add(n)
        order.append(n)

    for n in names:
        visit(n)
    out = ["(* GENERATED on every run by checks/c06_txcost.py from rust-src/concordium_base/src/transactions.rs",
           "   (`mod cost`, `construct::TRANSACTION_HEADER_SIZE`, `TransactionBuilder::size`, `make_transaction`,",
           "   and the energy expression of each `construct::*` builder).  Do not edit. *)",
           "From Coq Require Import NArith List String.", "Import ListNotations.", "Local Open Scope N_scope.", "",
           "Inductive credential_type : Set := Initial | Normal.", "",
           "(* arithmetic at a Rust integer type narrower than u64: the value a release build computes *)",
           "Definition wrap (w x : N) : N := x mod 2 ^ w.", ""]
    known = {}
    for n in order:
        kind, params, body = items[n]
        g = parse_body(body, known, dict(params))
        ps = "".join(" (%s : %s)" % (pn, gallina_ty(pt)) for pn, pt in params)
        out.append("Definition %s%s : N := %s." % (n, ps, g))
        known[n] = ("fn", [pt for _, pt in params]) if kind == "fn" else ("const",)
    # TransactionBuilder::size
    tb = block_after(construct, r"impl TransactionBuilder\s*\{")
    size_body = block_after(tb, r"fn size\(&self\)\s*->\s*u64\s*\{")
    size_body = size_body.replace("self.header.payload_size", "payload_size")
    if not re.search(r"TRANSACTION_HEADER_SIZE \+ u64::from\(u32::from\(payload_size\)\)", size_body):
        raise TranslateError("TransactionBuilder::size: unexpected shape %r" % size_body.strip())
    out.append("Definition builder_size (payload_size : N) : N := %s." % parse_body(size_body, known, {"payload_size": "u32"}))
    # make_transaction: the `Add` arm
    mt = block_after(construct, r"pub fn make_transaction\s*\(")
    m = re.search(r"GivenEnergy::Add\s*\{\s*num_sigs\s*,\s*energy\s*\}\s*=>\s*(.+?),\s*\}\s*;", mt, flags=re.S)
    if not m:
        raise TranslateError("make_transaction: Add arm not found")
    out.append("Definition given_energy_add (size num_sigs energy : N) : N := %s." %
               parse_body(m.group(1), known, {"size": "u64", "num_sigs": "u32", "energy": "u64"}))
    if not re.search(r"GivenEnergy::Absolute\(energy\)\s*=>\s*energy\s*,", mt):
        raise TranslateError("make_transaction: Absolute arm not found")
    if not re.search(r"TransactionBuilder::new\(sender, nonce, expiry, payload\)", mt) or \
            not re.search(r"builder\.construct\(cost\)", mt):
        raise TranslateError("make_transaction: unexpected shape")
    cons = block_after(tb, r"pub fn construct\(mut self")
    if not re.search(r"let size = self\.size\(\);\s*self\.header\.energy_amount = f\(size\);", cons):
        raise TranslateError("TransactionBuilder::construct: unexpected shape")
    # token operation costs
    tok = block_after(construct, r"fn token_operations_txn_energy\s*\(")
    mhead = re.match(r"\s*(cost::[A-Z_]+)\s*\+", tok)
    if not mhead:
        raise TranslateError("token_operations_txn_energy: unexpected shape")
    arms = []
    mm = block_after(tok, r"\.map\(\|op\| match op\s*\{")
    for arm in re.finditer(r"((?:\|?\s*Upward::Known\(TokenOperation::[A-Za-z]+\(_\)\)\s*)+)=>\s*(cost::[A-Z_]+)\s*,", mm):
        for v in re.findall(r"TokenOperation::([A-Za-z]+)", arm.group(1)):
            arms.append((v, arm.group(2).split("::")[-1]))
    if not re.search(r"Upward::Unknown\(_\)\s*=>\s*Default::default\(\)", mm):
        raise TranslateError("token_operations_txn_energy: Unknown arm not found")
    for _, c in arms:
        if c not in known:
            raise TranslateError("unknown cost %s" % c)
    out.append("Definition token_op_cost (op : string) : N :=")
    for v, c in arms:
        out.append('  if String.eqb op "%s" then %s else' % (v, c))
    out.append("  0.")
    out.append("Definition token_operations_energy (ops : list string) : N := %s + fold_right N.add 0 (map token_op_cost ops)."
               % mhead.group(1).split("::")[-1])
    known["token_operations_energy"] = ("fn", ["list string"])
    # builders
    builders = []
    for m in re.finditer(r"pub fn ([a-z_]+)\s*\(", construct):
        name = m.group(1)
        if name in ("make_transaction", "new", "construct", "sign", "extend", "add_sponsor", "sponsor", "finalize"):
            continue
        body = block_after(construct[m.start():], r"pub fn " + name + r"\s*\(")
        if "make_transaction" not in body:
            continue
        g = re.search(r"GivenEnergy::Add\s*\{([^}]*)\}", body)
        if not g:
            raise TranslateError("builder %s: no GivenEnergy::Add" % name)
        fields = g.group(1)
        if not re.search(r"\bnum_sigs\b", fields):
            raise TranslateError("builder %s: num_sigs not passed" % name)
        e = re.search(r"energy\s*:\s*(.+?)\s*(?:,\s*num_sigs\s*,?\s*$|,\s*$|$)", fields.strip(), flags=re.S)
        # Rust types of the identifiers the energy expression may mention: integer parameters of the builder,
        # and locals bound by `let x = <..> as uN;` (a list when produced by `.map(..).collect()`)
        hint = {}
        sig = construct[m.end():construct.index("->", m.end())]
        for pm in re.finditer(r"([a-z_][a-z0-9_]*)\s*:\s*(u8|u16|u32|u64|Energy)\b", sig):
            hint[pm.group(1)] = rust_ty(pm.group(2))
        for lm in re.finditer(r"let ([a-z_][a-z0-9_]*) = (.+?);", body, flags=re.S):
            cast = re.search(r"\bas (u8|u16|u32|u64)\b", lm.group(2))
            if cast:
                hint[lm.group(1)] = ("list " if ".map(" in lm.group(2) else "") + cast.group(1)
            elif re.search(r"\.size\(\)\s*$", lm.group(2).strip()):
                hint[lm.group(1)] = "u64"
        params = []
        if e:
            expr = e.group(1).strip().rstrip(",")
            p = P(tokens(expr), known, hint=hint)
            s, t = p.expr()
            p.done()
            if t not in ("u64", "lit", "any"):
                raise TranslateError("builder %s: energy expression of type %s" % (name, t))
            for x in p.free:
                if x not in hint:
                    raise TranslateError("builder %s: cannot type the identifier %s" % (name, x))
            params = [(x, gallina_ty(hint[x])) for x in p.free]
        else:
            # shorthand `energy`: a parameter, or a local `let energy = ...`
            le = re.search(r"let energy = (.+?);", body, flags=re.S)
            if not le:
                s, params = "energy", [("energy", "N")]
            elif re.match(r"if payload\.keys_with_proofs\.is_some\(\)\s*\{\s*(cost::[A-Z_]+)\s*\}\s*else\s*\{\s*(cost::[A-Z_]+)\s*\}", le.group(1).strip()):
                mm2 = re.match(r"if payload\.keys_with_proofs\.is_some\(\)\s*\{\s*(cost::[A-Z_]+)\s*\}\s*else\s*\{\s*(cost::[A-Z_]+)\s*\}", le.group(1).strip())
                a, b = mm2.group(1).split("::")[-1], mm2.group(2).split("::")[-1]
                if a not in known or b not in known:
                    raise TranslateError("builder %s: unknown cost" % name)
                a, b = a, b
                s, params = "if with_keys then %s else %s" % (a, b), [("with_keys", "bool")]
            elif re.match(r"token_operations_txn_energy\(&operations\)", le.group(1).strip()):
                s, params = "token_operations_energy ops", [("ops", "list string")]
            else:
                raise TranslateError("builder %s: unsupported energy binding %r" % (name, le.group(1)[:60]))
        ps = "".join(" (%s : %s)" % q for q in params)
        out.append("Definition cost_%s%s : N := %s." % (name, ps, s))
        builders.append((name, params))
    if len(builders) < 20:
        raise TranslateError("only %d builders recognised" % len(builders))
    out.append("")
    out.append("(* energy_amount a builder writes into the header *)")
    out.append("Definition builder_energy (type_cost payload_size num_sigs : N) : N :=")
    out.append("  given_energy_add (builder_size payload_size) num_sigs type_cost.")
    return "\n".join(out) + "\n", builders
