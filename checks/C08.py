"""C08 - identity credentials: issuance verifies, tampering fails, anonymity revocable.

Proof: Props/C08.v (Shamir reconstruction in every field/module, revocation = decrypt-and-combine over any
>= threshold revokers, counter <= max_accounts range statement, completeness of the composed proof relative
to its parts, transcript binds every absorbed field).
Tie: the REAL pipeline (generate_pio -> validate_request -> sign -> create_credential -> verify_cdi, revokers
decrypting their shares) is run by harness/c08; the Coq model (vm_compute, Z mod r) recomputes every Lagrange
combination (scalars for the PRF key, coefficient vectors over the free module on the decrypted points for
idCredPub, checked with the real curve arithmetic) and the counter decisions.
Direct oracles on the implementation alone: pipeline accepts; >= t shares reconstruct, t-1 do not;
single-field perturbation stream (with and without re-signing by the account keys) is rejected.
"""
import json
import os
import subprocess
from . import common as c

R = 0x73eda753299d7d483339d80809a1d80553bda402fffe5bfeffffffff00000001


def zl(xs):
    return "[" + "; ".join("%d" % x for x in xs) + "]%Z"


def zpairs(ps):
    return "[" + "; ".join("(%d, %d)" % (a, b) for a, b in ps) + "]%Z"


def run_many(binp, arglists, timeout):
    """Run several harness processes in parallel; returns list of (rc, output)."""
    procs = []
    env = dict(os.environ)
    env["RUST_BACKTRACE"] = "0"
    for a in arglists:
        procs.append(subprocess.Popen([binp] + [str(x) for x in a], stdout=subprocess.PIPE, stderr=subprocess.STDOUT, env=env))
    res = []
    for p in procs:
        try:
            out = p.communicate(timeout=timeout)[0].decode("utf-8", "replace")
            res.append((p.returncode, out))
        except subprocess.TimeoutExpired:
            p.kill()
            out = p.communicate()[0].decode("utf-8", "replace")
            res.append((124, out + "\n[timeout after %ss]" % timeout))
    return res


def jlines(out):
    recs = []
    for l in out.splitlines():
        if l.startswith("{"):
            try:
                recs.append(json.loads(l))
            except ValueError:
                pass
    return recs


def replay(ctx, binp):
    """./check C08 --replay FILE: re-run a dumped verification or a single configuration."""
    obj = json.load(open(ctx.replay))
    rp = obj.get("replay", obj)
    rec = rp.get("case", rp)
    if any(k in rec for k in ("dump", "dump_rs")):
        rc, out = c.run_bin(binp, ["replay"], input=json.dumps(rec).encode(), timeout=600)
        ctx.log("replay verdict:", out.strip()[-300:])
        if '"OK"' in out:
            ctx.violation({"case": rec}, "replayed credential is still ACCEPTED by verify_cdi: %s" % rec.get("name", ""))
    elif "cfg" in rec:
        rc, out = c.run_bin(binp, ["one", rp.get("seed", ctx.seed), rp.get("tier", ctx.tier), rec["cfg"]], timeout=3000)
        ctx.log(out[-3000:])
    ctx.cov["rule"] = "replay"


def run(ctx):
    ctx.assumptions += [
        "group = prime-order module over its scalar field (BLS12-381 G1 / Fr); arkworks curve and pairing arithmetic, SHA3/SHA2, ed25519 are not modelled",
        "rejection of tampered credentials is relative to soundness of the sigma/range proofs (C07/C11), unforgeability of PS signatures "
        "and collision resistance of the transcript hash - exercised by the perturbation stream, not theorems",
        "completeness of the composed credential proof (cdi_complete_partial) uses C07's completeness lemmas for com_mult, com_eq_sig, com_enc_eq and the "
        "And/Replicate adapters; completeness of the range proof (C11) and of the account signatures remain named hypotheses",
        "field encoders are assumed self-delimiting (what Deserial provides, C05); the two uncounted variable-length transcript parts are compared at equal length",
        "prover randomness inside generate_pio/create_credential comes from thread_rng (not seedable); configurations derive from the seed",
        "attribute-list encodings / policy JSON belong to C05/C16",
    ]
    ok, info = c.coq_prove(ctx)
    proof_broken = None
    if not ok:
        proof_broken = info
        ctx.log("proof obligations broken:", info["failed_file"], info["error"][-600:])
        c.coq_build(ctx, ["Crypto/IdPipeline.vo"])

    ok, binp = c.cargo_build(ctx, "c08")
    if not ok:
        ctx.violation({"layer": "harness build against /repo", "error": binp},
                      "harness no longer builds against the implementation", no_input=True)
        return
    if getattr(ctx, "replay", None):
        replay(ctx, binp)
        return

    nsh = 14
    tmo = 900 if ctx.quick else 2400
    jobs = [["pipeline", ctx.seed, ctx.tier, s, nsh] for s in range(nsh)]
    jobs.append(["sharegen", ctx.seed, 40 if ctx.quick else 600])
    jobs.append(["leq", ctx.seed, 40 if ctx.quick else 400])
    jobs.append(["keylen", ctx.seed])
    ctx.log("running %d harness processes" % len(jobs))
    results = run_many(binp, jobs, tmo)
    recs = []
    for (rc, out), job in zip(results, jobs):
        rs = jlines(out)
        recs += rs
        if rc != 0 or (job[0] == "pipeline" and not any(r.get("k") == "sharddone" for r in rs)):
            ctx.violation({"layer": "harness run", "job": job, "rc": rc, "tail": out[-1500:]},
                          "harness process %s crashed or timed out" % job, no_input=True)
    by = {}
    for r in recs:
        by.setdefault(r.get("k"), []).append(r)
    ctx.log("records:", {k: len(v) for k, v in by.items()})

    seen, nontrivial = set(), set()
    dist = {}

    def bump(k, n=1):
        dist[k] = dist.get(k, 0) + n

    vcount = {}
    CAP = 4  # replay files per class of failure (the totals are reported in evidence)

    def capped(cls):
        vcount[cls] = vcount.get(cls, 0) + 1
        return vcount[cls] > CAP

    def viol(rec, what):
        if capped(" ".join(what.split()[:3])):
            return
        small = {k: v for k, v in rec.items() if k not in ("subsets",)}
        ctx.violation({"case": small, "seed": ctx.seed, "tier": ctx.tier,
                       "rerun": "harness/c08: c08 one %s %s %s" % (ctx.seed, ctx.tier, rec.get("cfg"))}, what)

    # ---------------------------------------------------------------- issuance
    ncfg_ok = 0
    for r in by.get("issue", []):
        key = c.digest(["issue", r["cfg"], r["n"], r["t"], r["v1"]])
        seen.add(key)
        if r["bad_threshold"]:
            bump("issue_bad_threshold")
            if r.get("validate") == "OK" or r.get("issue") == "OK":
                viol(r, "identity provider ACCEPTED a request with threshold %d above the %d revokers" % (r["t"], r["n"]))
            continue
        ncfg_ok += 1
        good = r.get("pio") == "Ok" and r.get("validate") == "OK" and r.get("issue") == "OK" and (r["v1"] or r.get("initial_cdi") == "OK")
        bump("issue_v1" if r["v1"] else "issue_v0")
        bump("issue_provider_%s" % ("superset" if r.get("provider_superset") else "exact"))
        if good:
            nontrivial.add(key)
        else:
            viol(r, "honest identity request rejected (n=%d t=%d %s): pio=%s validate=%s issue=%s initial_cdi=%s" % (
                r["n"], r["t"], "v1" if r["v1"] else "v0", r.get("pio"), r.get("validate"), r.get("issue"), r.get("initial_cdi")))
    done = {r["cfg"] for r in by.get("cfgdone", [])}
    issued = {r["cfg"] for r in by.get("issue", []) if not r["bad_threshold"] and r.get("issue") == "OK"}
    if issued - done and not ctx.violations:
        ctx.violation({"layer": "harness run", "unfinished": sorted(issued - done)}, "configurations did not finish", no_input=True)

    # ---------------------------------------------------------------- model evaluation (one batch)
    exprs, slots = [], []

    def ask(expr, tag):
        exprs.append(expr)
        slots.append(tag)

    def sub_pts(rec, s):
        return [rec["pts"][i] for i in s["ix"]]

    for r in by.get("prf", []):
        if "error" in r:
            continue
        sh = [int(x, 16) for x in r["shares"]]
        ask("map c08_reveal [%s]" % "; ".join(zpairs([(r["pts"][i], sh[i]) for i in s["ix"]]) for s in r["subsets"]), ("prf", id(r)))
    for r in by.get("icp", []):
        ask("map c08_coeffs [%s]" % "; ".join(zl(sub_pts(r, s)) for s in r["subsets"]), ("icp", id(r)))
    for r in by.get("share", []):
        if "error" in r:
            continue
        sh = [int(x, 16) for x in r["shares"]]
        ask("(c08_share %d %s %s, map c08_reveal [%s])" % (
            int(r["secret"], 16), zl([int(x, 16) for x in r["coeffs"]]), zl(r["pts"]),
            "; ".join(zpairs([(r["pts"][i], sh[i]) for i in s["ix"]]) for s in r["subsets"])), ("share", id(r)))
    pairs = sorted({(r["a"], r["b"]) for r in by.get("leq", [])} | {(r["counter"], r["max"]) for r in by.get("cred", [])})
    for a, b in pairs:
        ask("(c08_counter_ok %d %d, c08_range_stmt %d %d)" % (a, b, a, b), ("leq", a, b))
    model = {}
    model_failed = None
    try:
        # round-robin over the parallel coqc shards: the expensive (large n) cases are adjacent in the list
        nsh_eval = 16
        order = sorted(range(len(exprs)), key=lambda i: (i % nsh_eval, i))
        per = (len(exprs) + nsh_eval - 1) // nsh_eval
        terms = c.coq_eval(ctx, "c08", "From Coq Require Import ZArith List. Import ListNotations.\n"
                           "From CB Require Import Crypto.IdPipeline.", [exprs[i] for i in order], shard=max(1, per), timeout=1500)
        for i, t in zip(order, terms):
            tag = slots[i]
            if tag[0] in ("prf", "icp"):
                for j, x in enumerate(t):
                    model[(tag[0], tag[1], j)] = x
            elif tag[0] == "share":
                model[("share", tag[1], -1)] = t[0]
                for j, x in enumerate(t[1]):
                    model[("share", tag[1], j)] = x
            else:
                model[tag] = t
    except Exception as e:  # the model does not build/evaluate: a broken tie
        model_failed = repr(e)[-1500:]
        ctx.log("model evaluation failed:", model_failed)
    ctx.cov["evaluations"] += len(model)

    lin_lines, lin_meta = [], []

    # ---------------------------------------------------------------- PRF key revocation
    for r in by.get("prf", []):
        if "error" in r:
            viol(r, "PRF key revocation failed for n=%d t=%d: %s" % (r["n"], r["t"], r["error"]))
            continue
        t = r["t"]
        for j, s in enumerate(r["subsets"]):
            k = len(s["ix"])
            bump("prf_subsets_ge_t" if k >= t else "prf_subsets_lt_t")
            key = c.digest(["prf", r["cfg"], sorted(s["ix"]), s["ix"]])
            seen.add(key)
            rec = {"cfg": r["cfg"], "n": r["n"], "t": t, "pts": r["pts"], "subset": s["ix"], "got": s["got"], "secret": r["secret"], "shares": r["shares"]}
            if k >= t and s["got"] != r["secret"]:
                viol(rec, "PRF key: %d >= threshold %d revokers (points %s) do NOT reconstruct the holder's PRF key" % (k, t, sub_pts(r, s)))
            elif k < t and s["got"] == r["secret"]:
                viol(rec, "PRF key: only %d < threshold %d revokers reconstruct the PRF key" % (k, t))
            else:
                nontrivial.add(key)
            m = model.get(("prf", id(r), j))
            if m is not None and s["got"] != "PANIC" and "%064x" % (m % R) != s["got"]:
                rec["model"] = "%064x" % (m % R)
                rec["theorem"] = "shamir_reveal / revocation_correct_prf (model proved, implementation disagrees)"
                viol(rec, "reveal_prf_key disagrees with the proved model on points %s" % sub_pts(r, s))
            ctx.cov["traces_validated_against_impl"] += 1

    # ---------------------------------------------------------------- idCredPub revocation
    for r in by.get("icp", []):
        t = r["t"]
        for j, s in enumerate(r["subsets"]):
            k = len(s["ix"])
            bump("icp_subsets_ge_t" if k >= t else "icp_subsets_lt_t")
            key = c.digest(["icp", r["cfg"], r["want"], s["ix"]])
            seen.add(key)
            rec = {"cfg": r["cfg"], "n": r["n"], "t": t, "pts": r["pts"], "subset": s["ix"], "got": s["got"], "want": r["want"]}
            if k >= t and s["got"] != r["want"]:
                viol(rec, "idCredPub: %d >= threshold %d revokers (points %s) do NOT reconstruct id_cred_sec * g" % (k, t, sub_pts(r, s)))
            elif k < t and s["got"] == r["want"]:
                viol(rec, "idCredPub: only %d < threshold %d revokers reconstruct idCredPub" % (k, t))
            else:
                nontrivial.add(key)
            m = model.get(("icp", id(r), j))
            if m is not None and s["got"] != "PANIC":
                lin_lines.append(json.dumps({"pts": [r["D"][i] for i in s["ix"]], "coef": ["%064x" % (x % R) for x in m], "want": s["got"]}))
                lin_meta.append(("reveal_id_cred_pub", rec, m))

    # ---------------------------------------------------------------- direct sharing cases
    for r in by.get("share", []):
        if "error" in r:
            viol(r, "secret_sharing::share panicked for n=%d t=%d" % (r["n"], r["t"]))
            continue
        bump("share_cases")
        key = c.digest(["share", r["secret"], r["pts"], r["coeffs"]])
        seen.add(key)
        nontrivial.add(key)
        if len(r["coeffs"]) != r["t"] - 1:
            viol(r, "share: %d non-constant coefficients for threshold %d" % (len(r["coeffs"]), r["t"]))
        m = model.get(("share", id(r), -1))
        if m is not None and ["%064x" % (x % R) for x in m] != r["shares"]:
            viol(dict(r, model=[("%064x" % (x % R)) for x in m]), "secret_sharing::share disagrees with the model's Horner evaluation (n=%d t=%d)" % (r["n"], r["t"]))
        for j, s in enumerate(r["subsets"]):
            k = len(s["ix"])
            rec = {"n": r["n"], "t": r["t"], "pts": r["pts"], "subset": s["ix"], "got": s["got"], "secret": r["secret"], "shares": r["shares"]}
            if k >= r["t"] and (s["got"] != r["secret"] or s["gotg"] != r["secret_g"]):
                viol(rec, "secret_sharing::reveal(_in_group): %d >= t=%d shares do not give the secret" % (k, r["t"]))
            if k < r["t"] and s["got"] == r["secret"] and len(r["coeffs"]) == r["t"] - 1:
                viol(rec, "secret_sharing::reveal: %d < t=%d shares give the secret" % (k, r["t"]))
            mm = model.get(("share", id(r), j))
            if mm is not None:
                if "%064x" % (mm % R) != s["got"]:
                    viol(dict(rec, model="%064x" % (mm % R)), "secret_sharing::reveal disagrees with the proved model")
                lin_lines.append(json.dumps({"pts": [r["g"]], "coef": ["%064x" % (mm % R)], "want": s["gotg"]}))
                lin_meta.append(("reveal_in_group", rec, mm))
            ctx.cov["traces_validated_against_impl"] += 1

    # ---------------------------------------------------------------- lincheck (real curve arithmetic)
    if lin_lines:
        rc, out = c.run_bin(binp, ["lincheck"], timeout=1200, input=("\n".join(lin_lines) + "\n").encode())
        verdicts = [l for l in out.splitlines() if l in ("ok", "MISMATCH", "ERROR")]
        if len(verdicts) != len(lin_lines):
            ctx.violation({"layer": "lincheck", "output": out[-1000:]}, "lincheck harness failed", no_input=True)
        nbad = 0
        for v, (what, rec, m) in zip(verdicts, lin_meta):
            ctx.cov["traces_validated_against_impl"] += 1
            if v != "ok":
                nbad += 1
                if nbad <= 3:
                    rec = dict(rec, model_coefficients=[("%064x" % (x % R)) for x in (m if isinstance(m, list) else [m])],
                               theorem="shamir_reveal_in_group / revocation_correct (model proved, implementation disagrees)")
                    viol(rec, "%s: implementation point differs from the model's Lagrange combination of the decrypted shares" % what)
        ctx.notes["lincheck"] = {"lines": len(lin_lines), "mismatches": nbad}

    # ---------------------------------------------------------------- credentials and counters
    for r in by.get("cred", []):
        a, b = r["counter"], r["max"]
        m = model.get(("leq", a, b))
        want = a <= b
        if m is not None and ((m[0] == "true") != want or (m[1] == "true") != want):
            ctx.violation({"a": a, "b": b, "model": m, "theorem": "counter_boundary_decision"}, "model predicate disagrees with a <= b", no_input=True)
        key = c.digest(["cred", r["cfg"], r["acct"], a, b])
        seen.add(key)
        acc = r.get("created") == "Ok" and r.get("verified") == "OK"
        bump("cred_%s_%s" % (r["acct"], "within" if want else "above"))
        if r.get("created") == "Ok":
            bump("cred_holder_context_%s" % ("superset" if r.get("holder_superset") else "exact"))
            if not r.get("ar_keys_ok", True):
                viol(r, "ar_data of the created credential covers revokers %s but the identity was issued for %s (holder context %s)" % (
                    r.get("ar_keys"), r.get("chosen"), "is a strict superset" if r.get("holder_superset") else "= chosen"))
        if want:
            if acc and r.get("roundtrip") == "OK":
                nontrivial.add(key)
            else:
                viol(r, "honest credential REJECTED: n=%d t=%d %s %s counter=%d max_accounts=%d created=%s verified=%s roundtrip=%s" % (
                    r["n"], r["t"], "v1" if r["v1"] else "v0", r["acct"], a, b, r.get("created"), r.get("verified"), r.get("roundtrip")))
        elif acc:
            viol(r, "credential with counter %d ABOVE max_accounts %d was created and ACCEPTED by verify_cdi" % (a, b))
        else:
            nontrivial.add(key)
            bump("cred_above_%s" % ("unproducible" if r.get("created") != "Ok" else "rejected"))
        ctx.cov["traces_validated_against_impl"] += 1
    for r in by.get("forged", []):
        # counter above the limit signed by the provider, identity object forged to claim max_accounts = 255
        key = c.digest(["forged", r["cfg"], r["acct"]])
        seen.add(key)
        bump("forged_max_accounts_" + ("rejected" if r.get("verified") != "OK" else "ACCEPTED"))
        if r.get("created") == "Ok" and r.get("verified") == "OK":
            ctx.violation({"case": r, "seed": ctx.seed, "tier": ctx.tier, "how": "c08 replay < this file"},
                          "credential with counter %d above the signed max_accounts %d ACCEPTED by verify_cdi" % (r["counter"], r["max"]))
        else:
            nontrivial.add(key)
    for r in by.get("leq", []):
        a, b = r["a"], r["b"]
        m = model.get(("leq", a, b))
        want = (m[0] == "true") if m is not None else (a <= b)
        if m is not None and (m[0] != m[1] or (m[0] == "true") != (a <= b)):
            ctx.violation({"a": a, "b": b, "model": m, "theorem": "counter_boundary_decision"}, "model predicate disagrees with a <= b", no_input=True)
        key = c.digest(["leq", a, b])
        seen.add(key)
        bump("leq_" + r["honest"])
        if want and r["honest"] != "accept":
            viol(r, "range statement counter=%d <= max=%d: honest proof is %s (model: true)" % (a, b, r["honest"]))
        elif not want and r["honest"] == "accept":
            viol(r, "range statement counter=%d > max=%d ACCEPTED" % (a, b))
        elif not want and any(v == "accept" for _, v in r["forced"]):
            viol(r, "forced range proof for counter=%d > max=%d ACCEPTED" % (a, b))
        else:
            nontrivial.add(key)
        ctx.cov["traces_validated_against_impl"] += 1

    # ---------------------------------------------------------------- provider key length boundary
    # (KF-C08-1, the strict holder-side length check, was repaired in /repo 52335c84c: delta = 0 must succeed)
    for r in by.get("keylen", []):
        key = c.digest(["keylen", r["n"], r["attrs"], r["delta"]])
        seen.add(key)
        bump("keylen_delta_%d_%s" % (r["delta"], "issued" if r.get("issue") == "OK" else "refused"))
        if r.get("issue") != "OK":
            if r["delta"] >= 0:
                viol(r, "provider REFUSED an identity request although its PS key (length %d) covers %d attributes + %d revoker scalars + 5" % (r["len"], r["attrs"], r["m"]))
            else:
                nontrivial.add(key)
            continue
        if r.get("created") == "Ok" and r.get("verified") == "OK":
            nontrivial.add(key)
            continue
        viol(r, "identity object issued with provider key length %d (= n+m+5%+d) but credential created=%s verified=%s: %s" % (
            r["len"], r["delta"], r.get("created"), r.get("verified"), r.get("why", "")))

    # ---------------------------------------------------------------- perturbation stream
    pk = {}
    for r in by.get("pert", []):
        name = r["name"]
        fam = name.split(".")[0]
        for mode in ("raw", "rs"):
            v = r.get(mode)
            if v is None:
                continue
            pk[(fam, mode, v)] = pk.get((fam, mode, v), 0) + 1
            key = c.digest(["pert", r["cfg"], name, mode, pk[(fam, mode, v)]])
            seen.add(key)
            if v == "OK":
                if capped("accepted " + name + mode):
                    continue
                rec = {"cfg": r["cfg"], "name": name, "mode": mode}
                rec["dump" if mode == "raw" else "dump_rs"] = r.get("dump" if mode == "raw" else "dump_rs")
                ctx.violation({"case": rec, "seed": ctx.seed, "tier": ctx.tier,
                               "how": "c08 replay < this file re-runs verify_cdi on the dumped credential and context"},
                              "verify_cdi ACCEPTED a credential with modified %s%s" % (name, " (re-signed by the account keys)" if mode == "rs" else ""))
            elif v != "same-object":
                nontrivial.add(key)
    ctx.notes["failure_classes"] = vcount
    ctx.notes["perturbation_verdicts"] = {"%s/%s/%s" % k: v for k, v in sorted(pk.items())}
    ctx.notes["perturbations_per_credential"] = sorted({r["count"] for r in by.get("pertdone", [])})[-5:]
    ctx.cov["evaluations"] += len(recs)
    ctx.notes["distribution"] = dist
    ctx.notes["configurations"] = {"issued": ncfg_ok, "finished": len(done),
                                   "n_t_pairs": sorted({(r["n"], r["t"]) for r in by.get("issue", []) if not r["bad_threshold"]})}
    ctx.cov["distinct_nontrivial"] = len(nontrivial)
    ctx.cov["rule"] = ("configurations: every (n revokers, threshold t) with 1<=t<=n<=%d x {v0,v1} plus sampled n up to 20 and threshold n+1 (must be refused); "
                       "revoker identities contiguous or sparse u32 incl. 2^32-1; attribute lists of 0-4 attributes, policies revealing none/some/all; "
                       "max_accounts in {0,1,2,3,200,237,254,255}, counters 0,1,max-1,max (accept) and max+1 (reject/unproducible); new and existing accounts; "
                       "provider / holder / chain contexts each = the chosen revokers or a strict superset in which the chosen set is NOT a prefix in id order "
                       "(first omitted, gaps, only the largest ids; ar_data must cover exactly the chosen ones); provider PS key length at n+m+5-1..+2; "
                       "every revoker subset for n<=5 (sizes >= t reconstruct, < t must not), sampled subsets above; perturbation stream (modify / remove / ADD an entry in every map- or list-valued part) over every field of values, "
                       "commitments, proof components, byte flips and context, raw and re-signed; non-trivial = case whose expected verdict was observed on the real code; "
                       "distinct = canonical case hash") % (4 if ctx.quick else 5)
    for k in ("issue", "cred", "prf", "icp", "leq"):
        for r in by.get(k, [])[:1]:
            ctx.cov["samples"].append(json.dumps({kk: vv for kk, vv in r.items() if kk not in ("subsets", "D", "shares", "dump")})[:400])
    for r in by.get("pert", [])[:3]:
        ctx.cov["samples"].append(json.dumps(r)[:200])

    if model_failed:
        ctx.violation({"layer": "model evaluation (Crypto/IdPipeline.v)", "error": model_failed},
                      "the Coq model could not be evaluated on the harness cases", no_input=not ctx.violations)
    if proof_broken:
        found = bool(ctx.violations)
        ctx.violation({"layer": "Coq proof obligations", "broken": proof_broken},
                      "theorem(s) of Props/C08.v no longer check (%s)" % proof_broken["failed_file"], no_input=not found)
    if ctx.tier == "thorough":
        ok, out = c.coqchk(ctx)
        if not ok:
            ctx.violation({"layer": "coqchk", "output": out[-2000:]}, "coqchk rejected Props/C08.vo", no_input=True)
