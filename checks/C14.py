"""C14 - contract host functions: memory safety, totality, protocol limits, charge-before-work.

Pipeline (see design/C14.md):
  0. translators/gen_hostcosts.py: constants.rs -> coq/Gen/HostCosts.v (every run, loud on failure)
  1. Coq: Props/C14.v (host_total, v0_state_le_16k, logs_bounded, charge_before_work, ...)
  2. source-order lint: in every host function the first `tick_energy` precedes the first
     length-proportional copy (the one thing a black-box run cannot observe)
  3. correspondence: scripts of host calls (generated here, seeded) are assembled into Wasm modules by
     harness/c14 and run through the real v0/v1 entry points under several energy budgets; the Coq model
     (Contract/HostRun.v, vm_compute) predicts outcome class, reject code, REMAINING ENERGY, state, logs,
     return value, actions, interrupts.  Direct oracles (limits with the documented constants) are
     evaluated on the implementation's results alone.
"""
import hashlib
import importlib.util
import json
import os
import random
import re

from . import common as c

AMPLE = 10 ** 15
U32 = 1 << 32
U64 = 1 << 64

# ------------------------------------------------------------------------------------------ tables
V0 = {"accept": ([], 4), "simple_transfer": ([4, 8], 4), "send": ([8, 8, 4, 4, 8, 4, 4], 4),
      "combine_and": ([4, 4], 4), "combine_or": ([4, 4], 4), "get_parameter_size": ([], 4),
      "get_parameter_section": ([4, 4, 4], 4), "get_policy_section": ([4, 4, 4], 4), "log_event": ([4, 4], 4),
      "load_state": ([4, 4, 4], 4), "write_state": ([4, 4, 4], 4), "resize_state": ([4], 4), "state_size": ([], 4),
      "get_init_origin": ([4], 0), "get_receive_invoker": ([4], 0), "get_receive_self_address": ([4], 0),
      "get_receive_self_balance": ([], 8), "get_receive_sender": ([4], 0), "get_receive_owner": ([4], 0),
      "get_slot_time": ([], 8)}
V1 = {"invoke": ([4, 4, 4], 8), "write_output": ([4, 4, 4], 4), "get_parameter_size": ([4], 4),
      "get_parameter_section": ([4, 4, 4, 4], 4), "get_policy_section": ([4, 4, 4], 4), "log_event": ([4, 4], 4),
      "get_init_origin": ([4], 0), "get_receive_invoker": ([4], 0), "get_receive_self_address": ([4], 0),
      "get_receive_self_balance": ([], 8), "get_receive_sender": ([4], 0), "get_receive_owner": ([4], 0),
      "get_receive_entrypoint_size": ([], 4), "get_receive_entrypoint": ([4], 0), "get_slot_time": ([], 8),
      "state_lookup_entry": ([4, 4], 8), "state_create_entry": ([4, 4], 8), "state_delete_entry": ([4, 4], 4),
      "state_delete_prefix": ([4, 4], 4), "state_iterate_prefix": ([4, 4], 8), "state_iterator_next": ([8], 8),
      "state_iterator_delete": ([8], 4), "state_iterator_key_size": ([8], 4),
      "state_iterator_key_read": ([8, 4, 4, 4], 4), "state_entry_read": ([8, 4, 4, 4], 4),
      "state_entry_write": ([8, 4, 4, 4], 4), "state_entry_size": ([8], 4), "state_entry_resize": ([8, 4], 4),
      "verify_ed25519_signature": ([4, 4, 4, 4], 4), "verify_ecdsa_secp256k1_signature": ([4, 4, 4], 4),
      "hash_sha2_256": ([4, 4, 4], 0), "hash_sha3_256": ([4, 4, 4], 0), "hash_keccak_256": ([4, 4, 4], 0),
      "upgrade": ([4], 8)}

# memory layout used by the generator
SLOTS_END = 1024      # 128 result slots
DATA = 1024           # 256 patterned bytes
NAME_OK, NAME_NODOT, NAME_BADCH, NAME_LONG = 1280, 1290, 1300, 1400
ADDR = 1536
SIG, PK = 1600, 1664
DEST = 1700
PAYLOAD = 2048
DUMP_LEN = 2048


def pattern(n, k=7, a=3):
    return bytes(((i * k + a) & 0xff) for i in range(n))


# ------------------------------------------------------------------------------------------ keccak (hashlib has no keccak-256)
def _keccak_f(st):
    RC = [0x0000000000000001, 0x0000000000008082, 0x800000000000808A, 0x8000000080008000, 0x000000000000808B,
          0x0000000080000001, 0x8000000080008081, 0x8000000000008009, 0x000000000000008A, 0x0000000000000088,
          0x0000000080008009, 0x000000008000000A, 0x000000008000808B, 0x800000000000008B, 0x8000000000008089,
          0x8000000000008003, 0x8000000000008002, 0x8000000000000080, 0x000000000000800A, 0x800000008000000A,
          0x8000000080008081, 0x8000000000008080, 0x0000000080000001, 0x8000000080008008]
    ROT = [[0, 36, 3, 41, 18], [1, 44, 10, 45, 2], [62, 6, 43, 15, 61], [28, 55, 25, 21, 56], [27, 20, 39, 8, 14]]
    M = (1 << 64) - 1
    rol = lambda x, n: ((x << n) | (x >> (64 - n))) & M if n else x
    for rnd in range(24):
        C = [st[x][0] ^ st[x][1] ^ st[x][2] ^ st[x][3] ^ st[x][4] for x in range(5)]
        D = [C[(x - 1) % 5] ^ rol(C[(x + 1) % 5], 1) for x in range(5)]
        st = [[st[x][y] ^ D[x] for y in range(5)] for x in range(5)]
        B = [[0] * 5 for _ in range(5)]
        for x in range(5):
            for y in range(5):
                B[y][(2 * x + 3 * y) % 5] = rol(st[x][y], ROT[x][y])
        st = [[B[x][y] ^ ((~B[(x + 1) % 5][y]) & B[(x + 2) % 5][y]) for y in range(5)] for x in range(5)]
        st[0][0] ^= RC[rnd]
    return st


def keccak256(data):
    rate = 136
    p = bytearray(data)
    p.append(0x01)
    while len(p) % rate:
        p.append(0)
    p[-1] |= 0x80
    st = [[0] * 5 for _ in range(5)]
    for off in range(0, len(p), rate):
        blk = p[off:off + rate]
        for i in range(rate // 8):
            st[i % 5][i // 5] ^= int.from_bytes(blk[8 * i:8 * i + 8], "little")
        st = _keccak_f(st)
    out = b""
    for i in range(4):
        out += st[i % 5][i // 5].to_bytes(8, "little")
    return out


def digest(kind, data):
    if kind == 0:
        return hashlib.sha256(data).digest()
    if kind == 1:
        return hashlib.sha3_256(data).digest()
    return keccak256(data)


# ------------------------------------------------------------------------------------------ generator
class G:
    def __init__(self, seed):
        self.r = random.Random(seed * 7919 + 14)
        self.dist = {}

    def pick(self, xs):
        return xs[self.r.randrange(len(xs))]

    # two streams: "valid" scripts contain only calls that cannot trap (boundary values included) and run to
    # completion; "malformed" scripts have a valid prefix and hostile calls only at the end (a trap ends the run)
    def begin(self, n_ops):
        self.op_i = 0
        self.stream = "valid" if self.r.random() < 0.55 else "malformed"
        self.hostile_from = n_ops + 1000 if self.stream == "valid" else self.r.randrange(max(0, n_ops - 2), max(n_ops, 1))
        self.valid = self.hostile_from > 0
        return n_ops

    def tick(self):
        self.valid = self.op_i < self.hostile_from
        self.op_i += 1

    def chance(self, p):
        return self.r.random() < p

    def hostile_u32(self):
        return self.pick([0, 1, U32 - 1, U32 - 2, 1 << 31, (1 << 31) - 1, 65535, 65536, 65537, self.r.randrange(U32)])

    def ptr(self, L, M, valid=0.7, region=None):
        """pointer for an access of L bytes in a memory of M bytes"""
        if getattr(self, "valid", False) and L <= M:
            if self.chance(0.12):
                return M - L          # exact fit at the end of memory
            valid = 1.0
        if self.chance(valid) and L <= M:
            lo, hi = region if region else (DATA, DEST + 300)
            if L <= hi - lo:
                return self.r.randrange(lo, hi - L + 1)
            return self.r.randrange(0, M - L + 1)
        return self.pick([max(M - L, 0), max(M - L, 0) + 1, M - 1, M, M + 1, U32 - 1, (U32 - L) % U32, (U32 - L + 1) % U32,
                          1 << 31, 0, self.r.randrange(U32)])

    def length(self, extra=()):
        return self.pick([0, 1, 2, self.r.randrange(3, 65), 255, 256, 511, 512, 513, 1024, 1025] + list(extra))

    def hostile_len(self, M):
        if getattr(self, "valid", False):
            return self.pick([0, 1, 17, 300, 512, 2000])
        return self.pick([65535, 65536, 65537, M, M + 1, U32 - 1, 1 << 31, 16384, 16385, self.r.randrange(U32)])

    # -- script skeleton
    def base(self, ver, kind, pv=None, pages=None):
        pv = pv or self.pick([4, 5, 6, 7])
        pages = pages or (2 if self.chance(0.08) else 1)
        M = pages * 65536
        name_long = b"a." + b"b" * 99          # 101 bytes: one too long for a receive name
        data = [[DATA, pattern(256)], [NAME_OK, b"c.recv"], [NAME_NODOT, b"crecv"], [NAME_BADCH, b"c.r\x80cv"],
                [NAME_LONG, name_long], [ADDR, pattern(40, 5, 11)], [SIG, pattern(63, 3, 1) + b"\xff"],
                [PK, pattern(33, 11, 2)]]
        return {"ver": ver, "kind": kind, "pv": pv, "pages": pages, "param": b"", "policy": b"", "sender": self.pick(["acc", "con"]),
                "state0": b"" if ver == 0 else [], "data": data, "calls": [], "ret": 0, "resp": [], "M": M, "tags": [],
                "fixed_energies": None, "pre_violation": False}

    def call(self, sc, f, *args):
        """args: ints (constants) or ('s', slot)"""
        sc["calls"].append((f, list(args)))
        return len(sc["calls"]) - 1

    def dump(self, sc, how=None):
        if len(sc["calls"]) > 120:
            return
        how = how or "log"
        if how == "log":
            for off in range(0, DUMP_LEN, 512):
                self.call(sc, "log_event", off, 512)
        elif how == "state":       # v0: append the dump to the state
            j = self.call(sc, "state_size")
            self.call(sc, "write_state", 0, DUMP_LEN, ("s", j))
        elif how == "entry":       # v1: into a fresh entry
            j = self.call(sc, "state_create_entry", DATA + 200, 9)
            self.call(sc, "state_entry_write", ("s", j), 0, DUMP_LEN, 0)
        elif how == "rv":
            self.call(sc, "write_output", 0, DUMP_LEN, 0)

    def finish(self, sc, tag, ret=None):
        sc["tags"].append(tag)
        sc["tags"].append(getattr(self, "stream", "malformed"))
        self.dist[tag] = self.dist.get(tag, 0) + 1
        self.dist["stream_" + getattr(self, "stream", "malformed")] = self.dist.get("stream_" + getattr(self, "stream", "malformed"), 0) + 1
        if getattr(self, "stream", "") == "valid" and ret is None:
            sc["ret"] = 0 if (sc["ver"] == 1 or sc["kind"] == "init") else sc["ret"]
            if self.chance(0.1):
                sc["ret"] = self.pick([-1, -(1 << 31), -42])
            return sc
        if ret is not None:
            sc["ret"] = ret
        elif self.chance(0.12):
            sc["ret"] = self.pick([-1, -2, -(1 << 31), 1, 7, (1 << 31) - 1])
        return sc

    # -- v0 scenarios
    def v0_state(self):
        kind = self.pick(["init", "recv"])
        sc = self.base(0, kind)
        M = sc["M"]
        if kind == "recv":
            sc["state0"] = pattern(self.pick([0, 1, 100, 16383, 16384, 5000]), 13, 5)
        cur = len(sc["state0"])
        for _ in range(self.begin(self.r.randrange(3, 9))):
            self.tick()
            op = self.pick(["write_state", "write_state", "load_state", "resize_state", "state_size"])
            if op == "state_size":
                self.call(sc, op)
            elif op == "resize_state":
                n = self.pick([0, 1, cur, cur + 1, 16383, 16384, 16385, 65536, U32 - 1, self.r.randrange(20000)])
                self.call(sc, op, n)
                if n <= 16384:
                    cur = n
            else:
                L = self.pick([0, 1, 10, 300, 16384, 16385, self.r.randrange(2000), self.hostile_len(M)]) if self.chance(0.8) else self.hostile_len(M)
                p = self.ptr(L, M, 0.75, (DATA, DATA + 256) if L <= 256 else None)
                off = self.pick([0, cur, max(cur - 1, 0), cur + 1, 16383, 16384, 16385, U32 - 1, self.r.randrange(cur + 1)])
                if self.valid:
                    off = self.pick([0, cur, max(cur - 1, 0), self.r.randrange(cur + 1)])
                self.call(sc, op, p, L, off)
                if op == "write_state" and off <= cur and p + L <= M:
                    cur = max(cur, min(off + L, 16384))
        self.dump(sc, self.pick(["log", "state"]))
        if sc["kind"] == "recv":
            sc["ret"] = -1 if self.chance(0.5) else 0
            if sc["ret"] == 0:
                sc["calls"].insert(0, ("accept", []))      # a receive must return a valid action index
                sc["calls"] = [(f, [(a[0], a[1] + 1) if isinstance(a, tuple) else a for a in args]) for f, args in sc["calls"]]
        return self.finish(sc, "v0_state", sc["ret"])

    def logs(self, ver):
        kind = self.pick(["init", "recv"])
        sc = self.base(ver, kind)
        M = sc["M"]
        self.begin(0)
        self.stream, self.valid = "valid", True
        if self.chance(0.3):      # many logs: the P4 count limit
            n = self.pick([63, 64, 65, 66, 70])
            for i in range(n):
                self.call(sc, "log_event", DATA + (i % 200), self.pick([0, 1, 2]))
            if ver == 1 and kind == "recv" and self.chance(0.5):
                # a transfer interrupt clears the logs, a query does not
                if self.chance(0.5) or sc["pv"] == 4:
                    self.call(sc, "invoke", 0, ADDR, 40)
                else:
                    self.call(sc, "invoke", 4, 0, 0)
                for i in range(self.pick([1, 3, 64])):
                    if len(sc["calls"]) < 126:
                        self.call(sc, "log_event", DATA + i, 1)
            self.dump(sc, "state" if ver == 0 else "entry")
            return self.finish(sc, "v%d_manylogs" % ver, 0 if kind == "init" or ver == 1 else -3)
        for _ in range(self.begin(self.r.randrange(2, 8))):
            self.tick()
            L = self.pick([0, 1, 17, 511, 512, 513, 514, 1024, self.hostile_len(M)])
            self.call(sc, "log_event", self.ptr(L, M, 0.75), L)
        self.dump(sc, "log")
        return self.finish(sc, "v%d_logs" % ver, (0 if ver == 1 or kind == "init" else -2) if self.stream == "valid" else None)

    def params(self, ver):
        kind = self.pick(["init", "recv"])
        sc = self.base(ver, kind)
        M = sc["M"]
        plen = self.pick([0, 1, 10, 1023, 1024, 1025, 2000])
        sc["param"] = pattern(plen, 17, 9)
        sc["policy"] = pattern(self.pick([0, 5, 300]), 19, 4)
        if ver == 1 and kind == "recv" and self.chance(0.5):
            # get responses into the parameter list first
            self.call(sc, "invoke", 0, ADDR, 40)
            sc["resp"].append({"k": "ok", "bal": "77", "data": pattern(self.pick([0, 3, 40]), 23, 1), "upd": False})
            if self.chance(0.5):
                self.call(sc, "invoke", 0, ADDR, 40)
                sc["resp"].append({"k": "rej", "code": -5, "data": pattern(7, 29, 2), "upd": self.chance(0.3)})
        for _ in range(self.begin(self.r.randrange(3, 9))):
            self.tick()
            which = self.pick(["size", "section", "section", "policy"])
            L = self.pick([0, 1, 5, plen, plen + 1, 1024, 1025, 3000, self.hostile_len(M)])
            off = self.pick([0, 1, max(plen - 1, 0), plen, plen + 1, U32 - 1, (U32 - L) % U32, self.r.randrange(plen + 2)])
            if self.valid:
                off = 0     # every parameter (incl. responses and the policy) has at least 0 bytes
            p = self.ptr(L, M, 0.8, (DATA, DEST + 340) if L <= 600 else None)
            if ver == 0:
                if which == "size":
                    self.call(sc, "get_parameter_size")
                elif which == "section":
                    self.call(sc, "get_parameter_section", p, L, off)
                else:
                    self.call(sc, "get_policy_section", p, L, off)
            else:
                i = self.pick([0, 0, 1, 2, 3, U32 - 1])
                if which == "size":
                    self.call(sc, "get_parameter_size", i)
                elif which == "section":
                    self.call(sc, "get_parameter_section", i, p, L, off)
                else:
                    self.call(sc, "get_policy_section", p, L, off)
        self.dump(sc, "log")
        return self.finish(sc, "v%d_params" % ver, (0 if ver == 1 or kind == "init" else -2) if self.stream == "valid" else None)

    def v0_actions(self):
        kind = "recv" if self.chance(0.9) else "init"
        sc = self.base(0, kind)
        M = sc["M"]
        maxp = 1024 if sc["pv"] == 4 else 65535
        n_act = 0
        self.begin(self.r.randrange(2, 9))
        if self.stream == "valid":
            sc["kind"] = kind = "recv"
        for _ in range(self.op_i, 100):
            if self.op_i >= (self.hostile_from + 2 if self.stream == "malformed" else 8) or len(sc["calls"]) > 8:
                break
            self.tick()
            op = self.pick(["accept", "simple_transfer", "send", "send", "combine_and", "combine_or"])
            if self.valid and n_act == 0:
                op = "accept"
            if op == "accept":
                self.call(sc, op)
                n_act += 1
            elif op == "simple_transfer":
                p = self.ptr(32, M, 0.75)
                self.call(sc, op, p, self.pick([0, 1, U64 - 1, self.r.randrange(U64)]))
                n_act += 1 if p + 32 <= M else 0
            elif op == "send":
                nm = self.pick([(NAME_OK, 6), (NAME_OK, 6), (NAME_OK, 6), (NAME_NODOT, 5), (NAME_BADCH, 6), (NAME_LONG, 101),
                                (NAME_LONG, 100), (NAME_OK, 0), (self.ptr(6, M, 0.0), 6), (NAME_OK, self.hostile_len(M))])
                L = self.pick([0, 1, 100, maxp - 1, maxp, maxp + 1, 1024, 1025, 65535, 65536, self.hostile_len(M)])
                if self.valid:
                    nm = self.pick([(NAME_OK, 6), (NAME_LONG, 100)])
                    L = self.pick([0, 1, 100, 1023, 1024, maxp])
                p = self.ptr(L, M, 0.8)
                self.call(sc, op, self.r.randrange(U64), self.pick([0, U64 - 1]), nm[0], nm[1], self.r.randrange(U64), p, L)
                n_act += 1
            else:
                l = self.pick([0, max(n_act - 1, 0), n_act, n_act + 1, U32 - 1])
                r = self.pick([0, max(n_act - 1, 0), n_act, U32 - 1])
                if self.valid:
                    l, r = self.r.randrange(n_act), self.r.randrange(n_act)
                self.call(sc, op, l, r)
                n_act += 1
        self.dump(sc, "log")
        ret = self.pick([0, max(n_act - 1, 0), max(n_act - 1, 0), n_act, n_act + 5, -1, -7])
        if self.stream == "valid":
            ret = self.pick([0, max(n_act - 1, 0), max(n_act - 1, 0), -7])
        return self.finish(sc, "v0_actions", ret)

    def ctx(self, ver):
        kind = self.pick(["init", "recv"])
        sc = self.base(ver, kind)
        M = sc["M"]
        fs = [("get_init_origin", 32), ("get_receive_invoker", 32), ("get_receive_owner", 32), ("get_receive_self_address", 16),
              ("get_receive_sender", 33 if sc["sender"] == "acc" else 17), ("get_receive_self_balance", None), ("get_slot_time", None)]
        if ver == 1:
            fs += [("get_receive_entrypoint", 4), ("get_receive_entrypoint_size", None)]
        else:
            fs += [("accept", None), ("state_size", None)]
        init_only, recv_only = {"get_init_origin"}, {"get_receive_invoker", "get_receive_owner", "get_receive_self_address",
                                                      "get_receive_sender", "get_receive_self_balance", "get_receive_entrypoint",
                                                      "get_receive_entrypoint_size", "accept"}
        for _ in range(self.begin(self.r.randrange(3, 9))):
            self.tick()
            f, L = self.pick(fs)
            if self.valid and ((kind == "init" and f in recv_only) or (kind == "recv" and f in init_only)):
                f, L = "get_slot_time", None
            if L is None:
                self.call(sc, f)
            else:
                self.call(sc, f, self.ptr(L, M, 0.6, (DEST, DEST + 340)))
        self.dump(sc, "log")
        return self.finish(sc, "v%d_ctx" % ver, (0 if ver == 1 or kind == "init" else -2) if self.stream == "valid" else None)

    # -- v1 scenarios
    KEYS = [(DATA, 0), (DATA, 1), (DATA, 2), (DATA, 3), (DATA + 1, 1), (DATA + 1, 2), (DATA + 7, 4), (DATA + 2, 1)]

    def key(self, sc):
        if self.chance(0.85) or getattr(self, "valid", False):
            return self.pick(self.KEYS)
        L = self.pick([0, 1, 64, 65, 200, self.hostile_len(sc["M"])])
        return (self.ptr(L, sc["M"], 0.3), L)

    def init_kv(self, sc):
        pat = pattern(256)
        kv = {}
        for (p, L) in self.r.sample(self.KEYS, self.r.randrange(0, 6)):
            kv[pat[p - DATA:p - DATA + L]] = pattern(self.pick([0, 1, 8, 33, 700]), 31, len(kv))
        sc["state0"] = sorted(kv.items())

    def handle(self, sc, slots):
        """an entry/iterator handle argument"""
        if slots and self.chance(0.8):
            return ("s", self.pick(slots))
        return self.pick([0, 1, 2, 1 << 32, (1 << 32) + 1, U64 - 1, U64 - 1 - (1 << 62), 1 << 63, self.r.randrange(8), self.r.randrange(U64)])

    def v1_state(self):
        kind = self.pick(["init", "recv", "recv"])
        sc = self.base(1, kind)
        M = sc["M"]
        if kind == "recv":
            self.init_kv(sc)
        eh, ih = [], []
        n = self.begin(self.r.randrange(5, 16))
        for _ in range(n):
            self.tick()
            op = self.pick(["create", "create", "lookup", "lookup", "delete", "write", "write", "read", "read", "size", "resize",
                            "iter", "next", "next", "ksize", "kread", "idel", "dprefix", "invoke_upd"])
            if op in ("create", "lookup"):
                p, L = self.key(sc)
                eh.append(self.call(sc, "state_%s_entry" % op, p, L))
            elif op == "delete":
                p, L = self.key(sc)
                self.call(sc, "state_delete_entry", p, L)
            elif op == "dprefix":
                p, L = self.key(sc)
                self.call(sc, "state_delete_prefix", p, L)
            elif op in ("write", "read"):
                L = self.pick([0, 1, 8, 100, 256, 2000, self.hostile_len(M)]) if self.chance(0.85) else self.hostile_len(M)
                p = self.ptr(L, M, 0.8, (DATA, DEST + 340) if L <= 600 else None)
                off = self.pick([0, 0, 1, 8, 33, 34, 700, 701, U32 - 1, (U32 - L) % U32])
                self.call(sc, "state_entry_%s" % op, self.handle(sc, eh), p, L, off)
            elif op == "size":
                self.call(sc, "state_entry_size", self.handle(sc, eh))
            elif op == "resize":
                self.call(sc, "state_entry_resize", self.handle(sc, eh),
                          self.pick([0, 1, 33, 700, 2000, (1 << 30) + 1, U32 - 1, self.r.randrange(3000)]))
            elif op == "iter":
                p, L = self.key(sc)
                ih.append(self.call(sc, "state_iterate_prefix", p, L))
            elif op == "next":
                eh.append(self.call(sc, "state_iterator_next", self.handle(sc, ih)))
            elif op == "ksize":
                self.call(sc, "state_iterator_key_size", self.handle(sc, ih))
            elif op == "kread":
                L = self.pick([0, 1, 2, 8, 100, self.hostile_len(M)])
                self.call(sc, "state_iterator_key_read", self.handle(sc, ih), self.ptr(L, M, 0.8, (DEST, DEST + 340)), L,
                          self.pick([0, 1, 2, 5, U32 - 1]))
            elif op == "idel":
                self.call(sc, "state_iterator_delete", self.handle(sc, ih))
            elif op == "invoke_upd" and kind == "recv" and self.chance(0.5):
                self.call(sc, "invoke", 0, ADDR, 40)
                sc["resp"].append({"k": "ok", "bal": "5", "data": None, "upd": self.chance(0.6)})
        self.dump(sc, self.pick(["log", "rv"]))
        return self.finish(sc, "v1_state", self.pick([0, 0, 0, -4]) if kind == "recv" else 0)

    def v1_bigentry(self):
        """MAX_ENTRY_SIZE boundary: only with budgets far below the cost of a 1 GiB allocation"""
        self.begin(0)
        self.stream, self.valid = "valid", True
        sc = self.base(1, "init")
        j = self.call(sc, "state_create_entry", DATA, 2)
        self.call(sc, "state_entry_resize", ("s", j), self.pick([1 << 30, (1 << 30) - 1, (1 << 30) + 1]))
        self.call(sc, "state_entry_write", ("s", j), DATA, 16, self.pick([0, 1, (1 << 30) - 8, (1 << 30), U32 - 1]))
        self.call(sc, "state_entry_size", ("s", j))
        self.dump(sc, "log")
        sc["fixed_energies"] = [10 ** 7, 5000]
        return self.finish(sc, "v1_bigentry", 0)

    def v1_rv(self):
        kind = self.pick(["init", "recv"])
        sc = self.base(1, kind)
        M = sc["M"]
        cur = 0
        for _ in range(self.begin(self.r.randrange(2, 8))):
            self.tick()
            L = self.pick([0, 1, 100, 2000, 16384, 16385, 30000, self.hostile_len(M)])
            p = self.ptr(L, M, 0.8, (DATA, DATA + 256) if L <= 256 else None)
            off = self.pick([0, cur, cur + 1, max(cur - 1, 0), 16383, 16384, 16385, U32 - 1, (U32 - L) % U32])
            if self.valid:
                off = self.pick([0, cur, max(cur - 1, 0)])
            self.call(sc, "write_output", p, L, off)
            if off <= cur and p + L <= M:
                cur = max(cur, off + L if sc["pv"] != 4 else min(off + L, 16384))
        self.dump(sc, "log")
        return self.finish(sc, "v1_rv")

    def call_payload(self, plen, name, extra=b"", trunc=None):
        b = (0x1122334455667788).to_bytes(8, "little") + (0x99).to_bytes(8, "little") + (plen & 0xffff).to_bytes(2, "little")
        b += pattern(plen, 37, 6) + len(name).to_bytes(2, "little") + name + (123456789).to_bytes(8, "little") + extra
        return b if trunc is None else b[:trunc]

    def v1_invoke(self):
        sc = self.base(1, "recv" if self.chance(0.92) else "init")
        pv = sc["pv"]
        maxp = 1024 if pv == 4 else 65535
        M = sc["M"]
        pay_at = PAYLOAD
        eh = []
        if self.chance(0.4):
            eh.append(self.call(sc, "state_create_entry", DATA, 2))
            self.call(sc, "log_event", DATA, 3)
        for _ in range(self.begin(self.r.randrange(1, 6))):
            self.tick()
            tag = self.pick([0, 1, 1, 1, 2, 3, 4, 5, 6, 7, 8, 9, 10, U32 - 1])
            if self.valid:
                sc["kind"] = "recv"
                tag = self.pick([0, 1, 1] + ([2, 3, 4] if pv >= 5 else []) + ([5, 6] if pv >= 6 else []) + ([7, 8] if pv >= 7 else []))
            if tag == 1:
                plen = self.pick([0, 1, 50, 1023, 1024, 1025, maxp, maxp + 1]) if self.chance(0.8) else self.r.randrange(0, 3000)
                if plen > 3000 and sc["pages"] == 1:
                    plen = self.pick([1024, 1025])
                name = self.pick([b"recv", b"", b"x" * 99, b"y" * 100, b"ab\x7fcd", b"bad name", b"ok.with.dots"])
                if self.valid:
                    plen = self.pick([0, 1, 50, 1023, 1024])
                    name = self.pick([b"recv", b"", b"x" * 99, b"ok.with.dots"])
                pay = self.call_payload(plen, name, extra=self.pick([b"", b"zz"]))
                if self.chance(0.3) and not self.valid:
                    pay = pay[:self.pick([0, 7, 15, 16, 17, 18, 18 + min(plen, 5), max(len(pay) - 9, 0), len(pay) - 1])]
                sc["data"].append([pay_at, pay])
                L = self.pick([len(pay), len(pay), len(pay), max(len(pay) - 1, 0), len(pay) + 1, self.hostile_len(M)])
                if self.valid:
                    L = len(pay)
                start = pay_at if (self.chance(0.9) or self.valid) else self.ptr(L, M, 0.0)
                pay_at += len(pay) + 8
            else:
                want = {0: 40, 2: 32, 3: 16, 4: 0, 5: 32 + self.pick([0, 1, 100]), 6: 32, 7: 16, 8: 16}.get(tag, 8)
                L = want if (self.chance(0.75) or self.valid) else self.pick([0, want + 1, max(want - 1, 0), 31, 32, 33, self.hostile_len(M)])
                start = self.ptr(L, M, 0.8, (DATA, DATA + 200))
            self.call(sc, "invoke", tag, start, L)
            r = self.pick(["ok", "okd", "okd", "rej", "fail", "default"])
            upd = self.chance(0.25)
            if r == "ok":
                sc["resp"].append({"k": "ok", "bal": str(self.r.randrange(U64)), "data": None, "upd": upd})
            elif r == "okd":
                sc["resp"].append({"k": "ok", "bal": str(self.r.randrange(1000)), "data": pattern(self.pick([0, 2, 33]), 41, 3), "upd": upd})
            elif r == "rej":
                sc["resp"].append({"k": "rej", "code": self.pick([-1, -(1 << 31), -42]), "data": pattern(self.pick([0, 5]), 43, 3), "upd": upd})
            elif r == "fail":
                sc["resp"].append({"k": "fail", "n": self.r.randrange(1, 12), "upd": upd})
            else:
                sc["resp"].append({"k": "ok", "bal": "2387225703656530728", "data": None, "upd": False})
            # observe the effect of the response
            w = self.pick(["psize", "psec", "bal", "entry", "log", "none"])
            if w == "psize":
                self.call(sc, "get_parameter_size", self.pick([0, 1, 2, 3]))
            elif w == "psec":
                self.call(sc, "get_parameter_section", self.pick([0, 1, 2]), DEST, 40, 0)
            elif w == "bal":
                self.call(sc, "get_receive_self_balance")
            elif w == "entry" and eh:
                self.call(sc, "state_entry_size", ("s", eh[0]))
            elif w == "log":
                self.call(sc, "log_event", DATA + 9, 2)
        if pv >= 5 and self.chance(0.3):
            self.call(sc, "upgrade", self.ptr(32, M, 0.6))
            sc["resp"].append({"k": "fail", "n": 7, "upd": False} if self.chance(0.5) else {"k": "ok", "bal": "1", "data": None, "upd": False})
        self.dump(sc, self.pick(["log", "rv"]))
        return self.finish(sc, "v1_invoke", self.pick([0, 0, 0, 3, -9]) if sc["kind"] == "recv" else 0)

    def v1_crypto(self):
        sc = self.base(1, self.pick(["init", "recv"]))
        M = sc["M"]
        nh = 0
        for _ in range(self.begin(self.r.randrange(1, 5))):
            self.tick()
            f = self.pick(["hash_sha2_256", "hash_sha3_256", "hash_keccak_256", "verify_ed25519_signature",
                           "verify_ecdsa_secp256k1_signature"])
            if f.startswith("hash"):
                if nh >= 2:
                    continue
                nh += 1
                L = self.pick([0, 1, 55, 56, 64, 135, 136, 137, 300, 2000, self.hostile_len(M)])
                p = self.ptr(L, M, 0.8, (0, DEST + 340) if L <= 2000 else None)
                out = self.ptr(32, M, 0.75, (DATA, DEST + 300))
                self.call(sc, f, p, L, out)
            elif f == "verify_ed25519_signature":
                L = self.pick([0, 1, 100, 3000, self.hostile_len(M)])
                sig = self.pick([SIG, SIG, SIG, M - 63, U32 - 1, U32 - 64])
                pk = self.pick([PK, PK, M - 32, M - 31, U32 - 32])
                if self.valid:
                    sig, pk = SIG, self.pick([PK, M - 32])
                self.call(sc, f, pk, sig, self.ptr(L, M, 0.8), L)
            else:
                sig = self.pick([SIG, SIG, M - 63, U32 - 1])
                pk = self.pick([PK, PK, M - 33, M - 32, U32 - 33])
                if self.valid:
                    sig, pk = SIG, self.pick([PK, M - 33])
                self.call(sc, f, pk, sig, self.ptr(32, M, 0.75))
        self.dump(sc, "log")
        return self.finish(sc, "v1_crypto")

    def v0_oversized_state(self):
        """precondition violated by the CALLER (state > 16 KiB handed to invoke_receive): the model
        predicts FAULT (a Rust slice panic); not a contract-reachable situation, recorded separately"""
        self.begin(0)
        self.stream, self.valid = "malformed", False
        sc = self.base(0, "recv", pages=1)
        sc["state0"] = pattern(20000, 3, 3)
        self.call(sc, "write_state", DATA, 4, 17000)
        sc["pre_violation"] = True
        return self.finish(sc, "v0_oversized_state_precondition", -1)

    def mixed(self, ver):
        self.begin(0)
        self.stream, self.valid = "malformed", False
        kind = self.pick(["init", "recv"])
        sc = self.base(ver, kind)
        M = sc["M"]
        tab = V0 if ver == 0 else V1
        names = [n for n in tab if not (n == "upgrade" and sc["pv"] < 5)]
        sc["param"] = pattern(self.pick([0, 9]), 3, 3)
        if ver == 1 and kind == "recv":
            self.init_kv(sc)
        nh = 0
        for _ in range(self.r.randrange(3, 12)):
            f = self.pick(names)
            if f.startswith("hash"):
                nh += 1
                if nh > 2:
                    continue
            args = []
            for w in tab[f][0]:
                k = self.r.random()
                prev = [i for i, (g, _) in enumerate(sc["calls"]) if tab[g][1] != 0]
                if k < 0.2 and prev:
                    args.append(("s", self.pick(prev)))
                elif k < 0.65:
                    args.append(self.pick([0, 1, 2, 8, 32, 40, 64, DATA, DATA + 3, DEST, ADDR, NAME_OK, 6, 512, 513]))
                elif w == 4:
                    args.append(self.pick([self.hostile_u32(), M - 1, M, M - 32, M - 31, M - 64, M - 16]))
                else:
                    args.append(self.pick([0, 1, U64 - 1, 1 << 32, self.r.randrange(U64)]))
            if f == "state_entry_resize" and isinstance(args[1], int) and 4000 < args[1] <= (1 << 30):
                args[1] = 4000       # no huge allocations in the harness
            if f in ("verify_ed25519_signature", "verify_ecdsa_secp256k1_signature") and isinstance(args[1], int) and args[1] + 64 <= M:
                args[1] = SIG        # signature with a non-canonical s: rejected by every library
            if f in ("verify_ed25519_signature", "verify_ecdsa_secp256k1_signature") and not isinstance(args[1], int):
                args[1] = SIG
            self.call(sc, f, *args)
            if f in ("invoke", "upgrade"):
                sc["resp"].append(self.pick([{"k": "ok", "bal": "9", "data": b"\x01\x02", "upd": False}, {"k": "fail", "n": 3, "upd": True},
                                             {"k": "rej", "code": -3, "data": b"", "upd": False}]))
        self.dump(sc, "log")
        return self.finish(sc, "v%d_mixed" % ver)

    def v1_tree_energy(self):
        """exact tree-traversal energy: larger trees with deep shared 4-bit prefixes (state thawed from a persistent
        tree: nothing expanded), partial expansion by lookups, iteration (complete and partial), prefix deletion,
        inserts that split stems and deletes that collapse nodes in between"""
        self.begin(0)
        self.stream, self.valid = "valid", True
        sc = self.base(1, "recv", pages=1)
        r = self.r
        alpha = [0x00, 0x01, 0x10, 0x11, 0x1f, 0xf0]
        stem = bytes(r.choice(alpha) for _ in range(r.randrange(0, 3)))
        keys = set()
        for _ in range(r.randrange(3, 16)):
            keys.add(stem + bytes(r.choice(alpha) for _ in range(r.randrange(0, 6))))
        keys = sorted(keys)
        sc["state0"] = [(k, pattern(self.pick([0, 1, 8]), 31, i)) for i, k in enumerate(keys)]
        mat = list(keys) + [stem + bytes(r.choice(alpha) for _ in range(r.randrange(0, 5))) for _ in range(4)]
        r.shuffle(mat)
        blob, pos = b"", []
        for k in mat:
            if len(blob) + len(k) <= 190:
                pos.append((DATA + 64 + len(blob), len(k)))
                blob += k
        sc["data"].append([DATA + 64, blob])

        def anykey():
            return self.pick(pos)

        def prefix():
            p, L = self.pick(pos)
            return (p, r.randrange(0, L + 1)) if self.chance(0.8) else (p, L)
        ih = []
        for _ in range(r.randrange(8, 36)):
            op = self.pick(["lookup", "lookup", "iter", "next", "next", "next", "next", "dprefix", "create", "delete", "idel"])
            if op == "lookup":
                self.call(sc, "state_lookup_entry", *(anykey() if self.chance(0.7) else prefix()))
            elif op == "iter":
                ih.append(self.call(sc, "state_iterate_prefix", *prefix()))
            elif op == "next" and ih:
                j = self.pick(ih)
                for _ in range(self.pick([1, 1, 2, 5, 20])):
                    if len(sc["calls"]) < 110:
                        self.call(sc, "state_iterator_next", ("s", j))
            elif op == "dprefix":
                self.call(sc, "state_delete_prefix", *prefix())
            elif op == "create":
                self.call(sc, "state_create_entry", *anykey())
            elif op == "delete":
                self.call(sc, "state_delete_entry", *anykey())
            elif op == "idel" and ih:
                self.call(sc, "state_iterator_delete", ("s", self.pick(ih)))
        self.call(sc, "state_delete_prefix", DATA + 64, 0)      # whatever is left (locked: 0)
        self.dump(sc, "log")
        return self.finish(sc, "v1_tree_energy", 0)

    def v1_iter_exhaust(self):
        """iterators driven past exhaustion: the key reported afterwards, its size/read/delete cost"""
        self.begin(0)
        self.stream, self.valid = "valid", True
        sc = self.base(1, "recv", pages=1)
        self.init_kv(sc)
        if not sc["state0"]:
            sc["state0"] = [(pattern(256)[0:2], b"xy")]
        p, L = self.pick([(DATA, 0), (DATA, 0), (DATA, 1), (DATA, 2), (DATA + 1, 1), (DATA + 7, 2)])
        j = self.call(sc, "state_iterate_prefix", p, L)
        for _ in range(len(sc["state0"]) + self.pick([0, 1, 2])):
            self.call(sc, "state_iterator_next", ("s", j))
            if self.chance(0.3):
                self.call(sc, "state_iterator_key_size", ("s", j))
        self.call(sc, "state_iterator_key_size", ("s", j))
        self.call(sc, "state_iterator_key_read", ("s", j), DEST, 8, self.pick([0, 1]))
        self.call(sc, "state_iterator_next", ("s", j))
        self.call(sc, "state_iterator_key_size", ("s", j))
        if self.chance(0.7):
            self.call(sc, "state_iterator_delete", ("s", j))
        self.dump(sc, "log")
        return self.finish(sc, "v1_iter_exhaust", 0)

    def v1_too_many_iterators(self):
        """the u32 reference count of a locked prefix, driven to its boundary with the cfg hook"""
        self.begin(0)
        self.stream, self.valid = "valid", True
        sc = self.base(1, "recv", pv=self.pick([4, 5, 7]), pages=1)
        pat = pattern(256)
        sc["state0"] = sorted({pat[0:1]: b"a", pat[0:2]: b"bb", pat[1:2]: b"d"}.items())
        j = self.call(sc, "state_iterate_prefix", DATA, 1)
        self.call(sc, "invoke", 0, ADDR, 40)
        cnt = self.pick([U32 - 1, U32 - 2, U32 - 1])
        sc["resp"].append({"k": "ok", "bal": "5", "data": None, "upd": False, "setlock": [pat[0:1], cnt]})
        k1 = self.call(sc, "state_iterate_prefix", DATA, 1)      # ERR when the count is u32::MAX
        k2 = self.call(sc, "state_iterate_prefix", DATA, 1)
        self.call(sc, "state_iterate_prefix", DATA, 2)            # a different root is unaffected
        self.call(sc, "state_iterator_delete", ("s", j))
        self.call(sc, "state_iterate_prefix", DATA, 1)
        self.call(sc, "state_iterator_next", ("s", k1))
        self.call(sc, "state_iterator_delete", ("s", k2))
        self.call(sc, "state_create_entry", DATA, 3)              # still locked
        self.dump(sc, "log")
        return self.finish(sc, "v1_too_many_iterators", 0)

    def v1_too_many_interrupts(self, n=None):
        """parameter list padded (cfg hook) to the TooManyInterrupts boundary of resume_receive"""
        self.begin(0)
        self.stream, self.valid = "valid", True
        sc = self.base(1, "recv", pv=5, pages=1)
        n = n or self.pick([8388608, 8388608, 8388607])
        self.call(sc, "log_event", DATA, 2)
        self.call(sc, "invoke", 0, ADDR, 40)
        kind = self.pick(["ok", "rej"])
        if kind == "ok":
            sc["resp"].append({"k": "ok", "bal": "5", "data": b"\xaa\xbb\xcc", "upd": False, "pad": n})
        else:
            sc["resp"].append({"k": "rej", "code": -7, "data": b"\xaa\xbb\xcc", "upd": False, "pad": n})
        self.call(sc, "get_parameter_size", 8388607)
        self.call(sc, "get_parameter_size", 8388608)
        self.call(sc, "get_parameter_section", 8388607, DEST, 3, 0)
        self.dump(sc, "log")
        sc["fixed_energies"] = [10 ** 9]
        return self.finish(sc, "v1_too_many_interrupts", 0)

    def v1_reenter(self):
        """re-entrancy: while the contract is interrupted a nested call runs on a fresh generation of its state;
        committed (state changed: handles and iterators invalidated) or rolled back (unchanged)"""
        self.begin(0)
        self.stream, self.valid = "valid", True
        sc = self.base(1, "recv", pages=1)
        self.init_kv(sc)
        eh, ih = [], []
        for _ in range(self.r.randrange(1, 5)):
            p, L = self.pick(self.KEYS)
            op = self.pick(["create", "lookup", "lookup", "iter", "write"])
            if op == "iter":
                ih.append(self.call(sc, "state_iterate_prefix", p, L))
            elif op == "write" and eh:
                self.call(sc, "state_entry_write", ("s", self.pick(eh)), DATA + 30, self.pick([1, 8, 40]), 0)
            else:
                eh.append(self.call(sc, "state_%s_entry" % ("create" if op == "create" else "lookup"), p, L))
        # the nested call
        ncalls = []
        neh = []
        for _ in range(self.r.randrange(1, 6)):
            p, L = self.pick(self.KEYS)
            op = self.pick(["create", "lookup", "delete", "write", "resize", "dprefix", "iter", "size"])
            if op in ("create", "lookup"):
                ncalls.append(("state_%s_entry" % op, [p, L]))
                neh.append(len(ncalls) - 1)
            elif op == "delete":
                ncalls.append(("state_delete_entry", [p, L]))
            elif op == "dprefix":
                ncalls.append(("state_delete_prefix", [p, L]))
            elif op == "iter":
                ncalls.append(("state_iterate_prefix", [p, L]))
            elif neh and op == "write":
                ncalls.append(("state_entry_write", [("s", self.pick(neh)), DATA + 60, self.pick([0, 3, 50]), self.pick([0, 1])]))
            elif neh and op == "resize":
                ncalls.append(("state_entry_resize", [("s", self.pick(neh)), self.pick([0, 5, 100])]))
            elif neh:
                ncalls.append(("state_entry_size", [("s", self.pick(neh))]))
        nret = self.pick([0, 0, 0, -3])
        if self.chance(0.15):
            ncalls.append(("log_event", [U32 - 1, 2]))           # the nested call traps: rolled back
        nested = {"param": b"\x01\x02", "data": [[DATA, pattern(256)]], "calls": ncalls, "ret": nret,
                  "commit": self.chance(0.7), "energy": 10 ** 9}
        self.call(sc, "invoke", 0, ADDR, 40)
        sc["resp"].append({"k": self.pick(["ok", "ok", "fail"]), "bal": "9", "data": None, "n": 6, "upd": False, "nested": nested})
        # afterwards: old handles, fresh lookups, ownership (copy-on-write charges), locks
        for _ in range(self.r.randrange(3, 9)):
            p, L = self.pick(self.KEYS)
            op = self.pick(["oldsize", "oldread", "oldwrite", "lookup", "create", "delete", "next", "ksize", "idel", "write", "resize"])
            if op == "oldsize":
                self.call(sc, "state_entry_size", self.handle(sc, eh))
            elif op == "oldread":
                self.call(sc, "state_entry_read", self.handle(sc, eh), DEST, 16, 0)
            elif op == "oldwrite":
                self.call(sc, "state_entry_write", self.handle(sc, eh), DATA + 90, 4, 0)
            elif op in ("lookup", "create"):
                eh.append(self.call(sc, "state_%s_entry" % op, p, L))
            elif op == "delete":
                self.call(sc, "state_delete_entry", p, L)
            elif op == "next":
                eh.append(self.call(sc, "state_iterator_next", self.handle(sc, ih)))
            elif op == "ksize":
                self.call(sc, "state_iterator_key_size", self.handle(sc, ih))
            elif op == "idel":
                self.call(sc, "state_iterator_delete", self.handle(sc, ih))
            elif op == "write":
                self.call(sc, "state_entry_write", self.handle(sc, eh), DATA + 120, self.pick([0, 2, 30]), self.pick([0, 1]))
            else:
                self.call(sc, "state_entry_resize", self.handle(sc, eh), self.pick([0, 7, 200]))
        self.dump(sc, "log")
        return self.finish(sc, "v1_reenter", 0)

    def v1_stale_handles(self, full=False):
        """handles of an OLDER generation used after the state was updated during an interrupt AND after new
        entries / iterators were created, so that the same indices are populated again: every entry_* and
        iterator_* function must answer with its invalid encoding and leave the unrelated new entry untouched"""
        self.begin(0)
        self.stream, self.valid = "valid", True
        sc = self.base(1, "recv", pages=1)
        self.init_kv(sc)
        pat = pattern(256)
        if not any(k[:1] == pat[0:1] for k, _ in sc["state0"]):
            sc["state0"] = sorted(dict(sc["state0"] + [(pat[0:2], b"old-value")]).items())
        # generation 0: entry handles (index 0, 1) and an iterator (index 0), optionally advanced
        e_old = [self.call(sc, self.pick(["state_lookup_entry", "state_create_entry"]), DATA, 2)]
        if full or self.chance(0.6):
            e_old.append(self.call(sc, "state_create_entry", DATA + 7, 4))
        i_old = [self.call(sc, "state_iterate_prefix", DATA, 1)]
        if full or self.chance(0.5):
            e_old.append(self.call(sc, "state_iterator_next", ("s", i_old[0])))
        # the state is updated while the contract is interrupted (flag only, or a committed nested call)
        self.call(sc, "invoke", 0, ADDR, 40)
        if self.chance(0.5):
            sc["resp"].append({"k": "ok", "bal": "3", "data": None, "upd": True})
        else:
            nested = {"param": b"", "data": [[DATA, pattern(256)]], "calls": [("state_create_entry", [DATA + 2, 1])],
                      "ret": 0, "commit": True, "energy": 10 ** 9}
            sc["resp"].append({"k": "ok", "bal": "3", "data": None, "upd": False, "nested": nested})
        # generation 1: populate the same indices again with UNRELATED entries / iterators
        e_new = self.call(sc, "state_create_entry", DATA + 1, 2)
        self.call(sc, "state_entry_write", ("s", e_new), DATA + 40, 12, 0)
        e_new2 = self.call(sc, "state_lookup_entry", DATA + 1, 2)
        i_new = self.call(sc, "state_iterate_prefix", DATA + 1, 1)
        self.call(sc, "state_iterator_next", ("s", i_new))
        # stale uses
        uses = [("state_entry_write", lambda h: [h, DATA + 100, 6, self.pick([0, 3])]),
                ("state_entry_read", lambda h: [h, DEST, 12, 0]),
                ("state_entry_resize", lambda h: [h, self.pick([0, 3, 40])]),
                ("state_entry_size", lambda h: [h]),
                ("state_iterator_next", lambda h: [h]),
                ("state_iterator_key_size", lambda h: [h]),
                ("state_iterator_key_read", lambda h: [h, DEST + 32, 8, 0]),
                ("state_iterator_delete", lambda h: [h])]
        if not full:
            self.r.shuffle(uses)
            uses = uses[:self.r.randrange(3, 9)]
        for f, mk in uses:
            old = self.pick(e_old) if "entry" in f else self.pick(i_old)
            h = ("s", old)
            if not full and self.chance(0.15):
                h = self.pick([(2 << 32), (2 << 32) + 1, (1 << 63), (1 << 32) + 7])   # future generation / unknown index
            self.call(sc, f, *mk(h))
        # the new entry and iterator are untouched and still usable
        self.call(sc, "state_entry_size", ("s", e_new))
        self.call(sc, "state_entry_read", ("s", e_new2), DEST + 64, 16, 0)
        self.call(sc, "state_iterator_key_size", ("s", i_new))
        self.call(sc, "state_iterator_next", ("s", i_new))
        self.call(sc, "state_iterator_delete", ("s", i_new))
        self.dump(sc, "log")
        return self.finish(sc, "v1_stale_handles", 0)

    def corpus_iter(self):
        """fixed regression script: iterator life cycle, locks, traversal (energy is a lower bound here)"""
        self.begin(0)
        self.stream, self.valid = "valid", True
        sc = self.base(1, "recv", pv=5, pages=1)
        pat = pattern(256)
        sc["state0"] = sorted({pat[0:1]: b"a", pat[0:2]: b"bb", pat[0:3]: b"ccc", pat[1:2]: b"d"}.items())
        j = self.call(sc, "state_iterate_prefix", DATA, 1)
        self.call(sc, "state_iterator_next", ("s", j))
        self.call(sc, "state_iterator_key_size", ("s", j))
        self.call(sc, "state_iterator_key_read", ("s", j), DEST, 8, 0)
        n2 = self.call(sc, "state_iterator_next", ("s", j))
        self.call(sc, "state_entry_read", ("s", n2), DEST + 16, 8, 0)
        self.call(sc, "state_create_entry", DATA, 2)          # locked: NONE
        self.call(sc, "state_delete_prefix", DATA, 1)         # locked: 0
        self.call(sc, "state_iterator_delete", ("s", j))
        self.call(sc, "state_iterator_delete", ("s", j))      # already deleted: 0
        self.call(sc, "state_delete_prefix", DATA, 1)         # 2
        self.call(sc, "state_lookup_entry", DATA, 2)          # NONE
        k = self.call(sc, "state_iterate_prefix", DATA + 1, 1)
        self.call(sc, "state_iterator_next", ("s", k))
        self.call(sc, "state_iterator_next", ("s", k))        # exhausted
        self.call(sc, "state_iterator_key_size", ("s", k))
        self.call(sc, "state_iterator_key_read", ("s", k), DEST + 32, 8, 0)
        self.call(sc, "state_iterator_delete", ("s", k))
        self.dump(sc, "log")
        return self.finish(sc, "corpus_iterator", 0)

    def v0_action_ids(self):
        """exhaustive family "action ids": after k in 0..3 produced actions, combine_and / combine_or with (l, r) over
        {0, k-1, k, k+1, u32::MAX}^2; model (HostV0.out_combine): accepted iff l < k and r < k, else trap"""
        out = []
        for k in range(4):
            ids = sorted({0, max(k - 1, 0), k, k + 1, U32 - 1})
            for op in ("combine_and", "combine_or"):
                for l in ids:
                    for r in ids:
                        self.begin(0)
                        self.stream, self.valid = ("valid" if l < k and r < k else "malformed"), True
                        sc = self.base(0, "recv", pv=self.pick([4, 5, 6, 7]), pages=1)
                        for i in range(k):
                            a = ("accept", "simple_transfer", "send")[(i + k + l) % 3]
                            if a == "accept":
                                self.call(sc, a)
                            elif a == "simple_transfer":
                                self.call(sc, a, ADDR, self.pick([0, 1, U64 - 1]))
                            else:
                                self.call(sc, a, self.r.randrange(U64), self.pick([0, U64 - 1]), NAME_OK, 6, self.r.randrange(U64), DATA, self.pick([0, 1, 100]))
                        self.call(sc, op, l, r)
                        sc["fixed_energies"] = [AMPLE]
                        sc["action_ids"] = (k, op, l, r)
                        out.append(self.finish(sc, "v0_action_ids", k))
        return out

    def scripts(self, n):
        out = []
        plan = [(self.v0_state, 14), (lambda: self.logs(0), 6), (lambda: self.logs(1), 6), (lambda: self.params(0), 7),
                (lambda: self.params(1), 8), (self.v0_actions, 10), (lambda: self.ctx(0), 5), (lambda: self.ctx(1), 5),
                (self.v1_state, 18), (self.v1_rv, 7), (self.v1_invoke, 16), (self.v1_crypto, 8),
                (lambda: self.mixed(0), 5), (lambda: self.mixed(1), 7), (self.v1_bigentry, 1), (self.v0_oversized_state, 0.3),
                (self.v1_iter_exhaust, 5), (self.v1_too_many_iterators, 2), (self.v1_reenter, 9), (self.v1_stale_handles, 7),
                (self.v1_tree_energy, 12)]
        tot = sum(w for _, w in plan)
        for i in range(n):
            x = self.r.random() * tot
            for f, w in plan:
                x -= w
                if x < 0:
                    break
            sc = f()
            sc["id"] = i
            out.append(sc)
        for f in (self.v0_oversized_state, self.corpus_iter, self.v1_too_many_iterators, self.v1_reenter,
                  lambda: self.v1_stale_handles(True), lambda: self.v1_stale_handles(True),
                  lambda: self.v1_too_many_interrupts(8388608)) + (() if n <= 1000 else (lambda: self.v1_too_many_interrupts(8388607),)):
            sc = f()
            sc["id"] = len(out)
            out.append(sc)
        for sc in self.v0_action_ids():
            sc["id"] = len(out)
            out.append(sc)
        return out


# ------------------------------------------------------------------------------------------ serialisation
def to_harness(sc, energies):
    def enc_arg(a):
        return ["s", a[1]] if isinstance(a, tuple) else ["c", str(a)]

    def enc_calls(calls):
        return [{"f": f, "a": [enc_arg(a) for a in args]} for f, args in calls]

    def enc_resp(r):
        r = dict(r)
        if r.get("data") is not None:
            r["data"] = bytes(r["data"]).hex()
        if r.get("setlock"):
            r["setlock"] = [bytes(r["setlock"][0]).hex(), str(r["setlock"][1])]
        if r.get("nested"):
            n = r["nested"]
            r["nested"] = {"param": bytes(n["param"]).hex(), "data": [[o, bytes(b).hex()] for o, b in n["data"]],
                           "calls": enc_calls(n["calls"]), "ret": n["ret"], "commit": n["commit"], "energy": str(n["energy"])}
        return r
    st0 = sc["state0"].hex() if sc["ver"] == 0 else [[k.hex(), v.hex()] for k, v in sc["state0"]]
    return {"id": sc["id"], "ver": sc["ver"], "kind": sc["kind"], "pv": sc["pv"], "pages": sc["pages"], "param": sc["param"].hex(),
            "policy": sc["policy"].hex(), "sender": sc["sender"], "state0": st0,
            "data": [[o, bytes(b).hex()] for o, b in sc["data"]],
            "calls": enc_calls(sc["calls"]),
            "ret": sc["ret"], "resp": [enc_resp(r) for r in sc["resp"]], "energies": [str(e) for e in energies]}


def hx_tok(b):
    b = bytes(b)
    return b.hex() if b else "-"


def calls_tok(ver, calls):
    tab = V0 if ver == 0 else V1
    out = [str(len(calls))]
    for f, args in calls:
        ws, rw = tab[f]
        out += [f, str(rw), str(len(args))]
        for a, w in zip(args, ws):
            if isinstance(a, tuple):
                out += ["A" if w == 4 else "B", str(a[1])]
            else:
                out += ["C", str(a)]
    return out


def data_tok(data):
    out = [str(len(data))]
    for o, b in data:
        out += [str(o), hx_tok(b)]
    return out


def to_model_line(sc, digests, energies):
    """one line of the extracted runner's input format (ocaml/driver_c14.ml)"""
    t = ["S", str(sc["id"]), "1" if sc["ver"] == 1 else "0", "1" if sc["kind"] == "init" else "0", str(sc["pv"]), str(sc["pages"]),
         hx_tok(sc["param"]), hx_tok(sc["policy"]), "1" if sc["sender"] == "acc" else "0"]
    if sc["ver"] == 0:
        t += [hx_tok(sc["state0"]), "0"]
    else:
        t += ["-", str(len(sc["state0"]))]
        for k, v in sc["state0"]:
            t += [hx_tok(k), hx_tok(v)]
    t += data_tok(sc["data"])
    t += calls_tok(sc["ver"], sc["calls"])
    t.append(str(sc["ret"] & 0xffffffff))
    t.append(str(len(sc["resp"])))
    for r in sc["resp"]:
        u = "1" if r.get("upd") else "0"
        if r["k"] == "ok":
            t += ["O", str(r["bal"]), "~" if r["data"] is None else hx_tok(r["data"]), u]
        elif r["k"] == "rej":
            t += ["R", str(r["code"] & 0xffffffff), hx_tok(r["data"]), u]
        else:
            t += ["F", str(r["n"]), u]
        if r.get("setlock"):
            t += ["L", hx_tok(r["setlock"][0]), str(r["setlock"][1])]
        else:
            t.append("L0")
        t += ["P", str(r.get("pad", 0))]
        if r.get("nested"):
            n = r["nested"]
            t += ["N1", hx_tok(n["param"])] + data_tok(n["data"]) + calls_tok(1, n["calls"])
            t += [str(n["ret"] & 0xffffffff), "1" if n["commit"] else "0", str(n["energy"])]
        else:
            t.append("N0")
    t.append(str(len(digests)))
    t += [hx_tok(d) for d in digests]
    t.append(str(len(energies)))
    t += [str(e) for e in energies]
    return " ".join(t)


CLASS = {0: "success", 1: "reject", 2: "trap", 3: "ooe", 4: "invalid", 5: "FAULT"}


def canon_model(j):
    acts = []
    for a in j["actions"]:
        if a[0] == "send":
            a = ["send", a[1], a[2], bytes.fromhex(a[3]).decode("latin1"), a[4], a[5]]
        acts.append(a)
    code = int(j["code"])
    return {"out": CLASS[j["cls"]], "code": code - U32 if code >= (1 << 31) else code, "rem": int(j["rem"]), "state": j["state"],
            "kv": j["kv"], "logs": j["logs"], "rv": j["rv"], "actions": acts, "ints": j["ints"], "changed": j["changed"],
            "hashes": [(k, bytes.fromhex(d)) for k, d in j["hashes"]], "unspec": j["unspec"], "lower": j["lower"],
            "nested": [[c_, int(rm), lw] for c_, rm, lw in j["nested"]], "ticks": [int(x) for x in j["ticks"]],
            "tree": [int(x) for x in j.get("tree", [])]}


def compare(sc, e, m, r):
    """model prediction m vs implementation result r for script sc under energy e -> list of differences"""
    d = []
    out = r["out"]
    if sc["pre_violation"]:
        if (m["out"] == "FAULT") != (out == "PANIC"):
            d.append("precondition-violation case: model %s, implementation %s" % (m["out"], out))
        return d
    if out == "PANIC":
        return ["PANIC in the implementation: %s (model predicts %s)" % (r.get("msg"), m["out"])]
    if m["out"] == "FAULT":
        return ["model reaches FAULT (out-of-bounds / overflow) but implementation returned %s" % out]
    if m["unspec"]:
        return d
    if m["lower"] and m["out"] != out:
        # energy is only a lower bound: the implementation may run out of energy earlier
        if out == "ooe":
            return d
    if out != m["out"]:
        return ["outcome class: model %s, implementation %s (%s)" % (m["out"], out, (r.get("msg") or "")[:80])]
    if out == "reject" and r["code"] != m["code"]:
        d.append("reject code: model %s impl %s" % (m["code"], r["code"]))
    if r["rem"] is not None and out in ("success", "reject", "trap"):
        ir = int(r["rem"])
        if m["lower"]:
            if ir > m["rem"]:
                d.append("remaining energy %d exceeds the model's upper bound %d (undercharge)" % (ir, m["rem"]))
        elif ir != m["rem"]:
            d.append("remaining energy: model %d impl %d (diff %d)" % (m["rem"], ir, m["rem"] - ir))
    if out == "success":
        if sc["ver"] == 0:
            if r["state"] != m["state"]:
                d.append("v0 state differs: model len %d impl len %d" % (len(m["state"]) // 2, len(r["state"] or "") // 2))
            if sc["kind"] == "recv" and r["actions"] != m["actions"]:
                d.append("actions differ: model %s impl %s" % (json.dumps(m["actions"])[:200], json.dumps(r["actions"])[:200]))
        else:
            if r["state"] != m["kv"]:
                d.append("v1 state differs: model %s impl %s" % (json.dumps(m["kv"])[:200], json.dumps(r["state"])[:200]))
            if sc["kind"] == "recv" and r["changed"] != m["changed"]:
                d.append("state_changed flags differ: model %s impl %s" % (m["changed"], r["changed"]))
        if r["logs"] != m["logs"]:
            d.append("logs differ: model %s impl %s" % (json.dumps(m["logs"])[:300], json.dumps(r["logs"])[:300]))
    if out in ("success", "reject") and sc["ver"] == 1:
        rn = r.get("nested") or []
        if len(rn) != len(m["nested"]):
            d.append("nested runs: model %d impl %d" % (len(m["nested"]), len(rn)))
        for (ic, irem), (mc, mrem, mlow) in zip(rn, m["nested"]):
            if ic != mc or (int(irem) != mrem and not mlow) or (mlow and int(irem) > mrem):
                d.append("nested (re-entrant) run: model class %d rem %d, impl class %d rem %s" % (mc, mrem, ic, irem))
        if (r["rv"] or "") != m["rv"]:
            d.append("return value differs: model len %d impl len %d" % (len(m["rv"]) // 2, len(r["rv"] or "") // 2))
        if r["ints"] != m["ints"]:
            d.append("interrupts differ: model %s impl %s" % (json.dumps(m["ints"])[:200], json.dumps(r["ints"])[:200]))
    return d


def direct_oracles(sc, e, r):
    """limits of the property text evaluated on the implementation's result alone (documented constants)"""
    d = []
    if r["out"] == "PANIC":
        return d
    if r["rem"] is not None and int(r["rem"]) > e:
        d.append("remaining energy %s exceeds the budget %d" % (r["rem"], e))
    if sc["pre_violation"]:
        return d
    if r["out"] == "success":
        if sc["ver"] == 0 and len(r["state"] or "") // 2 > 16384:
            d.append("v0 state of %d bytes exceeds 16 KiB" % (len(r["state"]) // 2))
        for seg in r["logs"] or []:
            if sc["pv"] == 4 and len(seg) > 64:
                d.append("%d logs in one execution segment under P4 (limit 64)" % len(seg))
            for ev in seg:
                if len(ev) // 2 > 512:
                    d.append("log event of %d bytes exceeds 512" % (len(ev) // 2))
        maxp = 1024 if sc["pv"] == 4 else 65535
        for a in r["actions"] or []:
            if a[0] == "send" and len(a[5]) // 2 > maxp:
                d.append("send action with a parameter of %d bytes (limit %d)" % (len(a[5]) // 2, maxp))
        # action tree well-formedness: every And/Or node refers only to strictly smaller indices (no self/forward reference)
        for i, a in enumerate(r["actions"] or []):
            if a[0] in ("and", "or") and not (0 <= int(a[1]) < i and 0 <= int(a[2]) < i):
                d.append("ill-formed action tree: node %d is %s(%s, %s) - children must be strictly smaller than the node's index"
                         % (i, a[0], a[1], a[2]))
    if sc.get("action_ids"):
        k, op, l, r_ = sc["action_ids"]
        want = "success" if l < k and r_ < k else "trap"
        if r["out"] != want:
            d.append("action ids: %s(%d, %d) after %d actions must %s, implementation: %s" % (op, l, r_, k, want, r["out"]))
    if sc["ver"] == 1:
        if sc["pv"] == 4 and r["rv"] is not None and len(r["rv"]) // 2 > 16384:
            d.append("return value of %d bytes under P4 (limit 16384)" % (len(r["rv"]) // 2))
        maxp = 1024 if sc["pv"] == 4 else 65535
        for i in r["ints"] or []:
            b = bytes.fromhex(i)
            if b and b[0] == 1 and int.from_bytes(b[17:19], "big") > maxp:
                d.append("call interrupt with a parameter of %d bytes (limit %d)" % (int.from_bytes(b[17:19], "big"), maxp))
            if b and b[0] in (3, 4, 5) and sc["pv"] < 5:
                d.append("query interrupt tag %d under P%d" % (b[0], sc["pv"]))
            if b and b[0] in (6, 7) and sc["pv"] < 6:
                d.append("account signature/key interrupt under P%d" % sc["pv"])
            if b and b[0] in (8, 9) and sc["pv"] < 7:
                d.append("contract inspection interrupt under P%d" % sc["pv"])
    return d


# ------------------------------------------------------------------------------------------ source-order lint
WORK = [r"\.to_vec\(\)", r"\)\.write\(", r"\.write_all\(", r"copy_from_slice\(", r"::digest\(", r"\bstate\.(?!len\b|is_empty\b)\w+\(",
        r"logs\.log_event\(", r"outcomes\.\w+\(", r"write_return_value_helper\(", r"parse_call_args\(", r"\.resize\("]
# functions whose first tick must precede their first length-proportional work (model: same order)
TICK_FIRST = {
    "v0": ["get_parameter_section", "get_policy_section", "log_event", "load_state", "write_state", "resize_state", "accept",
           "simple_transfer", "send", "combine_and", "combine_or"],
    "v1": ["parse_call_args", "write_return_value_helper", "write_return_value", "invoke", "get_parameter_section",
           "state_lookup_entry", "state_create_entry", "state_delete_entry", "state_delete_prefix", "state_iterator",
           "state_iterator_key_read", "state_entry_read", "state_entry_write", "state_entry_size", "state_entry_resize",
           "hash_sha2_256", "hash_sha3_256", "hash_keccak_256"],
    "types": ["entry_write", "entry_resize", "iterator_next", "iterator_delete"]}


def fn_bodies(src):
    out = {}
    for m in re.finditer(r"\bfn\s+(\w+)\s*(?:<[^>{]*>)?\s*\(", src):
        j = src.find("{", m.end())
        # skip to the body's opening brace (after the signature / where clause)
        depth, k = 0, j
        while k < len(src):
            if src[k] == "{":
                depth += 1
            elif src[k] == "}":
                depth -= 1
                if depth == 0:
                    break
            k += 1
        out.setdefault(m.group(1), []).append(src[j:k + 1])
    return out


def order_lint(repo):
    base = os.path.join(repo, "smart-contracts/wasm-chain-integration/src")
    files = {"v0": "v0/mod.rs", "v1": "v1/mod.rs", "types": "v1/types.rs"}
    problems = []
    checked = 0
    for key, rel in files.items():
        src = open(os.path.join(base, rel)).read()
        src = re.sub(r"//[^\n]*", "", src)
        if key == "v0":
            src = src[src.find("pub(crate) mod host"):]
        if key == "v1":
            src = src[src.find("pub(crate) mod host"):]
        bodies = fn_bodies(src)
        for f in TICK_FIRST[key]:
            if f not in bodies:
                problems.append("%s: host function `%s` not found (renamed/removed: the model is no longer tied)" % (rel, f))
                continue
            body = bodies[f][0]
            t = re.search(r"tick_energy\(", body)
            w = min([m.start() for p in WORK for m in [re.search(p, body)] if m] or [len(body) + 1])
            checked += 1
            if f in ("log_event",):
                # the charge sits inside the branch that copies: check inside it
                pass
            if not t:
                problems.append("%s: `%s` no longer charges energy" % (rel, f))
            elif w < t.start():
                problems.append("%s: in `%s` length-proportional work (`%s`) precedes the first tick_energy" % (
                    rel, f, body[w:w + 30].split("\n")[0]))
    return checked, problems


# ------------------------------------------------------------------------------------------ run
def eval_model(ctx, runner, items, nproc=16):
    """items: list of (script, digests, [energies]) -> list of [canon per energy]; runs the extracted model"""
    import concurrent.futures
    lines = [to_model_line(sc, dg, es) for sc, dg, es in items]
    chunks = [list(range(i, len(lines), nproc)) for i in range(nproc)]
    chunks = [ch for ch in chunks if ch]

    def work(ch):
        inp = "\n".join(lines[i] for i in ch) + "\n"
        rc, out = c.run_bin(runner, [], timeout=3000, input=inp.encode())
        js = [json.loads(l) for l in out.splitlines() if l.startswith("{")]
        return ch, rc, js, out
    res = [None] * len(items)
    with concurrent.futures.ThreadPoolExecutor(max_workers=nproc) as ex:
        for ch, rc, js, out in ex.map(work, chunks):
            want = sum(len(items[i][2]) for i in ch)
            if rc != 0 or len(js) != want or any("error" in j for j in js):
                raise RuntimeError("model runner failed (rc %s, %d of %d results): %s" % (rc, len(js), want, out[-600:]))
            it = iter(js)
            for i in ch:
                res[i] = [canon_model(next(it)) for _ in items[i][2]]
    return res


def run(ctx):
    repo = c.REPO
    try:  # vm_compute recurses over 64 KiB lists: the evaluating coqc processes need a deep stack
        import resource
        soft, hard = resource.getrlimit(resource.RLIMIT_STACK)
        resource.setrlimit(resource.RLIMIT_STACK, (hard, hard))
    except Exception:
        pass
    ctx.assumptions += [
        "real undefined behaviour is observable only as a panic / failed assertion (catch_unwind); the model proves index and size bounds",
        "secp256k1 and ed25519-zebra are shims: the RESULT of the two signature host functions is outside the claim (argument validation and charging are inside)",
        "sha2/sha3/keccak digests are compared against independent implementations (hashlib, local keccak), not modelled",
        "energy charged by the state tree for traversals (iterator_next, delete_prefix) is modelled exactly (HostTreeEnergy.v: canonical radix tree of the live keys + the set of nodes made owned in the current generation); the shape/ownership bookkeeping is tied by the exact remaining-energy comparison only; a run is a lower bound only when the environment forces a lock count to 0 (cfg hook) while an iterator is alive",
        "modules are run WITHOUT metering injection, so consumed energy = initial memory charge + host charges (exactly the part C14 talks about)",
    ]
    # 0. translator ------------------------------------------------------------------------------
    spec = importlib.util.spec_from_file_location("gen_hostcosts", os.path.join(c.VERIF, "translators", "gen_hostcosts.py"))
    gh = importlib.util.module_from_spec(spec)
    spec.loader.exec_module(gh)
    tie_broken = None
    try:
        info = gh.generate(repo, os.path.join(c.COQ, "Gen", "HostCosts.v"))
        ctx.notes["translator"] = info
    except Exception as ex:  # TranslateError or IO
        tie_broken = "translator gen_hostcosts failed: %s" % ex
        ctx.log(tie_broken)

    # 1. proofs ----------------------------------------------------------------------------------
    proof_broken = None
    if tie_broken is None:
        ok, info = c.coq_prove(ctx)
        if not ok:
            proof_broken = info
            ctx.log("proof obligations broken:", info["failed_file"], info["error"][-600:])
    okm, outm = c.coq_build(ctx, ["Contract/HostRun.vo"])
    runner = None
    if okm:
        okm, runner = c.extract_build(ctx, "ExtractC14.v", "driver_c14.ml", "c14")
        outm = runner
    if not okm:
        ctx.violation({"layer": "Coq model build / extraction", "error": outm, "tie": tie_broken},
                      "the executable model no longer builds (%s)" % (tie_broken or "see error"), no_input=True)
        return

    # 2. source-order lint -----------------------------------------------------------------------
    nchk, problems = order_lint(repo)
    ctx.notes["order_lint"] = {"functions_checked": nchk, "problems": problems}

    # 3. correspondence --------------------------------------------------------------------------
    ok, binp = c.cargo_build(ctx, "c14")
    if not ok:
        ctx.violation({"layer": "harness build against /repo", "error": binp},
                      "harness no longer builds against the implementation", no_input=True)
        return
    n = 800 if ctx.quick else 25000
    seed = ctx.seed
    rp = None
    if getattr(ctx, "replay", None):
        rp = json.load(open(ctx.replay)).get("replay", {})
        seed = rp.get("seed", seed)
        n = 800 if rp.get("tier", "quick") == "quick" else 25000
    g = G(seed)
    scripts = g.scripts(n)
    if rp is not None and "script_id" in rp:
        scripts = [s for s in scripts if s["id"] == rp["script_id"]]
    ctx.log("generated %d scripts" % len(scripts))
    batches = [scripts[i:i + 1500] for i in range(0, len(scripts), 1500)]
    stats = {"runs": 0, "by_out": {}, "lower_bound_runs": 0, "unspecified_runs": 0, "precondition_fault_runs": 0,
             "hash_calls_checked": 0, "budgets": {},
             "tree_energy": {"scripts_with_tree_ticks": 0, "scripts_with_nonzero_tree_energy": 0,
                             "scripts_with_a_tick_of_more_than_4_steps": 0, "tree_ticks": 0, "steps_per_tick": {},
                             "exact_runs_of_scripts_with_nonzero_tree_energy": 0, "max_steps_in_one_tick": 0}}
    tree_scripts = set()
    nontrivial = set()
    nviol = 0
    samples = []
    for bi, batch in enumerate(batches):
        # phase A: ample energy (resolving digests iteratively)
        dg = {sc["id"]: [] for sc in batch}
        first_e = {sc["id"]: (sc["fixed_energies"][0] if sc["fixed_energies"] else AMPLE) for sc in batch}
        todo = list(batch)
        resA = {}
        for rnd in range(4):
            res = eval_model(ctx, runner, [(sc, dg[sc["id"]], [first_e[sc["id"]]]) for sc in todo])
            nxt = []
            for sc, r in zip(todo, res):
                m = r[0]
                resA[sc["id"]] = m
                want = [digest(k, d) for k, d in m["hashes"]]
                if want != dg[sc["id"]][:len(want)] or len(want) > len(dg[sc["id"]]):
                    if want != dg[sc["id"]]:
                        dg[sc["id"]] = want
                        nxt.append(sc)
            todo = nxt
            if not todo:
                break
        ctx.log("batch %d: phase A done" % bi)
        te = stats["tree_energy"]
        for sc in batch:
            tr_ = resA[sc["id"]]["tree"]
            if tr_:
                te["scripts_with_tree_ticks"] += 1
                te["tree_ticks"] += len(tr_)
                if sum(tr_) > 0:
                    te["scripts_with_nonzero_tree_energy"] += 1
                    tree_scripts.add(sc["id"])
                if max(tr_) > 4 * 40:
                    te["scripts_with_a_tick_of_more_than_4_steps"] += 1
                te["max_steps_in_one_tick"] = max(te["max_steps_in_one_tick"], max(tr_) // 40)
                for x in tr_:
                    st_ = x // 40
                    b_ = "0" if st_ == 0 else "1-4" if st_ <= 4 else "5-16" if st_ <= 16 else "17-64" if st_ <= 64 else ">64"
                    te["steps_per_tick"][b_] = te["steps_per_tick"].get(b_, 0) + 1
        if todo:
            raise RuntimeError("digest resolution did not converge for scripts %s" % [s["id"] for s in todo])
        # budgets
        budgets = {}
        for sc in batch:
            m = resA[sc["id"]]
            if sc["fixed_energies"]:
                budgets[sc["id"]] = list(sc["fixed_energies"])
                continue
            es = [AMPLE]
            if not m["lower"] and not m["unspec"] and not sc["pre_violation"]:
                used = AMPLE - m["rem"]
                ticks = m["ticks"]
                cand = [("exact", used), ("exact-1", used - 1)]
                if ticks:
                    k = g.r.randrange(len(ticks))
                    pre = sum(ticks[:k + 1])
                    cand += [("tick-boundary", pre), ("tick-boundary-1", pre - 1)]
                cand.append(("tiny", g.pick([0, 99, 100, 101, 150, 600, used // 2])))
                for nm, e in cand:
                    if e >= 0 and e not in es:
                        es.append(e)
                        stats["budgets"][nm] = stats["budgets"].get(nm, 0) + 1
            budgets[sc["id"]] = es
        # phase B: remaining budgets
        itemsB = [(sc, dg[sc["id"]], budgets[sc["id"]][1:]) for sc in batch if len(budgets[sc["id"]]) > 1]
        resB = eval_model(ctx, runner, itemsB) if itemsB else []
        ctx.log("batch %d: phase B done" % bi)
        model = {sc["id"]: {budgets[sc["id"]][0]: resA[sc["id"]]} for sc in batch}
        for (sc, _, es), ms in zip(itemsB, resB):
            for e, m in zip(es, ms):
                model[sc["id"]][e] = m
        # implementation
        inp = "\n".join(json.dumps(to_harness(sc, budgets[sc["id"]])) for sc in batch) + "\n"
        rc, out = c.run_bin(binp, ["run"], timeout=3000, input=inp.encode())
        lines = [json.loads(l) for l in out.splitlines() if l.startswith("{")]
        if rc != 0 or len(lines) != sum(len(budgets[sc["id"]]) for sc in batch):
            ctx.violation({"layer": "harness run", "rc": rc, "output": out[-2000:]},
                          "harness crashed or produced %d lines" % len(lines), no_input=True)
            return
        ctx.log("batch %d: implementation ran (%d runs)" % (bi, len(lines)))
        it = iter(lines)
        for sc in batch:
            for e in budgets[sc["id"]]:
                r = next(it)
                m = model[sc["id"]][e]
                stats["runs"] += 1
                stats["by_out"][r["out"]] = stats["by_out"].get(r["out"], 0) + 1
                if m["lower"]:
                    stats["lower_bound_runs"] += 1
                elif sc["id"] in tree_scripts and not m["unspec"] and not sc["pre_violation"] and r["out"] in ("success", "reject", "trap"):
                    stats["tree_energy"]["exact_runs_of_scripts_with_nonzero_tree_energy"] += 1
                if m["unspec"]:
                    stats["unspecified_runs"] += 1
                if sc["pre_violation"]:
                    stats["precondition_fault_runs"] += 1
                diffs = direct_oracles(sc, e, r) + compare(sc, e, m, r)
                # digests: recompute independently and compare with what the run used
                for (k, d_), used_d in zip(m["hashes"], dg[sc["id"]]):
                    stats["hash_calls_checked"] += 1
                    if digest(k, d_) != used_d:
                        diffs.append("digest oracle inconsistent")
                key = c.digest([to_harness(sc, []), e])
                if r["out"] in ("success", "reject") and not sc["pre_violation"]:
                    nontrivial.add(key)
                if len(samples) < 3 and r["out"] == "success" and e != AMPLE:
                    samples.append({"tags": sc["tags"], "energy": e, "calls": [[f, [a if not isinstance(a, tuple) else "slot%d" % a[1] for a in args]] for f, args in sc["calls"][:4]],
                                    "impl": {"out": r["out"], "rem": r["rem"]}, "model_rem": m["rem"]})
                if diffs:
                    nviol += 1
                    if nviol <= 6:
                        ctx.violation({"script_id": sc["id"], "seed": ctx.seed, "tier": ctx.tier, "energy": e, "tags": sc["tags"],
                                       "script": to_harness(sc, [e]), "differences": diffs,
                                       "model": {k: v for k, v in m.items() if k not in ("hashes", "ticks")},
                                       "impl": r,
                                       "replay_hint": "echo '<script json>' | .cache/target/release/c14 run"},
                                      "host-call script %d (%s) energy %d: %s" % (sc["id"], ",".join(sc["tags"]), e, diffs[0][:160]))
    ctx.cov["evaluations"] += stats["runs"]
    ctx.cov["traces_validated_against_impl"] += stats["runs"]
    ctx.cov["distinct_nontrivial"] = len(nontrivial)
    ctx.notes["generator_distribution"] = g.dist
    ctx.notes["run_stats"] = stats
    ctx.cov["samples"] += samples
    ctx.cov["rule"] = ("scripts of 3-130 v0/v1 host calls with boundary-heavy pointers/lengths/offsets/handles/tags (0, len-1, len, len+1, "
                       "u32::MAX, wrapping sums, stale and foreign handles, undefined tags), P4..P7, init and receive, interrupts with scripted "
                       "responses; each run under ample / exact / exact-1 / a tick boundary / tiny energy; non-trivial = implementation "
                       "ended in success or reject; distinct = distinct (script, energy) hash")

    # depth tracking
    depth_cases = [1022, 1023, 1024, 1025] + ([0, 1, 2000] if not ctx.quick else [])
    rc, out = c.run_bin(runner, [], timeout=600, input=("\n".join("D %d %d 1000000" % (i, d) for i, d in enumerate(depth_cases)) + "\n").encode())
    dterms = [(json.loads(l)["cls"],) for l in out.splitlines() if l.startswith("{")]
    inp = "\n".join(json.dumps({"id": i, "ver": i % 2, "kind": "depth", "pv": 5, "n": d, "energies": ["1000000"]})
                    for i, d in enumerate(depth_cases)) + "\n"
    rc, out = c.run_bin(binp, ["run"], timeout=600, input=inp.encode())
    dl = [json.loads(l) for l in out.splitlines() if l.startswith("{")]
    for d, t, r in zip(depth_cases, dterms, dl):
        ctx.cov["evaluations"] += 1
        mo = CLASS[t[0]]
        if r["out"] != mo or (d + 1 <= 1024) != (r["out"] == "success"):
            ctx.violation({"depth": d, "model": mo, "impl": r}, "call depth %d: model %s, implementation %s (limit: 1024 nested calls)" % (d, mo, r["out"]))
    ctx.notes["depth_cases"] = {str(d): r["out"] for d, r in zip(depth_cases, dl)}

    # reporting of broken ties / proofs (after the search above had its chance to find an input)
    found = bool(ctx.violations)
    if tie_broken:
        ctx.violation({"layer": "translator T3 (constants.rs -> Gen/HostCosts.v)", "error": tie_broken},
                      tie_broken, no_input=not found)
    if problems:
        ctx.violation({"layer": "source-order lint (charge before proportional work)", "problems": problems,
                       "theorem": "charge_before_work holds for the model; the implementation's statement order no longer matches it"},
                      "charge-before-work order broken in the source: %s" % problems[0], no_input=not found)
    if proof_broken:
        ctx.violation({"layer": "Coq proof obligations", "broken": proof_broken},
                      "theorem(s) of Props/C14.v no longer check (%s)" % proof_broken["failed_file"], no_input=not found)
    if ctx.tier == "thorough" and not proof_broken and not tie_broken:
        ok, out = c.coqchk(ctx)
        if not ok:
            ctx.violation({"layer": "coqchk", "output": out[-2000:]}, "coqchk rejected Props/C14.vo", no_input=True)
