"""C07 - sigma protocols: generic Coq theorems + in-the-exponent correspondence + perturbation oracle.

Layers (each can raise a violation with a concrete replay):
  1. Coq: Props/C07.v (generic completeness / special soundness / response injectivity / transcript
     binding / framing injectivity, adapters, per-protocol instances).
  2. Correspondence "in the exponent": the harness builds every public group element as a known
     multiple of the generator and runs the REAL prove/verify on BLS12-381; the Coq model (Z mod r,
     vm_compute) recovers the prover's randomness from the response, predicts the commit message, the
     bytes hashed into the challenge and the transcript state after the proof.  Group elements in the
     model bytes are tokens 2^260+dlog which are replaced by the real compressed point (harness mode
     `points`, i.e. real curve arithmetic); then  sha3_256(model frame) == real challenge  and
     sha3_256(model final state) == challenge extracted from the real transcript after the proof.
     The same for perturbed proofs: model-predicted acceptance == real `verify`.
  3. Direct oracle on the implementation alone: completeness for every protocol (incl. AND /
     replicated compositions, sizes 0,1,2,17, degenerate instances) and a perturbation stream
     (every public field, context, challenge, every response component, transcript kind) that must
     be rejected.
"""
import hashlib
import json
import time
from . import common as c

R = 0x73eda753299d7d483339d80809a1d80553bda402fffe5bfeffffffff00000001
TOK = 1 << 260
ONE_EQ = ("vcom_eq", "com_eq_sig", "ps_sig_known", "dlogaggequal", "replicate(dlog)", "and(dlog,com_eq)")

MODELLED = {
    "dlog": "X_dlog", "com_eq": "X_com_eq", "com_enc_eq": "X_com_enc_eq", "com_mult": "X_com_mult",
    "aggregate_dlog": "X_aggregate_dlog", "and(dlog,com_eq)": "X_and_dlog_com_eq",
    "replicate(dlog)": "X_replicate_dlog", "com_lin": "X_com_lin", "com_eq_different_groups": "X_com_eq_diff",
    "enc_trans": "X_enc_trans", "com_ineq/com_mult": "X_com_mult", "vcom_eq": "X_vcom_eq", "com_eq_sig": "X_com_eq_sig", "ps_sig_known": "X_ps_sig_known",
    "dlogaggequal": "X_dlogaggequal",  # private reference module, reached through the cfg hook sigma_protocols::verif_dlogaggequal
}
PREAMBLE = ("From Coq Require Import ZArith NArith List.\n"
            "From CB Require Import Crypto.Alg Crypto.Transcript Crypto.SigmaGeneric Crypto.SigmaCodec Crypto.SigmaExec Crypto.SigmaExecDae Crypto.Sigma_com_ineq.\n"
            "Import ListNotations.\n")


def nl(bs):
    return "(@nil N)" if not bs else "[" + ";".join(str(b) for b in bs) + "]%N"


def num(x):
    # big decimal literals are parsed by a quadratic Coq-level conversion (seconds per expression);
    # hexadecimal literals are linear
    return str(x) if x < (1 << 32) else hex(x)


def zl(xs):
    return "(@nil Z)" if not xs else "[" + ";".join(num(x) for x in xs) + "]%Z"


def kind(k):
    return "V1" if k == "v1" else "Legacy"


def model_pubs(cs, pubs):
    # com_eq_sig: the flat layout does not determine (n, key length); the model takes n as first element
    return ([cs["n"]] + list(pubs)) if cs["p"] in ("com_eq_sig", "ps_sig_known", "dlogaggequal") else pubs


def model_vals(cs, xs):
    # ps_sig_known: witness and response lists are parsed by message kind, which needs the number of messages
    return ([cs["n"]] + list(xs)) if cs["p"] in ("ps_sig_known", "dlogaggequal") else xs


def case_ctx(k, cs):
    if "ineq" in cs:  # verify_com_ineq's own transcript prefix, as modelled by Sigma_com_ineq.com_ineq_ctx
        g, h, cc, v = [int(x, 16) for x in cs["ineq"]]
        return "(com_ineq_ctx ZrCodec %s%%Z %s%%Z %s%%Z %s%%Z)" % (num(g), num(h), num(cc), num(v))
    return ctx_expr(k, cs["ctx"])


def ctx_expr(k, ctx):
    parts = ["domain %s %s" % (k, nl(bytes.fromhex(ctx["dom"])))]
    for l, m in ctx["ops"]:
        lb = nl(bytes.fromhex(l))
        if m is None:
            parts.append("lbl %s %s" % (k, lb))
        else:
            mb = bytes.fromhex(m)
            parts.append("msg %s %s (be64 %d ++ %s)" % (k, lb, len(mb), nl(mb)))
    return "(" + " ++ ".join(parts) + ")"


def scalars(cs):
    rb = bytes.fromhex(cs["resp"])
    return [int.from_bytes(rb[o:o + 32], "big") for o in cs["offs"]]


HEXOUT_H = ("match %s with Some (a, b, c, f, g) => Some (a, b, c, map N.to_hex_uint f, map N.to_hex_uint g) | None => None end")
HEXOUT_V = ("match %s with Some (_, f, g) => Some (map N.to_hex_uint f, map N.to_hex_uint g) | None => None end")


def parse_hexout(body):
    """'Some (true, .., [D1 (D2 ..Nil); ..], [..])' -> (flags, [ints], [ints]); 'None' -> None.
    Coq prints a decimal->binary conversion of a 250-bit number in ~30 ms but a Hexadecimal.uint
    digit chain instantly, which matters for hundreds of frames."""
    import re
    body = body.strip()
    if body.startswith("None"):
        return None
    flags = re.findall(r"\b(true|false)\b", body.split("[")[0])
    groups = re.findall(r"\[([^\[\]]*)\]", body)
    lists = []
    for g in groups:
        xs = []
        for el in g.split(";"):
            digs = re.findall(r"\bD([0-9a-f])\b", el)
            if digs:
                xs.append(int("".join(digs), 16))
            elif "Nil" in el:
                xs.append(0)
        lists.append(xs)
    return flags, lists


def honest_expr(cs):
    k = kind(cs["k"])
    return HEXOUT_H % "x_honest %s %s %s %s %s (scalar_from_bytes_bls %s) %s" % (
        MODELLED[cs["p"]], k, case_ctx(k, cs), zl(model_pubs(cs, [int(x, 16) for x in cs["pub"]])),
        zl(model_vals(cs, [int(x, 16) for x in cs["wit"]])), nl(bytes.fromhex(cs["chal"])), zl(model_vals(cs, scalars(cs))))


def verify_expr(cs, pubs, resp):
    k = kind(cs["k"])
    return HEXOUT_V % ("x_verify %s %s %s %s %s %s" % (MODELLED[cs["p"]], k, case_ctx(k, cs), zl(model_pubs(cs, pubs)),
                                                       nl(bytes.fromhex(cs["chal"])), zl(model_vals(cs, resp))))


def flat_ints(t, out):
    if isinstance(t, int):
        out.append(t)
    elif isinstance(t, (list, tuple)):
        for x in t:
            flat_ints(x, out)


class Points:
    """discrete log -> real encoding of the group element (G1 / G2 compressed point, target-group element),
    computed by the harness with the real curve arithmetic / pairing.  Tokens: 2^260 + d (G1), 2^261 + d (G2),
    2^262 + d (GT)."""
    GROUPS = ((1 << 262, "gt"), (1 << 261, "g2"), (1 << 260, "g1"))

    def __init__(self, binp):
        self.binp = binp
        self.tab = {}

    @classmethod
    def split(cls, t):
        for base, name in cls.GROUPS:
            if t >= base:
                return name, t - base
        raise ValueError(t)

    def need(self, toks):
        want = sorted({self.split(t) for t in toks if t >= TOK} - set(self.tab))
        if not want:
            return
        inp = "\n".join("%s %064x" % (g, d) for g, d in want) + "\n"
        rc, out = c.run_bin(self.binp, ["points"], timeout=900, input=inp.encode())
        if rc != 0:
            raise RuntimeError("points mode failed: " + out[-500:])
        for line in out.splitlines():
            a = line.split()
            if len(a) == 3:
                self.tab[(a[0], int(a[1], 16))] = bytes.fromhex(a[2])

    def expand(self, toks):
        """entries >= 2^260: group-element token; otherwise a packed run of n <= 30 bytes (SigmaExec.pack)"""
        out = bytearray()
        for t in toks:
            if t >= TOK:
                out += self.tab[self.split(t)]
            else:
                n = t >> 240
                out += (t & ((1 << 240) - 1)).to_bytes(n, "big")
        return bytes(out)


def sha3(b):
    return hashlib.sha3_256(b).hexdigest()


def cargo_build_retry(ctx):
    # other properties' harness crates live in the same workspace; a half-written member makes the
    # workspace unloadable for a moment
    for i in range(8):
        ok, binp = c.cargo_build(ctx, "c07")
        if ok or "failed to load manifest" not in binp:
            return ok, binp
        time.sleep(20)
    return ok, binp


def run(ctx):
    kf = c.load_known_findings()
    known = {f["id"] for f in kf["findings"] if f["property"] == "C07"}
    ctx.assumptions += [
        "a prime-order group is a one-dimensional module over its scalar field (FieldLaws/ModLaws hypotheses); arkworks curve arithmetic and SHA3-256 are not modelled",
        "Serial encodings of group elements and scalars have fixed length and are injective (CodecLaws hypothesis; BLS12-381 compressed points / 32-byte scalars)",
        "NOT proved: knowledge soundness, zero knowledge; tamper rejection is relative to collision resistance of H (explicit collision) and, for responses, injectivity of phi",
        "the executable instance Z mod r is used for computation only (its field laws need primality of r, not proved in Coq)",
    ]
    ok, info = c.coq_prove(ctx)
    proof_broken = None
    if not ok:
        proof_broken = info
        ctx.log("proof obligations broken:", info["failed_file"], info["error"][-600:])
        c.coq_build(ctx, ["Crypto/SigmaExec.vo"])

    ok, binp = cargo_build_retry(ctx)
    if not ok:
        ctx.violation({"layer": "harness build against /repo", "error": binp},
                      "harness no longer builds against the implementation", no_input=True)
        return
    budget = 1 if ctx.quick else 4
    rc, out = c.run_bin(binp, ["cases", ctx.seed, budget], timeout=2400)
    if rc != 0:
        ctx.violation({"layer": "harness run", "output": out[-2000:]}, "harness crashed", no_input=True)
        return
    cases = [json.loads(l) for l in out.splitlines() if l.startswith("{")]
    ctx.log("harness produced %d cases" % len(cases))
    pts = Points(binp)
    dist = {}
    seen, nontrivial = set(), set()
    n_pert = n_pert_rej = n_degenerate = 0
    nviol = [0]
    n_attack = [0]
    n_degenerate_attack = [0]
    dae_attacks = []
    n_dae_surplus = [0]

    def viol(obj, msg):
        nviol[0] += 1
        if nviol[0] <= 8:
            ctx.violation(obj, msg)

    # ------------------------------------------------------------ direct oracle on the implementation
    for cs in cases:
        key = "%s/n=%s/%s/%s" % (cs["p"], cs.get("n"), cs.get("variant"), cs.get("k"))
        d = dist.setdefault(cs["p"], {"cases": 0, "made": 0, "verified": 0, "panic": 0, "perturbations": 0})
        d["cases"] += 1
        h = c.digest([cs.get(x) for x in ("p", "n", "variant", "k", "pub", "wit", "ctx", "chal", "resp")])
        seen.add(h)
        if cs["p"] == "com_ineq":
            if cs["made"] is False:
                if not cs["equal"]:
                    viol({"case": cs}, "com_ineq: prover refused a valid (unequal) instance")
                continue
            if cs["made"] == "PANIC" or cs["equal"]:
                viol({"case": cs}, "com_ineq: prover panicked or produced a proof for equal values")
                continue
            nontrivial.add(h)
            d["made"] += 1
            d["verified"] += 1 if cs["ver"] else 0
            if not cs["ver"]:
                viol({"case": cs}, "com_ineq: honest proof does not verify")
            for nm, rej in cs["pert"]:
                n_pert += 1
                d["perturbations"] += 1
                n_pert_rej += 1 if rej else 0
                if not rej:
                    viol({"case": cs, "perturbation": nm}, "com_ineq: proof still accepted after altering %s" % nm)
            continue
        if cs["made"] == "skipped":
            ctx.notes.setdefault("skipped", []).append(cs.get("why"))
            continue
        if cs["made"] == "PANIC":
            d["panic"] += 1
            if cs.get("expect_panic"):
                continue  # ReplicateAdapter with zero protocols: documented precondition ("assumed to be non-empty")
            viol({"case": cs}, "%s: prove panicked: %s" % (key, cs.get("why")))
            continue
        if cs["made"] is not True:
            viol({"case": cs}, "%s: prover returned None on a valid witness (completeness)" % key)
            continue
        d["made"] += 1
        nontrivial.add(h)
        if cs["ver"] is not True:
            if cs["p"] == "vcom_eq" and cs["n"] == 0 and "KF-C07-3" in known:
                ctx.known_finding("KF-C07-3", "VecComEq with zero generators: prove succeeds but verify rejects (extract_commit_message returns None on an empty response vector)")
                continue
            viol({"case": cs}, "%s: honest proof does not verify (completeness)" % key)
            continue
        d["verified"] += 1
        if cs["post"] is not None and cs["vpost"] != cs["post"]:
            viol({"case": cs}, "%s: prover and verifier end in different transcript states" % key)
        ta = cs.get("trunc_attack")
        if ta is not None and cs["p"] == "dlogaggequal":
            # the model (Sigma_dlogaggequal.v, theorem dlogaggequal_response_count_unchecked_refuted) says that
            # extract_commit_message does NOT compare the number of inner response vectors with the number of
            # aggregates: the crafted proof is PREDICTED to be accepted.  Compared with the model below.
            dae_attacks.append(cs)
            for nm, acc in ta.get("padded", []):
                if acc is not False and cs["variant"] != "identity_generator":
                    viol({"case": cs, "attack": ta, "padded_vector": nm},
                         "%s: truncated-response attack accepted after padding `%s`" % (key, nm))
        elif ta is not None:
            n_attack[0] += 1
            if ta.get("accepted") is not False:
                viol({"case": cs, "attack": ta},
                     "%s: truncated-response attack accepted: a crafted prover that hashes the full statement but commits/responds "
                     "for the statement with one vector item omitted is not rejected (response length check)" % key)
            for nm, acc in ta.get("padded", []):
                if acc is False:
                    continue
                if cs["variant"] == "identity_generator" and cs["p"] in ("ps_sig_known", "com_eq_sig"):
                    # the omitted message is tied to the signature only through Y~_i / a_hat, which are identity
                    # points in this variant: the padded statement component is vacuous (phi not injective)
                    n_degenerate_attack[0] += 1
                    continue
                viol({"case": cs, "attack": ta, "padded_vector": nm},
                     "%s: truncated-response attack accepted after padding the response vector `%s` back to full length: "
                     "the verifier checks only some vector lengths and zips the rest" % (key, nm))
        for pe in cs["pert"]:
            nm, rej = pe[0], pe[1]
            same_cm = pe[2] if len(pe) > 2 else False
            n_pert += 1
            d["perturbations"] += 1
            if rej:
                n_pert_rej += 1
                continue
            # accepted although altered
            if cs["p"] == "dlogaggequal" and nm == "extend_responses":
                # same observation as the truncated-response attack, other direction: surplus inner response vectors are
                # ignored by the zip (theorem dlogaggequal_surplus_responses_ignored_refuted: the model accepts it as well)
                n_dae_surplus[0] += 1
                continue
            if nm.startswith("resp") and same_cm and cs["variant"] == "identity_generator":
                n_degenerate += 1  # phi not injective: the base of this component is the identity point
                continue
            if nm == "ctx_drop_op" and cs["k"] == "legacy" and cs["ctx"]["ops"][0] == ["", None] and "KF-C07-1" in known:
                ctx.known_finding("KF-C07-1", "legacy RandomOracle absorbs labels raw: label boundaries (and empty labels) are not part of the hashed bytes")
                continue
            viol({"case": cs, "perturbation": pe}, "%s: proof still accepted after altering %s" % (key, nm))

    # ------------------------------------------------------------ correspondence with the Coq model
    mod_cases = [cs for cs in cases if cs["p"] in MODELLED and cs.get("made") is True
                 and not (ctx.quick and cs.get("variant") == "small")]  # quick: four of the five variants are model-checked
    exprs, meta = [], []
    for i, cs in enumerate(mod_cases):
        exprs.append(honest_expr(cs))
        meta.append(("honest", i, None))
        pubs = [int(x, 16) for x in cs["pub"]]
        resp = scalars(cs)
        todo = [pe for pe in cs["pert"] if pe[0].startswith("pub") or pe[0].startswith("resp")]
        if ctx.quick and cs.get("variant") not in ("random", "identity_generator"):
            todo = [pe for pe in todo if not pe[1]]  # quick: perturbed-proof correspondence on two variants (+ every acceptance)
        cap = 5 if ctx.quick else 12
        if len(todo) > cap:  # first/last public field, first/last response component, everything that was accepted
            pubp = [pe for pe in todo if pe[0].startswith("pub")]
            resp_p = [pe for pe in todo if pe[0].startswith("resp")]
            pick = pubp[:1] + pubp[-1:] + resp_p[:1] + resp_p[-1:] + [pe for pe in todo if not pe[1]][:2]
            if not ctx.quick:
                pick += pubp[1:4] + resp_p[1:4]
            seen_nm, todo = set(), []
            for pe in pick:
                if pe[0] not in seen_nm:
                    seen_nm.add(pe[0])
                    todo.append(pe)
        for pe in todo:
            nm = pe[0]
            if nm.startswith("pub"):
                j = int(nm[3:])
                p2 = list(pubs)
                p2[j] = (p2[j] + 1) % R
                exprs.append(verify_expr(cs, p2, resp))
            else:
                j = int(nm[4:])
                r2 = list(resp)
                r2[j] = (r2[j] + 1) % R
                exprs.append(verify_expr(cs, pubs, r2))
            meta.append(("pert", i, pe))
    for cs in dae_attacks:
        ta = cs["trunc_attack"]
        if "resp" not in ta or cs not in mod_cases:
            continue
        k = kind(cs["k"])
        rb = bytes.fromhex(ta["resp"])
        zs = [int.from_bytes(rb[o:o + 32], "big") for o in cs["offs"]]
        exprs.append(HEXOUT_V % ("x_verify_dae_trunc %s %s %s %s %d %s" % (
            k, case_ctx(k, cs), zl([cs["n"] + 1] + [int(x, 16) for x in ta["pub"]]), nl(bytes.fromhex(ta["chal"])), cs["n"], zl(zs))))
        meta.append(("dae_attack", mod_cases.index(cs), None))
    # V1 label framing on its own (ties Transcript.v to append_label / with_domain)
    rcf, outf = c.run_bin(binp, ["findings", ctx.seed, 1], timeout=600)
    fnd = {}
    for l in outf.splitlines():
        if l.startswith("{"):
            o = json.loads(l)
            fnd[o["k"] + ":" + o.get("kind", "")] = o
    ab, cc, a, bc = list(b"ab"), list(b"c"), list(b"a"), list(b"bc")
    lab = [("v1_a", "domain V1 (@nil N) ++ lbl V1 %s ++ lbl V1 %s" % (nl(ab), nl(cc))),
           ("v1_b", "domain V1 (@nil N) ++ lbl V1 %s ++ lbl V1 %s" % (nl(a), nl(bc))),
           ("legacy_a", "lbl Legacy %s ++ lbl Legacy %s" % (nl(ab), nl(cc))),
           ("legacy_b", "lbl Legacy %s ++ lbl Legacy %s" % (nl(a), nl(bc)))]
    for nm, e in lab:
        exprs.append(e)
        meta.append(("label", nm, None))
    t0 = time.time()
    try:
        raw = c.coq_eval(ctx, "sigma", PREAMBLE, exprs, shard=max(20, len(exprs) // 16 + 1), timeout=1500, parse=False)
        terms = [c.parse_coq_term(b) if m[0] == "label" else parse_hexout(b) for m, b in zip(meta, raw)]
    except Exception as e:  # model no longer evaluates: broken tie
        ctx.violation({"layer": "model evaluation (Crypto/SigmaExec.v)", "error": repr(e)[-1500:]},
                      "the Coq model could not be evaluated", no_input=True)
        terms = None
    ctx.notes["model_eval_s"] = round(time.time() - t0, 1)
    n_corr = n_pert_corr = 0
    n_dae = [0, 0]
    honest_frames, one_eq = {}, {}
    if terms is not None:
        alltoks = []
        for m, t in zip(meta, terms):
            if m[0] != "label" and t is not None:
                for l in t[1]:
                    alltoks += l
        pts.need([x for x in alltoks if x >= TOK])
        for (kind_, i, pe), t, e in zip(meta, terms, exprs):
            if kind_ == "label":
                real = fnd.get("legacy_label_split:", {}).get(i)
                if real is None or sha3(bytes(t)) != real:
                    viol({"expr": e, "model_bytes": bytes(t).hex(), "impl_challenge": real},
                         "transcript label framing: sha3(model bytes) differs from the real challenge for %s" % i)
                continue
            cs = mod_cases[i]
            key = "%s/n=%s/%s/%s" % (cs["p"], cs.get("n"), cs.get("variant"), cs.get("k"))
            if kind_ == "dae_attack":
                ta = cs["trunc_attack"]
                pred_accept = t is not None and sha3(pts.expand(t[1][0])) == ta["chal"]
                n_dae[0] += 1
                n_dae[1] += 1 if (pred_accept and ta.get("accepted") is True) else 0
                if pred_accept and ta.get("accepted") is False:
                    # the implementation is STRICTER than the model: the reference module has been repaired (length check added)
                    ctx.notes["dlogaggequal_response_count_now_checked_by_code"] = ctx.notes.get("dlogaggequal_response_count_now_checked_by_code", 0) + 1
                elif pred_accept != (ta.get("accepted") is True):
                    viol({"case": cs, "attack": ta, "model_predicts_accept": pred_accept, "coq_expr": e},
                         "%s: truncated-response attack: implementation %s, model predicts %s" % (
                             key, "accepts" if ta.get("accepted") is True else "rejects", "accept" if pred_accept else "reject"))
                continue
            if kind_ == "pert" and t is not None and i in honest_frames and cs["p"] in ONE_EQ:
                hf, pf = honest_frames[i], t[1][0]
                if len(hf) == len(pf) and sum(1 for x, y in zip(hf, pf) if x != y and x >= TOK) == 1 and pe[0].startswith("resp"):
                    # a response that satisfies every verification equation but ONE (exactly one reconstructed
                    # commit-message element differs): must be rejected by model and code (checked below)
                    d1 = one_eq.setdefault(cs["p"], [0, 0])
                    d1[0] += 1
                    d1[1] += 1 if pe[1] else 0
            if kind_ == "honest":
                n_corr += 1
                if t is None and cs["ver"] is not True:
                    continue  # model and implementation both reject this prover output (KF-C07-3: vcom_eq with n = 0)
                if t is None or len(t[0]) != 3 or len(t[1]) != 2:
                    viol({"case": cs, "model": str(t)[:300]}, "%s: the model rejects a proof the implementation produced and accepts" % key)
                    continue
                (cm_ok, resp_ok, rel_ok), (frame, after) = t
                honest_frames[i] = frame
                fb, ab_ = pts.expand(frame), pts.expand(after)
                problems = []
                if rel_ok != "true":
                    problems.append("harness statement/witness do not satisfy the modelled relation")
                if cm_ok != "true":
                    problems.append("model: commit(recovered randomness) != reconstruction")
                if resp_ok != "true":
                    problems.append("model response from recovered randomness != implementation response")
                if sha3(fb) != cs["chal"]:
                    problems.append("sha3(model frame: context, public, commit message) != implementation challenge")
                if cs["post"] is not None and sha3(ab_) != cs["post"]:
                    problems.append("sha3(model transcript after proof) != implementation transcript state after proof")
                if cs.get("cm") and not fb.endswith(bytes.fromhex(cs["cm"])):
                    problems.append("model commit-message bytes != implementation's reconstructed commit message")
                if problems:
                    viol({"case": cs, "problems": problems, "model_frame": fb.hex(), "coq_expr": e},
                         "%s: implementation disagrees with the proved model: %s" % (key, "; ".join(problems)))
            else:
                n_pert_corr += 1
                rej = pe[1]
                if t is None:
                    pred_accept = False
                else:
                    pred_accept = sha3(pts.expand(t[1][0])) == cs["chal"]
                if pred_accept == rej:
                    viol({"case": cs, "perturbation": pe, "model_predicts_accept": pred_accept, "coq_expr": e},
                         "%s: verify on a perturbed proof (%s): implementation %s, model predicts %s" % (
                             key, pe[0], "rejects" if rej else "accepts", "accept" if pred_accept else "reject"))

    # ------------------------------------------------------------ known-finding witnesses replayed on the real code
    ls = fnd.get("legacy_label_split:")
    if ls:
        if ls["v1_a"] == ls["v1_b"]:
            viol({"replay": ls}, "V1 transcript: label sequences [ab;c] and [a;bc] give the same challenge")
        if ls["legacy_a"] == ls["legacy_b"]:
            if "KF-C07-1" in known:
                ctx.known_finding("KF-C07-1", "legacy RandomOracle absorbs labels raw: label boundaries (and empty labels) are not part of the hashed bytes")
            else:
                viol({"replay": ls}, "legacy RandomOracle: label sequences [ab;c] and [a;bc] feed identical bytes")
        else:
            ctx.violation({"replay": ls, "theorem": "frame_legacy_labels_refuted"},
                          "the model says legacy labels collide but the implementation separates them (model not faithful)", no_input=True)
    for kd in ("v1", "legacy"):
        g = fnd.get("com_enc_eq_generator_unbound:" + kd)
        if not g:
            viol({"layer": "findings replay", "output": outf[-800:]}, "findings replay produced no com_enc_eq record")
            continue
        if not g["accept_original"] or g["accept_altered_pubkey"]:
            viol({"replay": g}, "com_enc_eq z2=0 replay: original rejected or altered public key accepted")
        if g["accept_altered_generator"]:
            if "KF-C07-2" in known:
                ctx.known_finding("KF-C07-2", "ComEncEq::public omits encryption_in_exponent_generator: a proof whose response z_2 is 0 verifies for every value of that field")
            else:
                viol({"replay": g}, "com_enc_eq: proof accepted after altering encryption_in_exponent_generator")

    for kd in ("v1", "legacy"):
        g = fnd.get("vcom_eq_key_mismatch:" + kd)
        if not g:
            viol({"layer": "findings replay", "output": outf[-800:]}, "findings replay produced no vcom_eq_key_mismatch record")
        elif g["result"].get("accepted") is not False and "parse_error" not in g["result"]:
            # repaired by /repo commit 82fae784a (known_findings.json "fixed"): acceptance is a regression
            viol({"replay": g, "theorem": "vcom_eq_checks_every_commitment"},
                 "vcom_eq: a proof whose response map tis is keyed {1} while comms is keyed {0} is accepted: the individual commitment C_0 is never checked")

    ctx.cov["evaluations"] = len(cases) + n_pert + n_corr + n_pert_corr
    ctx.cov["traces_validated_against_impl"] = n_corr + n_pert_corr
    ctx.cov["distinct_nontrivial"] = len(nontrivial)
    ctx.notes["distribution"] = dist
    ctx.notes["perturbations"] = {"total": n_pert, "rejected": n_pert_rej, "degenerate_accept_identity_base": n_degenerate,
                                  "model_checked": n_pert_corr}
    ctx.notes["truncated_response_attacks_rejected"] = n_attack[0]
    ctx.notes["padded_attacks_degenerate_identity_points"] = n_degenerate_attack[0]
    # corpus/C07/one_equation_attacks.json: [model-evaluated, rejected by the implementation] per protocol
    ctx.notes["one_equation_attacks"] = {k: {"model_evaluated": v[0], "rejected_by_code": v[1]} for k, v in sorted(one_eq.items())}
    # OBSERVATION (private, unused reference module dlogaggequal.rs): the number of inner response vectors is not compared
    # with the number of aggregates; model and implementation agree that the crafted truncated proof is accepted
    ctx.notes["dlogaggequal_truncated_response_model_vs_code"] = {"compared": n_dae[0], "accepted_by_model_and_code": n_dae[1],
                                                                  "surplus_inner_vector_accepted_by_code_as_the_model_theorem_says": n_dae_surplus[0]}
    ctx.notes["modelled_protocols"] = sorted(MODELLED)
    ctx.notes["oracle_only_protocols"] = sorted(set(dist) - set(MODELLED))
    ctx.cov["samples"] += [{k: v for k, v in cs.items() if k in ("p", "n", "variant", "k", "ctx", "pub", "wit", "chal", "resp")}
                           for cs in cases[:2]]
    ctx.cov["rule"] = ("per round and variant (random, zero witness, all generators equal, identity-point generators, small scalars): "
                       "dlog, com_eq, com_enc_eq, com_mult, com_eq_different_groups, and(dlog,com_eq); sizes 0,1,2,17 (rotating, + random) of "
                       "aggregate_dlog, com_lin, vcom_eq, replicate(dlog); dlogaggequal (cfg hook) with 0,1,2,3(+) aggregates of 1,2,3 coefficients; enc_trans with 0,1,2,4 chunks; com_eq_sig and ps_sig_known with the number "
                       "of messages equal to / one below the key length (0,1,2,3,6); each under TranscriptProtocolV1 and legacy RandomOracle with a "
                       "random context (domain + labelled messages); com_ineq separately (+ its inner ComMult proof in the exponent). Every case: "
                       "completeness, one-at-a-time perturbation of every public field / context / challenge / response component / transcript kind, "
                       "and for vector-valued responses the crafted truncated-response attack. Non-trivial = the prover produced a proof. "
                       "Distinct = distinct hash of (protocol, size, variant, kind, statement, witness, context, proof).")
    if proof_broken:
        ctx.violation({"layer": "Coq proof obligations", "broken": proof_broken},
                      "theorem(s) of Props/C07.v no longer check (%s)" % proof_broken["failed_file"],
                      no_input=not ctx.violations)
    if ctx.tier == "thorough":
        ok, out = c.coqchk(ctx)
        if not ok:
            ctx.violation({"layer": "coqchk", "output": out[-2000:]}, "coqchk rejected Props/C07.vo", no_input=True)
