"""C04 - the state hash is canonical; persistence preserves contents and hash.

Proof: coq/Props/C04.v (a well-formed radix tree is determined by its contents; every history of the
C03 machine freezes to the canonical tree of its final contents, hence the hash depends on the contents
only - for EVERY hash function; the hash is the documented Merkle construction = fold of the preimage tree;
node record codec round trip, store/load, migrate, refreeze collects nothing).
Tie: random histories (harness c04) on MutableTrie / PersistentState compared operation by operation with
the extracted Coq machine [c_step]: hash (also folded from the model's preimage tree with hashlib's SHA-256),
collected bytes (SizeCollector), contents, and - byte for byte, via digests - the backing store after
store_update / load, the serialised form, the migrated store.  Direct oracles on the implementation alone:
equal contents => equal hash (rebuilds through other histories), persistence preserves contents and hash,
refreezing an unmodified state collects 0."""
import hashlib
import json
import os
import subprocess

from . import common as c

COQ_MODEL_TARGETS = ["Trie/Radix.vo", "Trie/MerkleHash.vo", "Trie/Persist.vo", "Trie/CacheStatusProofs.vo"]

STATUS_PRE = ("From Coq Require Import NArith List.\n"
              "From CB Require Import Trie.Radix Trie.Canon Trie.MerkleHash Trie.Persist Trie.CacheStatus "
              "Trie.CacheStatusProofs.\nImport ListNotations.\nLocal Open Scope N_scope.\n")
SOP = {"S": "SoStore", "L": "SoLoad", "C": "SoCache", "X": "SoMigrate", "Z": "SoSerial"}
STATUS_THEOREMS = ("status_machine_refines / cache_and_load_preserve / store_update_settles_status / "
                   "second_store_update_writes_nothing / status_invariant (the status machine s_step of CacheStatus.v); "
                   "the CachedRef statuses of the implementation (hook verif_status_census) disagree with the model or with "
                   "the property evaluated directly on the implementation")


def status_expr(items, ops):
    kv = []
    for it in items:
        k, v = it.split(":")
        b, n = v.split("*")
        kb = "; ".join(str(x) for x in bytes.fromhex(k))
        kv.append("(nib [%s], repeat %s %s)" % (kb, b, n))
    return ("map (fun x => (cens_list (fst x), snd x)) (s_run toy_sha_c [%s] (mkS empty_store "
            "(option_map s_of_tree (canon [%s]))))" % ("; ".join(SOP[o] for o in ops), "; ".join(kv)))


def status_correspondence(ctx, binp, n):
    """CachedRef status census of the implementation after every persistence operation vs. the Coq status machine."""
    rc, out = c.run_bin(binp, ["status", ctx.seed, n], timeout=900)
    if rc != 0:
        ctx.violation({"layer": "harness status run", "output": out[-2000:]}, "status run: harness crashed", no_input=True)
        return {}
    cases, res, stats, panics = {}, {}, {}, {}
    order = []
    for l in out.split("\n"):
        if l.startswith("K "):
            t = l.split(" ", 2)
            cases[t[1]] = t[2]
            order.append(t[1])
        elif l.startswith("R "):
            t = l.split(" ", 2)
            res[t[1]] = t[2] if len(t) > 2 else ""
        elif l.startswith("O "):
            t = l.split(" ", 2)
            panics[t[1]] = t[2] if len(t) > 2 else ""
        elif l.startswith("S "):
            stats = json.loads(l[2:])
    exprs, ids = [], []
    for hid in order:
        items, ops = cases[hid].rsplit(";", 1)
        if "M" in ops:
            continue
        exprs.append(status_expr([i for i in items.split(",") if i], ops))
        ids.append(hid)
    model = {}
    try:
        terms = c.coq_eval(ctx, "status", STATUS_PRE, exprs, shard=max(10, len(exprs) // 12 + 1), timeout=900)
        for hid, t in zip(ids, terms):
            model[hid] = "|".join(",".join(str(x) for x in list(cl) + [ln]) for cl, ln in t)
    except Exception as e:
        ctx.violation({"layer": "evaluation of the Coq status machine (s_run)", "error": repr(e)[-1500:]},
                      "status run: the model could not be evaluated", no_input=True)
        return stats
    nbad = 0
    compared = 0
    for hid in order:
        impl = res.get(hid)
        problems = []
        if impl is None:
            problems.append("no-impl-output")
        else:
            if "!" in impl or "PANIC" in impl:
                problems.append("impl-oracle")
            if hid in model:
                compared += 1
                if model[hid] != impl:
                    problems.append("impl!=model")
        key = c.digest("K" + cases[hid])
        ctx._seen.add(key)
        if impl and "PANIC" not in impl:
            ctx._distinct.add(key)
        if not problems:
            continue
        nbad += 1
        if nbad > 2:
            continue
        summary = ("CachedRef status census: %s; case %s: implementation -> %s; model -> %s%s" % (
            "/".join(problems), cases[hid][:300], (impl or "")[:400], model.get(hid, "(not modelled: contains M)")[:400],
            ("; panic: " + panics[hid][:200]) if hid in panics else ""))
        ctx.violation({"tag": "K", "id": hid, "case": cases[hid], "implementation": impl, "model": model.get(hid),
                       "theorem": STATUS_THEOREMS,
                       "how_to_replay": "c04 status <seed> <n> regenerates the case (seed %s, case %s); census = "
                                        "nodes Disk,Memory,Cached, values Disk,Memory,Cached,inline, store length" % (ctx.seed, hid)},
                      summary[:1500])
    nops = sum(len(cases[h].rsplit(";", 1)[1]) for h in order)
    ctx.cov["evaluations"] += nops
    ctx.cov["traces_validated_against_impl"] += compared
    ctx.cov["distinct_nontrivial"] = len(ctx._distinct)
    for hid in order[:2]:
        ctx.cov["samples"].append({"status_case": cases[hid][:300], "implementation": (res.get(hid) or "")[:300]})
    stats = dict(stats)
    stats.update({"cases": len(order), "compared_with_model": compared, "mismatching": nbad})
    return stats


def path_tag_boundary(ctx, obs):
    """write_node_path_and_value_tag (hook verif_path_tag) vs. the model's path_tag up to the u32 boundary; what the code
    does above it is recorded (design/C04.md: observation O-C04-1)."""
    pt = obs.get("path_tag")
    if not pt:
        ctx.violation({"layer": "directed cases", "missing": "path_tag"}, "directed case path_tag did not run", no_input=True)
        return
    keys = sorted(pt.keys(), key=lambda k: (int(k.split(":")[0]), k))
    inr = [k for k in keys if int(k.split(":")[0]) < 2 ** 32]
    exprs = ["path_tag %s %s" % (k.split(":")[0], "true" if k.endswith(":1") else "false") for k in inr]
    terms = c.coq_eval(ctx, "pathtag", STATUS_PRE, exprs, shard=len(exprs))
    for k, t in zip(inr, terms):
        m = bytes(t).hex()
        if m != pt[k]:
            ctx.violation({"case": "write_node_path_and_value_tag(stem_len=%s, has_value=%s)" % tuple(k.split(":")),
                           "implementation": pt[k], "model": m, "theorem": "node_record_roundtrip (path_tag / dec_path)"},
                          "stem length tag: implementation writes %s, model %s for stem_len:has_value = %s" % (pt[k], m, k))
    over = {k: pt[k] for k in keys if int(k.split(":")[0]) >= 2 ** 32}
    # KF-C04-1: above the proved bound the writer truncates the stem length (stem_len as u32).  Reported as the listed
    # known finding only in exactly that form (tag byte with the explicit-length bit, then (stem_len mod 2^32) big endian);
    # anything else above the bound is recorded in the notes, and every length below 2^32 was compared with the model above.
    listed = any(f.get("id") == "KF-C04-1" for f in c.load_known_findings().get("findings", []))
    trunc = [k for k in over if len(over[k]) == 10 and int(over[k][:2], 16) & 0x80
             and int(over[k][2:], 16) == int(k.split(":")[0]) % 2 ** 32]
    if trunc:
        what = ("write_node_path_and_value_tag truncates a stem length >= 2^32 nibbles to u32 (e.g. %s -> %s): a key of >= 2^31 "
                "bytes is stored with a wrong length and cannot be read back" % (trunc[0], over[trunc[0]]))
        if listed:
            ctx.known_finding("KF-C04-1", what)
        else:
            ctx.violation({"case": "write_node_path_and_value_tag(stem_len:has_value = %s)" % trunc[0], "implementation": over[trunc[0]],
                           "expected": "an error or a faithful length; the stored record must decode to the same stem"}, what)
    ctx.notes["stem_length_boundary"] = {
        "bound": "stems < 2^32 nibbles = inserted keys <= 2^31-1 bytes (key_bound_is_u32_stem)",
        "at_2^32-1": {k: pt[k] for k in inr if k.startswith("4294967295:")},
        "over_the_boundary (stem_len as u32 wraps silently; unreachable for keys <= 2^31-1 bytes)": over}




def parse_lines(out):
    d = {"C": {}, "R": {}, "M": {}, "Q": {}, "O": {}, "D": {}}
    stats = {}
    order = []
    for l in out.split("\n"):
        if len(l) < 2 or l[1] != " ":
            continue
        tag = l[0]
        if tag == "S":
            try:
                stats = json.loads(l[2:])
            except Exception:
                pass
            continue
        if tag not in d:
            continue
        t = l.split(" ", 2)
        d[tag][t[1]] = t[2] if len(t) > 2 else ""
        if tag == "C":
            order.append(t[1])
    return d, stats, order


def run_model(runner, text, mode="model", timeout=3000):
    p = subprocess.run([runner, mode], input=text.encode(), stdout=subprocess.PIPE, stderr=subprocess.STDOUT,
                       timeout=timeout)
    out = p.stdout.decode("utf-8", "replace")
    if p.returncode != 0:
        raise RuntimeError("model runner failed: %s" % out[-1500:])
    d, _, _ = parse_lines(out)
    return d["M"], d["Q"]


def fold_preimage(s):
    """Fold a preimage tree `B<hex>` | `H(p,p,...)` with SHA-256 (hashlib); returns bytes."""
    pos = [0]

    def node():
        ch = s[pos[0]]
        if ch == "B":
            j = pos[0] + 1
            while j < len(s) and s[j] in "0123456789abcdef":
                j += 1
            b = bytes.fromhex(s[pos[0] + 1:j])
            pos[0] = j
            return b
        if ch == "H":
            assert s[pos[0] + 1] == "("
            pos[0] += 2
            parts = []
            if s[pos[0]] == ")":
                pos[0] += 1
                return hashlib.sha256(b"").digest()
            while True:
                parts.append(node())
                if s[pos[0]] == ",":
                    pos[0] += 1
                    continue
                assert s[pos[0]] == ")"
                pos[0] += 1
                break
            return hashlib.sha256(b"".join(parts)).digest()
        raise ValueError("bad preimage at %d: %r" % (pos[0], s[pos[0]:pos[0] + 20]))

    r = node()
    if pos[0] != len(s):
        raise ValueError("trailing preimage text")
    return r


def frozen_hashes(outs):
    return [o[1:65] for o in outs.split(";") if o.startswith("h") and len(o) > 65 and o[65] == ","]


def problems_of(impl, model, pre):
    """Compare one history's observations.  Returns list of problem tags."""
    problems = []
    if impl is None:
        return ["no-impl-output"]
    if model is not None and model != impl:
        problems.append("impl!=model")
    if "!" in impl or "PANIC" in impl:
        problems.append("impl-oracle")
    if model is not None and "!" in model:
        problems.append("model-self-check")
    if pre is not None:
        hs = frozen_hashes(impl)
        ps = [p for p in pre.split(";") if p]
        if len(ps) == len(hs):
            for h, p in zip(hs, ps):
                try:
                    if fold_preimage(p).hex() != h:
                        problems.append("hash!=fold(preimage)")
                        break
                except Exception:
                    problems.append("preimage-unparsable")
                    break
        elif model == impl:
            problems.append("preimage-count")
    return problems


def first_diff(a, b):
    xa, xb = a.split(";"), b.split(";")
    for i in range(max(len(xa), len(xb))):
        ea = xa[i] if i < len(xa) else "<missing>"
        eb = xb[i] if i < len(xb) else "<missing>"
        if ea != eb:
            return i, ea, eb
    return None


def evaluate(binp, runner, hid, ops, verbose=False):
    line = "C %s %s\n" % (hid, ";".join(ops))
    env = {"C04_VERBOSE": "1"} if verbose else None
    rc, out = c.run_bin(binp, ["replay"], timeout=600, input=line.encode(), env=env)
    d, _, _ = parse_lines(out)
    impl = d["R"].get(hid)
    res = {"impl": impl, "problems": [], "panic": d["O"].get(hid)}
    if rc != 0 or impl is None:
        res["problems"].append("harness replay failed rc=%s: %s" % (rc, out[-300:]))
        return res
    try:
        m, q = run_model(runner, line, "verbose" if verbose else "model")
    except Exception as e:
        res["problems"].append("model runner: %r" % (e,))
        return res
    res["model"] = m.get(hid)
    res["preimages"] = q.get(hid)
    res["problems"] = problems_of(impl, res["model"], res["preimages"])
    return res


def shrink(binp, runner, hid, ops, budget=200):
    def bad(o):
        if not o:
            return False
        try:
            return bool(evaluate(binp, runner, hid, o)["problems"])
        except Exception:
            return False
    cur = list(ops)
    n = 2
    calls = 0
    while len(cur) >= 2 and calls < budget:
        chunk = max(1, len(cur) // n)
        reduced = False
        i = 0
        while i < len(cur) and calls < budget:
            cand = cur[:i] + cur[i + chunk:]
            calls += 1
            if cand and bad(cand):
                cur = cand
                reduced = True
                n = max(n - 1, 2)
            else:
                i += chunk
        if not reduced:
            if chunk == 1:
                break
            n = min(n * 2, len(cur))
    return cur


def describe(res, ops):
    impl = res.get("impl") or ""
    model = res.get("model")
    parts = []
    if model is not None and model != impl:
        fd = first_diff(impl, model)
        if fd:
            i, a, b = fd
            parts.append("op #%d `%s`: implementation -> %s, model -> %s" % (
                i, ops[i][:50] if i < len(ops) else "?", a[:150], b[:150]))
    for i, o in enumerate(impl.split(";")):
        if "!" in o or o == "PANIC":
            parts.append("op #%d `%s`: direct oracle on the implementation: %s" % (
                i, ops[i][:50] if i < len(ops) else "?", o[-120:] if "!" in o else o))
            break
    if "hash!=fold(preimage)" in res.get("problems", []):
        parts.append("PersistentState::hash differs from SHA-256 folded over the model's preimage tree")
    if res.get("panic"):
        parts.append("panic: %s" % res["panic"][:200])
    return "; ".join(parts) or "; ".join(res.get("problems", []))


THEOREMS = ("canonical_unique / hash_history_independent (the model's hash depends on the contents only), "
            "store_load_roundtrip / modified_state_store_roundtrip / serialize_deserialize_roundtrip / migrate_preserves / "
            "refreeze_collects_nothing / collector_counts_exactly_new_data (the model preserves contents and hash, charges "
            "nothing for an unmodified state and exactly the rebuilt nodes and owned values otherwise); "
            "the implementation disagrees with the model or with the property evaluated directly on it")


def report(ctx, binp, runner, hid, ops, problems, what):
    cut = len(ops)
    res0 = evaluate(binp, runner, hid, ops)
    if res0.get("model") is not None and res0.get("impl") is not None and res0["model"] != res0["impl"]:
        fd = first_diff(res0["impl"], res0["model"])
        if fd:
            cut = min(cut, fd[0] + 1)
    if res0.get("impl"):
        for i, o in enumerate(res0["impl"].split(";")):
            if "!" in o or o == "PANIC":
                cut = min(cut, i + 1)
                break
    start = ops[:cut]
    if cut < len(ops) and not evaluate(binp, runner, hid, start)["problems"]:
        start = ops
    small = shrink(binp, runner, hid, start)
    res = evaluate(binp, runner, hid, small)
    if not res["problems"]:
        small = ops
        res = evaluate(binp, runner, hid, small)
    only_model = (res["problems"] or problems) == ["model-self-check"]
    summary = "%s: %s (history of %d ops, shrunk from %d): %s" % (
        what, "/".join(res["problems"] or problems), len(small), len(ops), describe(res, small))
    replay = {"tag": "C", "id": hid, "history": ";".join(small), "original_length": len(ops),
              "implementation": res.get("impl"), "model": res.get("model"), "theorem": THEOREMS}
    if only_model:
        replay["layer"] = "extracted model self-check (model store/load or serialize/deserialize round trip)"
    ctx.violation(replay, summary[:1500], no_input=only_model)


def correspondence(ctx, binp, runner, seed, n, maxlen, what, max_report=2):
    rc, out = c.run_bin(binp, ["hist", seed, n, maxlen], timeout=3000)
    if rc != 0:
        ctx.violation({"layer": "harness run", "output": out[-2000:]}, "%s: harness crashed" % what, no_input=True)
        return {"histories": 0}
    d, stats, order = parse_lines(out)
    text = "".join("C %s %s\n" % (hid, d["C"][hid]) for hid in order)
    model, pre = run_model(runner, text)
    nbad = 0
    ops_total = 0
    nfold = 0
    for hid in order:
        h = d["C"][hid]
        impl = d["R"].get(hid)
        ops_total += h.count(";") + 1 if h else 0
        key = c.digest(h)
        ctx._seen.add(key)
        if impl and any(o.startswith("h") and not o.endswith("{}") for o in impl.split(";")):
            ctx._distinct.add(key)
        problems = problems_of(impl, model.get(hid), pre.get(hid))
        nfold += len(frozen_hashes(impl or ""))
        if not problems:
            continue
        nbad += 1
        if nbad > max_report:
            continue
        report(ctx, binp, runner, hid, [o for o in h.split(";") if o], problems, what)
    stats = dict(stats)
    stats.update({"ops_total": ops_total, "mismatching": nbad, "hashes_folded_from_preimage": nfold})
    ctx.cov["evaluations"] += ops_total
    ctx.cov["traces_validated_against_impl"] += len(order)
    ctx.cov["distinct_nontrivial"] = len(ctx._distinct)
    for hid in [x for x in order if 0 < d["C"][x].count(";") < 6][:2]:
        ctx.cov["samples"].append({"history": d["C"][hid][:500], "implementation": (d["R"].get(hid) or "")[:700]})
    return stats


def corpus_replay(ctx, binp, runner):
    d = os.path.join(c.VERIF, "corpus", "C04")
    n = 0
    if not os.path.isdir(d):
        return 0
    for fn in sorted(os.listdir(d)):
        if not fn.endswith(".txt"):
            continue
        for l in open(os.path.join(d, fn)):
            l = l.rstrip("\n")
            if not l.startswith("C "):
                continue
            t = l.split(" ", 2)
            ops = [o for o in (t[2] if len(t) > 2 else "").split(";") if o]
            res = evaluate(binp, runner, t[1], ops)
            n += 1
            if res["problems"]:
                ctx.violation({"tag": "C", "id": t[1], "history": ";".join(ops), "implementation": res.get("impl"),
                               "model": res.get("model"), "corpus_file": fn},
                              "corpus case %s/%s: %s: %s" % (fn, t[1], "/".join(res["problems"]), describe(res, ops)))
    ctx.cov["evaluations"] += n
    return n


def replay_file(ctx, binp, runner):
    obj = json.load(open(ctx.replay))
    r = obj.get("replay", obj)
    if "history" not in r:
        ctx.log("replay file names no input (%s)" % r.get("layer", r.get("theorem", "?")))
        return
    ops = [o for o in r["history"].split(";") if o]
    res = evaluate(binp, runner, r.get("id", "c0"), ops)
    ctx.log("replay: implementation:", (res.get("impl") or "")[:400])
    ctx.log("replay: model         :", (res.get("model") or "")[:400])
    if res["problems"]:
        ctx.violation({"tag": "C", "id": r.get("id", "c0"), "history": r["history"], "implementation": res.get("impl"),
                       "model": res.get("model")},
                      "replay still fails: %s: %s" % ("/".join(res["problems"]), describe(res, ops)))
    else:
        ctx.log("replay: no disagreement any more")


def run(ctx):
    ctx.assumptions += [
        "SHA-256 is abstract in every theorem (a section variable; no injectivity or collision resistance is used); "
        "the only hypothesis about it, in the storage round-trip theorems, is that its output has 32 bytes",
        "theorems are about the functional model (radix tree of Radix.v, annotated tree / record store of Persist.v); "
        "the arena of MutableTrie, Arc/RwLock links and CachedRef::{Disk,Memory,Cached} are tied to it by the "
        "differential correspondence (hash, collected bytes, contents, store / serialised / migrated bytes) only",
        "store_load_roundtrip / modified_state_store_roundtrip assume well-formed stems of the frozen tree (nibbles < 16, "
        "stem length < 2^32: tree_ok) and a store below 2^64 bytes; serialize_deserialize_roundtrip assumes stems, values and "
        "node count below 2^32 (the widths of the format); the *_reachable versions derive all of this for every state "
        "reachable by operations of the machine c_step whose INSERTED keys are byte strings of at most 2^31-1 bytes "
        "(= stems < 2^32 nibbles, what `stem_len as u32` can encode) and whose values are shorter than 2^32 bytes; they "
        "keep only the resource bounds (store < 2^64 bytes, node count < 2^32)",
        "CachedRef statuses: the status machine (CacheStatus.v) keeps the contents also below a Disk link (ghost = what "
        "the store holds, by `consistent`); it covers the persistence operations on a frozen state (store_update, "
        "load_from_location, cache, migrate, serialize+deserialize); statuses across thaw/modify/freeze are checked on the "
        "implementation directly only (after store_update nothing below the root is Memory; a repeated store_update writes "
        "the root and top record only)",
        "backing store = in-memory Vec<u8> (BackingStoreStore for Vec<u8>, Loader<&[u8]>); file/OS behaviour, "
        "the FFI store/load callbacks and concurrent use are out of scope",
        "the `slab` crate is replaced by a functional shim with the same LIFO key reuse",
    ]
    ctx._seen = set()
    ctx._distinct = set()
    ok, info = c.coq_prove(ctx)
    proof_broken = None
    if not ok:
        proof_broken = info
        ctx.log("proof obligations broken:", info.get("failed_file"), str(info.get("error"))[-400:])
        c.coq_build(ctx, COQ_MODEL_TARGETS)
    ok, runner = c.extract_build(ctx, "ExtractC04.v", "driver_c04.ml", "c04")
    if not ok:
        ctx.violation({"layer": "extraction of the Coq model", "error": runner},
                      "the extracted model runner does not build", no_input=True)
        return
    ok, binp = c.cargo_build(ctx, "c04")
    if not ok:
        ctx.violation({"layer": "harness build against the repository (hook H1 wrappers)", "error": binp},
                      "harness no longer builds against the implementation", no_input=True)
        return
    if getattr(ctx, "replay", None):
        replay_file(ctx, binp, runner)
        return
    ncorp = corpus_replay(ctx, binp, runner)
    total = 2500 if ctx.quick else 30000
    chunk = 2500 if ctx.quick else 10000
    agg = {}
    done = 0
    i = 0
    while done < total:
        n = min(chunk, total - done)
        st = correspondence(ctx, binp, runner, ctx.seed + i * 1000003, n, 180 if ctx.quick else 400,
                            "state history (hash / persistence / collector)")
        for k, v in st.items():
            if isinstance(v, (int, float)):
                agg[k] = agg.get(k, 0) + v
        done += n
        i += 1
        if len([1 for _, _, ni in ctx.violations if not ni]) >= 3:
            break
    ctx.notes["history_distribution"] = agg
    ctx.notes["corpus_cases"] = ncorp
    rc, out = c.run_bin(binp, ["directed"], timeout=300)
    obs = {}
    for l in out.split("\n"):
        if l.startswith("D "):
            t = l.split(" ", 2)
            try:
                obs[t[1]] = json.loads(t[2])
            except Exception:
                pass
    ctx.notes["directed"] = obs
    try:
        path_tag_boundary(ctx, obs)
    except Exception as e:
        ctx.violation({"layer": "path_tag boundary", "error": repr(e)[-800:]}, "path_tag boundary check failed to run",
                      no_input=True)
    ctx.notes["status_distribution"] = status_correspondence(ctx, binp, 400 if ctx.quick else 6000)
    q = obs.get("refreeze")
    if rc != 0 or not q:
        ctx.violation({"layer": "directed cases", "output": out[-1500:]}, "directed cases did not run", no_input=True)
    else:
        if q.get("unchanged_collected") != 0 or not q.get("same_hash"):
            ctx.violation({"case": "from_iterator {aa,ab(70 bytes),abc,b,ba}; thaw; lookup every key; freeze with "
                                   "SizeCollector", "observed": q},
                          "refreezing an unmodified state collects %s bytes / changes the hash" % q.get("unchanged_collected"))
        if not (0 < q.get("one_key_collected", 0) <= 120) or not q.get("hash_changed"):
            ctx.violation({"case": "thaw; insert abc:=09; freeze with SizeCollector (expected: only the path to abc)",
                           "observed": q}, "modifying one key collects %s bytes" % q.get("one_key_collected"))
    a = obs.get("api")
    if a is not None and (a.get("panic") or not a.get("rollback_invisible_and_hash_canonical")
                          or a.get("refreeze_collected") != 0 or not a.get("refreeze_same_hash")):
        ctx.violation({"case": "MutableState API: thaw; get_inner; insert zz; make_fresh_generation (insert, delete; dropped); "
                               "freeze with SizeCollector; compare with from_iterator of the same contents; thaw; freeze",
                       "observed": a}, "MutableState API: hash not canonical / refreeze charges: %s" % a)
    for shape in ("memory", "stored", "cached"):
        m = obs.get("migrate_source_" + shape)
        if m is None or m.get("panic") or not m.get("migrated_state_ok") or not m.get("source_readable_with_old_store"):
            ctx.violation({"case": "from_iterator {aa,ab(70 bytes),abc,b,ba} (%s); migrate to a fresh store; read the migrated "
                                   "state with the new store and the SOURCE state with its old store" % shape, "observed": m},
                          "migrate (%s source): migrated state wrong or the source state no longer readable with its own "
                          "store: %s" % (shape, m))
    ctx.cov["rule"] = (
        "histories of 3-185 operations (40% 2-17, 40% 15-65, 20% 60-180 before the closing freeze) over an adversarial key "
        "universe per history (as C03: 1-3 bases of 0-70 bytes from {00,ff,10,01,0f,f0,11,ab,80,7f,random}; variants "
        "appending a byte, flipping its low or high nibble, extending by 1-5 bytes, proper prefixes, the empty key; 10% keys "
        "outside the universe); values of length 0,1,63,64,65,66,300 and 0-11; operations insert 29% / delete 12% / "
        "delete_prefix 4% / lookup 5% / get_mut+write 6% / iterate 3% / new_generation 4% / normalize 4% / freeze 10% "
        "(followed in 60% by a refreeze pattern: nothing, reads only, or one modified key) / store_update 5% / "
        "store_update+load_from_location 5% / cache 3% / serialize+deserialize 3% / migrate to a fresh store 3%; every "
        "history ends with a freeze, half of them with one more persistence operation and freeze; at every freeze the "
        "harness rebuilds the same contents through two other histories (from_iterator over a random permutation; a noisy "
        "history with junk keys, overwritten values, a rolled-back generation and a store/reload in the middle) and "
        "compares hashes; non-trivial = at least one freeze of a non-empty state; distinct = distinct operation list. "
        "STATUS run: states of 1-7 keys from the same key universe (keys cut to 12 bytes; values one byte repeated 0-5, 63, 64, "
        "65, 70 times) built by from_iterator, then 3-10 operations from store_update 40% / store_update+load 20% / cache 20% "
        "/ migrate 10% / serialize+deserialize 10% (a quarter of the cases also thaw+modify one key+freeze: direct oracles "
        "only); after every operation the census of CachedRef statuses (node links Disk/Memory/Cached, indirect values "
        "Disk/Memory/Cached, inline values; hook verif_status_census) and the store length are compared with the Coq status "
        "machine s_run; direct oracles: !SETTLED (after store_update at most the root is Memory, no value Memory), !REWRITE "
        "(store_update of a settled state appends the root record and the top record only), !NOTCACHED, !SOURCESTATUS "
        "(migrate / serialize leave the source statuses), !READCHANGES (hash / iteration / lookup change no status), !HASH")
    if proof_broken:
        found = any(not ni for _, _, ni in ctx.violations)
        ctx.violation({"layer": "Coq proof obligations", "broken": proof_broken},
                      "theorem(s) of Props/%s.v no longer check (%s)" % (ctx.prop, proof_broken.get("failed_file")),
                      no_input=not found)
    if ctx.tier == "thorough":
        ok, out = c.coqchk(ctx)
        if not ok:
            ctx.violation({"layer": "coqchk", "output": out[-2000:]}, "coqchk rejected Props/%s.vo" % ctx.prop,
                          no_input=True)
