"""C15 - iterator locks and entry handles protect contract state invariants.

Proof: coq/Props/C15.v (prefix map = multiset for every history; exact specifications of
check_has_no_prefix / is_or_has_prefix; refused operations leave the generation unchanged in every
reachable state; delete_iter releases exactly its own reference; overflow is an error; handles to
deleted entries are invalid) together with history_refines of Props/C03.v (lazy iterators = snapshots).
Tie: (1) PrefixesMap alone against the extracted prefix-map model; (2) lock-heavy state histories
against the extracted model + specification + in-harness reference incl. the lock multiset after every
operation; (3) the contract-visible InstanceState operations with interrupts (commit / rollback of
re-entrant calls, stale and forged ids) against the extracted InstanceState model and an independent reference."""
import json
from . import common as c
from . import trie_common as tc


def run(ctx):
    ctx.assumptions += [
        "theorems are about the functional models (prefix trie, radix tree, state machine); the slab-based PrefixesMap and "
        "the arena of MutableTrie are tied by the differential correspondence (the real `slab` crate is replaced by a "
        "functional shim with the same LIFO key reuse)",
        "the InstanceState layer (generation counter, entry_mapping, iterators, result encodings, migrate on resume, "
        "entry_read/write/size/resize) is modelled in coq/Trie/InstanceState.v on top of the trie machine; the extracted model is "
        "the oracle of the `inst` histories (the in-harness reference is kept as a second opinion); energy and the 2^30 size "
        "limits are not modelled",
        "interrupts are simulated as the scheduler drives them: suspend, make_fresh_generation, inner call, then resume on the "
        "new state with state_updated=true iff the inner call succeeded and touched the state, else on the old state",
        "energy accounting of these operations is not checked here (C02/C14)",
    ]
    st = tc.setup(ctx)
    if st is None:
        return
    proof_broken, binp, runner = st
    if getattr(ctx, "replay", None):
        tc.replay_file(ctx, binp, runner)
        return
    ncorp = tc.corpus_replay(ctx, binp, runner, "C15")
    q = ctx.quick
    s1 = tc.correspondence_chunked(ctx, binp, runner, ["prefix"], ctx.seed, 3000 if q else 60000, "P",
                                   "PrefixesMap history", with_spec=False)
    ctx.notes["prefix_map_histories"] = s1
    s2 = tc.correspondence_chunked(ctx, binp, runner, ["hist", "c15"], ctx.seed, 4000 if q else 80000, "H",
                                   "state history (profile c15)")
    ctx.notes["history_distribution_c15"] = s2
    s3 = tc.correspondence_chunked(ctx, binp, runner, ["inst"], ctx.seed, 4000 if q else 80000, "J",
                                   "InstanceState history", with_spec=False)
    ctx.notes["instance_state_histories"] = s3
    rc, out = c.run_bin(binp, ["directed"], timeout=300)
    obs = {}
    for l in out.split("\n"):
        if l.startswith("D "):
            t = l.split(" ", 2)
            try:
                obs[t[1]] = json.loads(t[2])
            except Exception:
                pass
    ctx.notes["directed"] = obs
    ctx.notes["corpus_cases"] = ncorp
    ov = obs.get("overflow")
    if not ov or not ov.get("ok"):
        ctx.violation({"case": "MutableTrie: iter on `a`, lock count of `a` set to u32::MAX (hook), iter on `a` again",
                       "observed": ov},
                      "lock-count overflow is not reported as TooManyIterators without changing the locks: %s" % ov)
    ctx.cov["rule"] = (
        "prefix-map histories: 1-300 insert/delete/check_has_no_prefix/is_or_has_prefix/dump over the adversarial key universe "
        "(see C03), counts driven to u32::MAX-2..u32::MAX through the hook before inserting; state histories: profile c15 "
        "(iter 14%, next 16%, delete_iter 6%, insert 16%, delete 12%, delete_prefix 7%, handles 13%, generations 6%, freeze/thaw "
        "2%) with several iterators on equal, nested and disjoint prefixes, the lock multiset compared after every operation; "
        "InstanceState histories: 1-250 contract-level operations with up to 2 nested interrupts (commit 2/3, rollback 1/3), ids "
        "kept across interrupts (stale use) and forged ids; non-trivial = a result other than skip/locked/none; distinct = "
        "distinct hash of the operation list")
    tc.finish(ctx, proof_broken)
