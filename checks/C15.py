"""C15 - iterator locks and entry handles protect contract state invariants.

Proof: coq/Props/C15.v (prefix map = multiset for every history; exact specifications of
check_has_no_prefix / is_or_has_prefix; refused operations leave the generation unchanged in every
reachable state; delete_iter releases exactly its own reference; overflow is an error; handles to
deleted entries are invalid) together with history_refines of Props/C03.v (lazy iterators = snapshots).
Tie: (1) PrefixesMap alone against the extracted prefix-map model; (2) lock-heavy state histories
against the extracted model + specification + in-harness reference incl. the lock multiset after every
operation; (3) the contract-visible InstanceState operations with interrupts (commit / rollback of
re-entrant calls, stale and forged ids) against the extracted InstanceState model and an independent reference;
(4) harness c15 `slab`: the real slab of PrefixesMap (hook slab_dump) cell by cell after every operation against sm_trace of
coq/Trie/SlabPrefixMap.v (+ structural oracle on the real slab); (5) `limits`: InstanceStateEntry::new/split against h_enc/h_split."""
import json
import hashlib
from . import common as c
from . import trie_common as tc


def _klist(hexkey):
    return "[" + "; ".join(str(int(hexkey[i:i + 2], 16)) for i in range(0, len(hexkey), 2)) + "]"


def _slab_part(ctx, binp):
    """Slab-level tie: real PrefixesMap (hook slab_dump) against sm_trace of coq/Trie/SlabPrefixMap.v after EVERY
    operation: result, root key, nodes.len(), every occupied cell (slab key, count, children list), plus the
    direct structural oracle on the real slab (no dangling key, no leak, no empty leaf, children strictly sorted)."""
    n = 150 if ctx.quick else 6000
    rc, out = c.run_bin(binp, ["slab", str(ctx.seed), str(n)], timeout=600)
    cases = [json.loads(l[2:]) for l in out.split("\n") if l.startswith("S ")]
    stats = {"histories": len(cases), "ops": 0, "by_op": {}, "max_cells": 0, "key_reuse_seen": 0, "root_dropped": 0,
             "too_many_iterators": 0, "pruned_branch": 0}
    if rc != 0 or len(cases) != n:
        ctx.violation({"layer": "c15 slab harness", "rc": rc, "lines": len(cases)}, "c15 slab harness failed", no_input=True)
        return stats
    opmap = {"i": "HOp (PIns %s)", "d": "HOp (PDel %s)", "c": "HOp (PCheck %s)", "h": "HOp (PIohp %s)"}
    exprs = []
    for cs in cases:
        ops = []
        for name, k, cnt in cs["ops"][:len(cs["tr"])]:
            ops.append(("HSet %s %d" % (_klist(k), cnt)) if name == "s" else opmap[name] % _klist(k))
        exprs.append("sm_trace [%s] sm_empty" % "; ".join(ops))
    pre = ("From Coq Require Import NArith List.\nFrom CB Require Import Trie.PrefixMap Trie.SlabPrefixMap.\n"
           "Import ListNotations.\nOpen Scope N_scope.\n")
    terms = c.coq_eval(ctx, "c15slab", pre, exprs, shard=25)
    distinct = set()
    nbad = 0
    for cs, term in zip(cases, terms):
        maxkey_prev = -1
        prev_occ = 0
        for j, real in enumerate(cs["tr"]):
            name, k, cnt = cs["ops"][j]
            stats["ops"] += 1
            stats["by_op"][name] = stats["by_op"].get(name, 0) + 1
            mod = term[j] if j < len(term) else None
            bad = None
            if real == "PANIC" or mod == "None" or mod is None:
                if not (real == "PANIC" and mod == "None"):
                    bad = "panic mismatch"
                else:
                    bad = "PrefixesMap panicked (model too: invariant violation)"
            else:
                flag, root, occ, cells, dump, nn, empty = real
                _, (mflag, (mroot, mlen, mcells), mnoleak, mabs) = mod
                rroot = None if root < 0 else root
                mr = None if mroot == "None" else mroot[1]
                rc_ = [(a, b_, [tuple(x) for x in kids]) for a, b_, kids in cells]
                mc_ = [(a, b_, [tuple(x) for x in kids]) for (a, b_, kids) in mcells]
                rd = sorted((bytes.fromhex(a), b_) for a, b_ in dump)
                md = sorted((bytes(x), y) for x, y in mabs)
                if name != "s" and flag != (mflag == "true"):
                    bad = "result %s vs model %s" % (flag, mflag)
                elif rroot != mr or occ != mlen or nn != occ or rc_ != mc_:
                    bad = "slab differs: real root=%s len=%s cells=%s / model root=%s len=%s cells=%s" % (rroot, occ, rc_, mr, mlen, mc_)
                elif rd != md:
                    bad = "denoted (key,count) set differs"
                elif mnoleak != "true":
                    bad = "slab holds cells that are not nodes of the trie (leak)"
                elif empty != (rroot is None):
                    bad = "root is None iff empty violated"
                else:
                    # direct oracle on the real slab
                    occd = {a: (b_, kids) for a, b_, kids in rc_}
                    seen = []
                    stack = [rroot] if rroot is not None else []
                    while stack and not bad:
                        x = stack.pop()
                        if x not in occd:
                            bad = "dangling slab key %s" % x
                            break
                        seen.append(x)
                        cnt_x, kids = occd[x]
                        bs = [b_ for b_, _ in kids]
                        if bs != sorted(set(bs)):
                            bad = "children of %s not strictly sorted" % x
                        if not kids and cnt_x == 0:
                            bad = "empty leaf %s" % x
                        stack.extend(j2 for _, j2 in kids)
                    if not bad and (len(seen) != len(set(seen)) or set(seen) != set(occd)):
                        bad = "occupied cells %s != reachable nodes %s" % (sorted(occd), sorted(seen))
                    if name == "i" and not flag:
                        stats["too_many_iterators"] += 1
                    if name == "i" and flag and occ > prev_occ and rc_ and max(a for a, _, _ in rc_) <= maxkey_prev:
                        stats["key_reuse_seen"] += 1
                    if name == "d" and flag and occ < prev_occ - 1:
                        stats["pruned_branch"] += 1
                    if name == "d" and flag and rroot is None:
                        stats["root_dropped"] += 1
                    maxkey_prev = max([maxkey_prev] + [a for a, _, _ in rc_])
                    prev_occ = occ
                    stats["max_cells"] = max(stats["max_cells"], occ)
                    if occ:
                        distinct.add(hashlib.sha1(json.dumps([rc_, rroot]).encode()).hexdigest())
            if bad:
                nbad += 1
                if nbad <= 3:
                    ctx.violation({"layer": "slab-level PrefixesMap vs coq/Trie/SlabPrefixMap.v (sm_trace)",
                                   "ops": cs["ops"][:j + 1], "step": j, "real": real,
                                   "replay_hint": ".cache/target/release/c15 slab %s %d  (case %d)" % (ctx.seed, n, cs["case"])},
                                  "PrefixesMap slab history: %s" % bad)
                break
    stats["distinct_slab_states"] = len(distinct)
    return stats


def _limits_part(ctx, binp):
    """Real InstanceStateEntry::new / split against h_enc / h_split of coq/Trie/InstLimits.v (indices up to 2^33)."""
    n = 200 if ctx.quick else 8000
    rc, out = c.run_bin(binp, ["limits", str(ctx.seed), str(n)], timeout=300)
    cases = [json.loads(l[2:]) for l in out.split("\n") if l.startswith("L ")]
    st = {"cases": len(cases), "idx_ge_2^32": 0, "misdecoded_on_real_code": 0}
    if rc != 0 or len(cases) != n:
        ctx.violation({"layer": "c15 limits harness", "rc": rc}, "c15 limits harness failed", no_input=True)
        return st
    pre = ("From Coq Require Import NArith List.\nFrom CB Require Import Trie.InstLimits.\nOpen Scope N_scope.\n")
    terms = c.coq_eval(ctx, "c15lim", pre, ["(h_enc %d %s, h_split (h_enc %d %s))" % (x["gen"], x["idx"], x["gen"], x["idx"])
                                            for x in cases], shard=100)
    for x, t in zip(cases, terms):
        idx = int(x["idx"])
        if idx >= 1 << 32:
            st["idx_ge_2^32"] += 1
            if (x["g2"], x["i2"]) != (x["gen"], idx):
                st["misdecoded_on_real_code"] += 1
        h, (g2, i2) = t
        if (h, g2, i2) != (int(x["h"]), x["g2"], x["i2"]):
            ctx.violation({"layer": "InstanceStateEntry::new/split vs h_enc/h_split", "case": x, "model": [h, g2, i2]},
                          "handle encoding differs from coq/Trie/InstLimits.v")
            break
        if idx < 1 << 32 and (x["g2"], x["i2"]) != (x["gen"], idx):
            ctx.violation({"layer": "InstanceStateEntry round trip", "case": x}, "split(new(gen, idx)) != (gen, idx) below 2^32")
            break
    return st


def run(ctx):
    ctx.assumptions += [
        "lock theorems are about the functional models (prefix trie, radix tree, state machine); the slab-based PrefixesMap "
        "is modelled as coded and proved to refine them (SlabPrefixMap.v, round 4); the arena of MutableTrie is tied by the "
        "differential correspondence only (the real `slab` crate is replaced by an offline shim with the same LIFO key reuse)",
        "the InstanceState layer (generation counter, entry_mapping, iterators, result encodings, migrate on resume, "
        "entry_read/write/size/resize) is modelled in coq/Trie/InstanceState.v on top of the trie machine; the extracted model is "
        "the oracle of the `inst` histories (the in-harness reference is kept as a second opinion); the 2^30 size limits, "
        "index / generation overflow and the energy of the refused paths are modelled separately (InstLimits.v, InstEnergy.v)",
        "interrupts are simulated as the scheduler drives them: suspend, make_fresh_generation, inner call, then resume on the "
        "new state with state_updated=true iff the inner call succeeded and touched the state, else on the old state",
        "energy: the theorems about the refused paths are about the host-function model Contract/HostV1.v, which is tied to "
        "v1/mod.rs + v1/types.rs by the C14 correspondence (consumed energy compared call by call); no separate energy "
        "correspondence is run here",
        "slab level: coq/Trie/SlabPrefixMap.v models the slab free list as an explicit LIFO stack (the crate threads it through "
        "the vacant entries), binary search as a scan of the sorted children list, the delete stack by (node, byte); the real "
        "slab (offline shim of `slab` with the same LIFO reuse) is compared cell by cell after every operation",
        "handle limits: coq/Trie/InstLimits.v; index / generation overflow are stated as theorems about the arithmetic, the "
        "histories needed (2^32 ids in one generation, 2^32 state-changing interrupts) are not run",
    ]
    st = tc.setup(ctx)
    if st is None:
        return
    proof_broken, binp, runner = st
    if getattr(ctx, "replay", None):
        tc.replay_file(ctx, binp, runner)
        return
    ncorp = tc.corpus_replay(ctx, binp, runner, "C15")
    q = ctx.quick
    s1 = tc.correspondence_chunked(ctx, binp, runner, ["prefix"], ctx.seed, 3000 if q else 60000, "P",
                                   "PrefixesMap history", with_spec=False)
    ctx.notes["prefix_map_histories"] = s1
    s2 = tc.correspondence_chunked(ctx, binp, runner, ["hist", "c15"], ctx.seed, 4000 if q else 80000, "H",
                                   "state history (profile c15)")
    ctx.notes["history_distribution_c15"] = s2
    s3 = tc.correspondence_chunked(ctx, binp, runner, ["inst"], ctx.seed, 4000 if q else 80000, "J",
                                   "InstanceState history", with_spec=False)
    ctx.notes["instance_state_histories"] = s3
    rc, out = c.run_bin(binp, ["directed"], timeout=300)
    obs = {}
    for l in out.split("\n"):
        if l.startswith("D "):
            t = l.split(" ", 2)
            try:
                obs[t[1]] = json.loads(t[2])
            except Exception:
                pass
    ctx.notes["directed"] = obs
    ctx.notes["corpus_cases"] = ncorp
    ov = obs.get("overflow")
    if not ov or not ov.get("ok"):
        ctx.violation({"case": "MutableTrie: iter on `a`, lock count of `a` set to u32::MAX (hook), iter on `a` again",
                       "observed": ov},
                      "lock-count overflow is not reported as TooManyIterators without changing the locks: %s" % ov)
    ok15, bin15 = c.cargo_build(ctx, "c15")
    if not ok15:
        ctx.violation({"layer": "cargo build c15", "output": str(bin15)[-1500:]}, "harness c15 does not build", no_input=True)
    else:
        ctx.notes["slab_histories"] = _slab_part(ctx, bin15)
        ctx.notes["handle_limits"] = _limits_part(ctx, bin15)
    ctx.cov["rule"] = (
        "prefix-map histories: 1-300 insert/delete/check_has_no_prefix/is_or_has_prefix/dump over the adversarial key universe "
        "(see C03), counts driven to u32::MAX-2..u32::MAX through the hook before inserting; state histories: profile c15 "
        "(iter 14%, next 16%, delete_iter 6%, insert 16%, delete 12%, delete_prefix 7%, handles 13%, generations 6%, freeze/thaw "
        "2%) with several iterators on equal, nested and disjoint prefixes, the lock multiset compared after every operation; "
        "InstanceState histories: 1-250 contract-level operations with up to 2 nested interrupts (commit 2/3, rollback 1/3), ids "
        "kept across interrupts (stale use) and forged ids; slab histories (c15 slab): 1-45 operations (insert/delete/check/"
        "is_or_has/set_count) over keys of length 0-4 from bytes {0,1,2,255} related to earlier keys, grow-shrink-grow phases, "
        "every occupied slab cell compared with sm_trace after every operation; handle cases (c15 limits): boundary-heavy "
        "(gen, idx) with 1/4 of the indices in [2^32, 2^33); non-trivial = a result other than skip/locked/none; distinct = "
        "distinct hash of the operation list")
    tc.finish(ctx, proof_broken)
