"""C13 - stored artifacts and interrupted executions behave identically when resumed.

Pipeline (see design/C13.md):
  1. Coq: Props/C13.vo (artifact codec round trip, resume_equiv, refinement to Machine.v).
  2. Rust harness c13: direct oracles on the implementation (fresh vs reloaded borrowed/owned; interrupt
     schedules vs direct; determinism) on generated modules, the repository's .wasm corpus, and the v1 engine.
  3. Correspondence with the extracted model (ocaml/driver_c13.ml): artifact bytes (ArtifactCodec.v on the
     model-compiled artifact = Artifact::output) and interrupted executions (Resume.v drive = implementation).
"""
import concurrent.futures
import glob
import hashlib
import json
import os
from . import common as c

FUEL = 400000
HENV = {}


def cached_extract(ctx):
    h = hashlib.sha256()
    for f in c.coq_closure("Run/ExtractC13.v"):
        h.update(f.encode())
        h.update(open(os.path.join(c.COQ, f), "rb").read())
    h.update(open(os.path.join(c.VERIF, "ocaml", "driver_c13.ml"), "rb").read())
    d = os.path.join(c.CACHE, "ocaml", "c13")
    stamp, runner = os.path.join(d, "stamp"), os.path.join(d, "runner")
    if os.path.exists(runner) and os.path.exists(stamp) and open(stamp).read() == h.hexdigest():
        ctx.notes["extraction"] = "runner reused (content hash of the model closure unchanged)"
        return True, runner
    ok, r = c.extract_build(ctx, "ExtractC13.v", "driver_c13.ml", "c13")
    if ok:
        open(stamp, "w").write(h.hexdigest())
    return ok, r


def gen_shards(ctx, binp, n, shards, thorough):
    per = (n + shards - 1) // shards

    def one(s):
        lo, hi = s * per, min(n, (s + 1) * per)
        rows, hang = [], []
        start = lo
        while start < hi:
            rc, out = c.run_bin(binp, ["gen", ctx.seed, hi, start, "thorough" if thorough else "quick"], timeout=2400, env=HENV)
            rs = []
            for l in out.splitlines():
                if l.startswith("{"):
                    try:
                        rs.append(json.loads(l))
                    except Exception:
                        pass
            last = None
            for r in rs:
                if "START" in r:
                    last = r
                elif "id" in r or "stats" in r:
                    rows.append(r)
            if any("HANG" in r for r in rs) and last is not None:
                hang.append(last["START"])
                start = last["START"] + 1
                continue
            if rc != 0 and not any("stats" in r for r in rs):
                rows.append({"crash": out[-1500:], "shard": s, "after": last})
            break
        return rows, hang

    with concurrent.futures.ThreadPoolExecutor(shards) as ex:
        res = list(ex.map(one, range(shards)))
    rows, hangs = [], []
    for r, h in res:
        rows += r
        hangs += h
    return rows, hangs


def model_line(row):
    """the request line for ocaml/driver_c13.ml, and the list of configurations in it"""
    cfgs = [k for k, v in row["res"].items() if v.get("inst") == "ok" and "art" in v and isinstance(v.get("in"), list) and k in ("v1", "v1m1", "v1m0")]
    if not cfgs:
        return None, []
    parts = ["C13", str(FUEL), row["prog"], "C", str(len(cfgs))]
    for k in cfgs:
        v = row["res"][k]
        parts += [k, "1" if "m" in k[2:] else "0", str(len(v["in"]))]
        for body in v["in"]:
            toks = body.split()
            parts += [str(len(toks))] + toks
        parts += ["S", str(len(v["runs"]))]
        for run in v["runs"]:
            ms = [m if m else "-" for m in run["scheds"]] if run["ncalls"] <= 64 else []
            parts += [str(len(ms))] + ms
    return " ".join(parts), cfgs


def proj_impl(run):
    h = run["head"]
    if h.startswith("ok "):
        return {"head": h, "pages": str(run["pages"]), "energy": run["energy"], "ncalls": str(run["ncalls"]),
                "hcalls": run["hcalls"], "ticks": run["ticks"], "nz": run["nz"] if run["nzcount"] <= 4000 else None}
    if h.startswith("trap"):
        return {"head": "trap host" if h == "trap host failure" else "trap", "energy": run["energy"], "ncalls": str(run["ncalls"]),
                "hcalls": run["hcalls"], "ticks": run["ticks"]}
    return {"head": h}


def proj_model(s):
    f = s.split(";")
    if len(f) < 8:
        return {"head": "ERR " + s}
    head = f[0]
    if head.startswith("ok "):
        return {"head": head, "pages": f[1], "energy": f[2], "ncalls": f[3], "hcalls": f[5], "ticks": f[6], "nz": f[7], "nint": f[4]}
    if head.startswith("trap"):
        return {"head": "trap host" if head == "trap host" else "trap", "energy": f[2], "ncalls": f[3], "hcalls": f[5], "ticks": f[6], "nint": f[4]}
    return {"head": head}


def differs(a, b):
    """fields on which two projected outcomes differ (None = not comparable)"""
    d = []
    for k in ("head", "pages", "energy", "ncalls", "hcalls", "ticks", "nz"):
        if k in a and k in b and a[k] is not None and b[k] is not None and a[k] != b[k]:
            d.append(k)
    return d


def run_model(runner, lines, shards):
    if not lines:
        return []
    per = (len(lines) + shards - 1) // shards
    chunks = [lines[i:i + per] for i in range(0, len(lines), per)]

    def one(ch):
        rc, out = c.sh([runner], input=("\n".join(ch) + "\n").encode(), timeout=2400)
        o = out.splitlines()
        if len(o) < len(ch):
            o += ["ERR model runner died (rc %s)" % rc] * (len(ch) - len(o))
        return o[:len(ch)]

    with concurrent.futures.ThreadPoolExecutor(max(1, len(chunks))) as ex:
        res = list(ex.map(one, chunks))
    return [x for r in res for x in r]


def replay_obj(row, seed, extra):
    idx = row["id"].split("-")[-1] if "id" in row else None
    o = {"id": row.get("id"), "program": row.get("prog"),
         "how_to_replay": ".cache/target/release/c13 gen %s %s %s   (prints the case with all oracle violations; ./check C13 --replay <this file>)" % (
             seed, int(idx) + 1 if idx and idx.isdigit() else "?", idx)}
    o.update(extra)
    return o


def run(ctx):
    ctx.assumptions += [
        "host functions are deterministic functions of (import, call index, arguments, memory); the harness host and the model host are the same function (host_mix)",
        "lifetimes/aliasing of the zero-copy artifact are Rust's type system's business; only behaviour is observed",
        "globals are observed through one exported observer function per global (RunConfig fields are private)",
        "the artifact parser accepts over-long LEB128 (observed on the implementation): byte canonicity is claimed for serialised artifacts only",
    ]
    ctx.cov["rule"] = ("reload: output(parse(output a)) == output a and run(parse(output a)) == run(a) for borrowed and owned; "
                       "resume: for every tried subset of dynamic host calls, interrupt+push_value+run_config == direct; model: bytes and outcomes equal")
    thorough = not ctx.quick

    ok, info = c.coq_prove(ctx)
    proof_broken = None if ok else info
    if not ok:
        ctx.log("proof obligations broken:", info.get("failed_file"))

    ok, binp = c.cargo_build(ctx, "c13")
    if not ok:
        ctx.violation({"layer": "harness build against the repository", "error": binp},
                      "harness no longer builds against the implementation", no_input=True)
        return

    # ---- replay mode
    if getattr(ctx, "replay", None):
        rp = json.load(open(ctx.replay))["replay"]
        if rp.get("id", "") and rp["id"].startswith("g"):
            seed, idx = rp["id"][1:].split("-")
            rc, out = c.run_bin(binp, ["gen", seed, int(idx) + 1, idx], timeout=600)
            rows = [json.loads(l) for l in out.splitlines() if l.startswith("{")]
            for r in rows:
                for v in r.get("viol", []):
                    ctx.violation(replay_obj(r, seed, {"oracle": v}), "replayed: %s" % v.get("kind"))
            ctx.log("replay: %d rows" % len(rows))
        return

    # ---- (2) the repository's modules: started now, collected below (runs next to the generated shards)
    files = sorted(glob.glob(os.path.join(c.REPO, "smart-contracts", "**", "*.wasm"), recursive=True))
    if ctx.quick:
        # a rotating third of the corpus per seed, the whole corpus in the thorough tier
        files = [f for i, f in enumerate(files) if (i + ctx.seed) % 3 == 0]
    cstats = {"files": len(files), "instantiated": 0, "rejected": 0, "entry_runs": 0}

    def corpus_chunk(fs):
        return c.run_bin(binp, ["corpus", ctx.seed] + fs, timeout=1800)
    chunks = [files[i::4] for i in range(4)]
    corpus_pool = concurrent.futures.ThreadPoolExecutor(4)
    corpus_futs = [corpus_pool.submit(corpus_chunk, ch) for ch in chunks if ch]

    # ---- (1) generated modules: direct oracles
    n = 448 if ctx.quick else 2400
    shards = 8 if ctx.quick else 14
    rows, hangs = gen_shards(ctx, binp, n, shards, thorough)
    cases = [r for r in rows if "id" in r]
    stats = {}
    tally = {}
    for r in rows:
        if "stats" in r:
            for k, v in r["stats"].items():
                stats[k] = stats.get(k, 0) + v
            for k, v in r["tally"].items():
                if isinstance(v, list):
                    tally[k] = [a + b for a, b in zip(tally.get(k, [0] * len(v)), v)]
                elif k.startswith("max"):
                    tally[k] = max(tally.get(k, 0), v)
                else:
                    tally[k] = tally.get(k, 0) + v
        if "crash" in r:
            ctx.violation({"layer": "harness run", "output": r["crash"], "after": r.get("after")}, "the harness crashed", no_input=True)
    for h in hangs:
        ctx.violation({"id": "g%s-%s" % (ctx.seed, h), "how_to_replay": ".cache/target/release/c13 gen %s %s %s" % (ctx.seed, h + 1, h)},
                      "an execution did not terminate within 30 s (generated programs are bounded): hang in run/run_config")
    ctx.notes["generator_distribution"] = stats
    ctx.notes["oracle_tally"] = tally
    nviol = 0
    rejected = 0
    for r in cases:
        for cfg, v in r["res"].items():
            if v.get("inst") == "rejected" and cfg.startswith("v1"):
                rejected += 1
        for v in r["viol"]:
            nviol += 1
            if nviol <= 6:
                ctx.violation(replay_obj(r, ctx.seed, {"oracle": v}),
                              ("%s: %s entry %s args [%s] schedule %s: expected %s, got %s" % (
                                  v.get("kind"), json.dumps(v.get("ctx")), v.get("entry"), v.get("args"), v.get("schedule"),
                                  str(v.get("expected"))[:160], str(v.get("actual"))[:160])) if "entry" in v else
                              ("%s: %s %s" % (v.get("kind"), json.dumps(v.get("ctx")),
                                              json.dumps({k: x for k, x in v.items() if k not in ("kind", "ctx")})[:240])))
    if rejected:
        ctx.violation({"layer": "generator", "rejected": rejected}, "generated modules were rejected by the validator (generator broken)", no_input=True)
    ctx.log("generated: %d modules, %d direct runs, %d schedules, %d interrupts, %d oracle violations" % (
        len(cases), tally.get("direct_runs", 0), tally.get("schedules", 0), tally.get("interrupts", 0), nviol))

    # ---- (3) correspondence with the extracted model
    okx, runner = cached_extract(ctx)
    model_stats = {"programs": 0, "artifact_bytes_equal": 0, "runs_compared": 0, "resumed_runs_compared": 0, "model_out_of_fuel": 0}
    if not okx:
        ctx.violation({"layer": "extraction of the Coq model", "error": runner}, "the model runner could not be built", no_input=True)
    else:
        lines, meta = [], []
        for r in cases:
            line, cfgs = model_line(r)
            if line:
                lines.append(line)
                meta.append((r, cfgs))
        outs = run_model(runner, lines, 8 if ctx.quick else 14)
        mism = 0
        seen = set()
        for (r, cfgs), out in zip(meta, outs):
            model_stats["programs"] += 1
            if out.startswith("ERR"):
                mism += 1
                if mism <= 4:
                    ctx.violation(replay_obj(r, ctx.seed, {"layer": "model runner", "answer": out[:400]}), "model runner failed on a generated program: %s" % out[:120], no_input=True)
                continue
            parts = out.split(" ## ")
            for cfg, part in zip(cfgs, parts):
                hd, _, rest = part.partition(" @ ")
                f = hd.split(" ")
                v = r["res"][cfg]
                bad = None
                if len(f) < 2 or f[0] != cfg:
                    bad = ("model answer malformed", hd[:80], "")
                elif f[1] != v["art"]:
                    a, b = f[1], v["art"]
                    pos = next((i for i in range(min(len(a), len(b))) if a[i] != b[i]), min(len(a), len(b)))
                    bad = ("artifact bytes: ArtifactCodec.v/Compile.v output differs from Artifact::output at byte %d" % (pos // 2),
                           a[max(0, pos - 8):pos + 16], b[max(0, pos - 8):pos + 16])
                else:
                    model_stats["artifact_bytes_equal"] += 1
                if bad:
                    mism += 1
                    if mism <= 4:
                        ctx.violation(replay_obj(r, ctx.seed, {"layer": "correspondence: artifact bytes", "cfg": cfg, "what": bad[0], "model": bad[1], "impl": bad[2]}),
                                      "cfg %s: %s" % (cfg, bad[0]))
                    continue
                ents = rest.split(" | ")
                for run_i, ent in zip(v["runs"], ents):
                    rs = [proj_model(x) for x in ent.split(" ~ ")]
                    pi = proj_impl(run_i)
                    if rs[0]["head"] == "fuel":
                        model_stats["model_out_of_fuel"] += 1
                        continue
                    model_stats["runs_compared"] += 1
                    seen.add(c.digest([r["id"], cfg, run_i["entry"]]))
                    d = differs(rs[0], pi)
                    what = None
                    if d:
                        what = ("machine model (direct run) differs from Artifact::run on %s" % ",".join(d), rs[0], pi, "-")
                    else:
                        for mk, rm in zip(run_i["scheds"], rs[1:]):
                            model_stats["resumed_runs_compared"] += 1
                            d = differs(rm, pi)
                            if d:
                                what = ("Resume.v drive (interrupted at %s) differs from the implementation on %s" % (mk or "-", ",".join(d)), rm, pi, mk)
                                break
                    if what:
                        mism += 1
                        if mism <= 4:
                            ctx.violation(replay_obj(r, ctx.seed, {"layer": "correspondence: executions", "cfg": cfg, "entry": run_i["entry"], "schedule": what[3],
                                                                  "what": what[0], "model": what[1], "impl": what[2]}),
                                          "cfg %s entry f%s: %s" % (cfg, run_i["entry"], what[0]))
        ctx.notes["model_correspondence"] = model_stats
        ctx.cov["traces_validated_against_impl"] += model_stats["runs_compared"] + model_stats["resumed_runs_compared"]
        ctx.cov["distinct_nontrivial"] += len(seen)
        ctx.log("model: %s" % json.dumps(model_stats))

    # ---- (2) the repository's modules (collect)
    cres = [f.result() for f in corpus_futs]
    corpus_pool.shutdown()
    ncorp = 0
    for rc, out in cres:
        rs = [json.loads(l) for l in out.splitlines() if l.startswith("{")]
        if any("HANG" in r for r in rs):
            last = [r for r in rs if "START" in r][-1]
            ctx.violation({"file": last["START"]}, "corpus module %s: an execution did not terminate within its energy budget" % last["START"])
        for r in rs:
            if "file" not in r:
                continue
            for k, v in r.get("res", {}).items():
                if v.get("inst") == "ok":
                    cstats["instantiated"] += 1
                    cstats["entry_runs"] += v.get("entry_runs", 0)
                else:
                    cstats["rejected"] += 1
            for v in r.get("viol", []):
                ncorp += 1
                if ncorp > 6:
                    continue
                ctx.violation({"file": r["file"], "oracle": v, "how_to_replay": ".cache/target/release/c13 corpus %s %s" % (ctx.seed, r["file"])},
                              ("corpus module %s: %s entry %s args [%s] schedule %s" % (os.path.basename(r["file"]), v.get("kind"), v.get("entry"), v.get("args"), v.get("schedule")))
                              if "entry" in v else ("corpus module %s: %s %s" % (os.path.basename(r["file"]), v.get("kind"),
                                                                               json.dumps({k: x for k, x in v.items() if k not in ("kind", "ctx")})[:240])))
    ctx.notes["corpus"] = cstats
    ctx.log("corpus: %s" % json.dumps(cstats))

    # ---- (1e) the import section of a stored V1 artifact: per host function, the ImportFunc tag written by
    # `Output` loads as the same variant, a module importing it has the same processed imports after
    # output -> parse_artifact, and the context getters report the same values from the stored artifact
    # (context with pairwise different invoker / owner / sender / ...); re-serialisation is blind to this
    rc, out = c.run_bin(binp, ["imports"], timeout=600)
    istats = {}
    for l in out.splitlines():
        if l.startswith("{"):
            r = json.loads(l)
            istats = r.get("import_stats", {})
            for v in r.get("viol", []):
                ctx.violation({"layer": "v1 stored artifact imports (ImportFunc Output/Parseable)", "host_function": v.get("name"),
                               "oracle": v.get("kind"), "what": v.get("msg"),
                               "how_to_replay": ".cache/target/release/c13 imports   (line IMPORT-ROUNDTRIP-MISMATCH %s)" % v.get("name")},
                              "import %s: %s: %s" % (v.get("name"), v.get("kind"), str(v.get("msg"))[:300]))
    if rc != 0 or not istats:
        ctx.violation({"layer": "imports harness", "output": out[-1500:]}, "the imports harness failed", no_input=True)
    elif not istats.get("getter_results_pairwise_distinct"):
        ctx.violation({"layer": "imports harness", "stats": istats}, "the getter context does not separate the getters", no_input=True)
    ctx.notes["imports"] = {k: v for k, v in istats.items() if k != "getters"}
    ctx.log("imports: %s" % json.dumps(ctx.notes["imports"]))

    # ---- (1c) the v1 engine
    ne = 60 if ctx.quick else 600
    rc, out = c.run_bin(binp, ["engine", ctx.seed, ne], timeout=1800)
    ers = [json.loads(l) for l in out.splitlines() if l.startswith("{")]
    estats = {}
    neng = 0
    for r in ers:
        if "engine_stats" in r:
            estats = r["engine_stats"]
        for v in r.get("viol", []):
            neng += 1
            if neng > 6:
                continue
            ctx.violation({"layer": "v1 engine", "case": r.get("case"), "oracle": v,
                           "how_to_replay": ".cache/target/release/c13 engine %s %s" % (ctx.seed, ne)},
                          "engine: %s (%s)" % (v.get("kind"), json.dumps(r.get("case"))[:200]))
    if rc != 0 or not estats:
        ctx.violation({"layer": "engine harness", "output": out[-1500:]}, "the engine harness failed", no_input=True)
    # the oracle for the contract's observations is the Coq model Contract/V1Resume.v (engine_scenario)
    erows = [r for r in ers if "eng" in r]
    if okx and erows:
        answers = run_model(runner, [r["eng"] for r in erows], 2)
        ecmp = 0
        etraps = 0
        for r, ans in zip(erows, answers):
            exp, fin, logs, what = None, "", "", None
            if ans.startswith("trap "):
                # the model says the call-depth budget is exhausted right after resume number <step>
                etraps += 1
                step = int(ans.split()[1])
                if not (r.get("out", "").startswith("trap") and "Too many nested" in r.get("out", "") and r.get("interrupts") == step + 1):
                    what = "the model traps at step %d (call depth beyond MAX_ACTIVATION_FRAMES after the resume), the implementation: %s after %s interrupts" % (
                        step, r.get("out"), r.get("interrupts"))
            elif ans.startswith("ok "):
                obs, rest = ans[3:].split(";| ")
                fin, _, logs = rest.partition(" | ")
                b = b""
                for o in obs.split(";"):
                    w, bal, rec, rc1, b1, id2, rc2, b2 = o.split(",")
                    b += int(w).to_bytes(8, "little") + int(bal).to_bytes(8, "little") + int(rec).to_bytes(4, "little")
                    b += int(rc1).to_bytes(4, "little") + bytes.fromhex(b1)
                    b += int(id2).to_bytes(8, "little") + int(rc2).to_bytes(4, "little") + bytes.fromhex(b2)
                exp = (b + bytes.fromhex("5a5a5a5a")).hex()
                if r.get("out") != "success":
                    what = "the model completes, the implementation: %s after %s interrupts" % (r.get("out"), r.get("interrupts"))
                elif exp != r["rv"]:
                    what = "return value (response word / balance / recursion result / handle reads / lookup id) differs"
                elif fin.strip() != (r.get("final") or ""):
                    what = "final entry value differs"
                elif logs.strip() != r.get("logs", ""):
                    what = "logs handed out per section differ (model %s, implementation %s)" % (logs.strip(), r.get("logs"))
            else:
                what = "model answer: %s" % ans[:120]
            ecmp += 1
            if what:
                neng += 1
                if neng <= 6:
                    ctx.violation({"layer": "v1 engine vs Contract/V1Resume.v", "case": r.get("case"), "scenario": r["eng"], "what": what,
                                   "model_answer": ans[:600], "model_return_value": exp, "impl_return_value": r.get("rv"), "impl_outcome": r.get("out"),
                                   "impl_final_entry": r.get("final"), "impl_logs": r.get("logs"),
                                   "layout": "per resume: response word u64, self balance u64, recursion result u32, rc+4 bytes read through the pre-interrupt handle, id of a fresh lookup u64, rc+4 bytes read through it; then the grown-memory mark",
                                   "how_to_replay": ".cache/target/release/c13 engine %s %s" % (ctx.seed, ne)},
                                  "engine: %s: %s" % (what[:200], r["eng"][:160]))
        estats["model_traps_call_depth"] = etraps
        estats["scenarios_compared_with_model"] = ecmp
        ctx.cov["traces_validated_against_impl"] += ecmp
    ctx.notes["engine"] = estats
    ctx.log("engine: %s" % json.dumps(estats))

    # ---- (1d) outcome classification: process_receive_result / invoke_init vs Contract/V1Classify.v
    ncl = 150 if ctx.quick else 1500
    rc, out = c.run_bin(binp, ["classify", ctx.seed, ncl], timeout=1800)
    crs = [json.loads(l) for l in out.splitlines() if l.startswith("{")]
    cstat = {}
    for r in crs:
        if "classify_stats" in r:
            cstat = r["classify_stats"]
    nrej = sum(1 for r in crs if "cls_error" in r)
    if rc != 0 or not cstat or nrej:
        ctx.violation({"layer": "classification harness", "output": out[-1500:], "rejected_contracts": nrej},
                      "the classification harness failed (or the engine rejected a generated contract)", no_input=True)
    crows = [r for r in crs if "cls" in r]
    if okx and crows:
        answers = run_model(runner, [r["cls"] for r in crows], 2)
        ncls = 0
        byvar, byfinal = {}, {}
        for r, ans in zip(crows, answers):
            byvar[r["variant"]] = byvar.get(r["variant"], 0) + 1
            last = r["impl"].split(" ; ")[-1][:1]
            byfinal[last] = byfinal.get(last, 0) + 1
            if ans.strip() != r["impl"].strip():
                ncls += 1
                if ncls <= 6:
                    ctx.violation({"layer": "v1 engine vs Contract/V1Classify.v (process_receive_result / invoke_init)", "scenario": r["cls"],
                                   "sections": r.get("sections"), "variant": r["variant"], "model_results": ans, "impl_results": r["impl"],
                                   "format": "I rem changed logs kind | S rem changed logs return_value | R reason rem return_value | T rem | O | E invalid-return-code; "
                                             "sections: cost logs output state_changed end(i:kind:energy kept back at resume | r:code | t | l)",
                                   "how_to_replay": ".cache/target/release/c13 classify %s %s  (contract %s, variant %s)" % (ctx.seed, ncl, r.get("index"), r["variant"])},
                                  "classification: model %s, implementation %s (%s)" % (ans[:120], r["impl"][:120], r["cls"][:120]))
        cstat["runs_compared_with_model"] = len(crows)
        cstat["mismatches"] = ncls
        cstat["by_variant"] = byvar
        cstat["by_final_result_S_R_T_O_E"] = byfinal
        ctx.cov["traces_validated_against_impl"] += len(crows)
        ctx.cov["evaluations"] += len(crows)
        ctx.cov["samples"].append("classification: %s => %s" % (crows[len(crows) // 2]["cls"][:160], crows[len(crows) // 2]["impl"][:160]))
    ctx.notes["classification"] = cstat
    ctx.log("classification: %s" % json.dumps(cstat))

    # ---- observation: over-long LEB128 in artifacts
    rc, out = c.run_bin(binp, ["overlong"], timeout=60)
    try:
        ctx.notes["overlong_leb_observation"] = json.loads([l for l in out.splitlines() if l.startswith("{")][-1])
    except Exception:
        ctx.notes["overlong_leb_observation"] = out[-300:]

    ctx.cov["evaluations"] += tally.get("direct_runs", 0) + tally.get("schedules", 0) + tally.get("reload_runs", 0) + cstats["entry_runs"] + estats.get("runs", 0)
    for r in cases[3:6]:
        for cfg, v in r["res"].items():
            if v.get("inst") == "ok" and v.get("runs"):
                x = v["runs"][0]
                ctx.cov["samples"].append("%s %s f%s: %s, %s host calls [%s], schedules %s" % (r["id"], cfg, x["entry"], x["head"], x["ncalls"], x["hcalls"][:80], x["scheds"]))
                break

    if proof_broken is not None and not ctx.violations:
        ctx.violation({"layer": "Coq proof", "failed": proof_broken.get("failed_file"), "log": str(proof_broken.get("log", ""))[-1500:],
                       "theorems": "Props/C13.v (artifact_roundtrip, resume_equiv, direct_refines_machine, ...)"},
                      "proof obligations of Props/C13.v no longer check and the search found no failing input", no_input=True)
    elif proof_broken is not None:
        ctx.violation({"layer": "Coq proof", "failed": proof_broken.get("failed_file")}, "proof obligations of Props/C13.v no longer check", no_input=True)
    if thorough:
        okc, _ = c.coqchk(ctx)
        if not okc:
            ctx.violation({"layer": "coqchk"}, "coqchk rejected Props/C13.vo", no_input=True)
