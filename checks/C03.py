"""C03 - contract state behaves as an ordered map under every operation history.

Proof: coq/Props/C03.v (radix tree = sorted association list for every operation; every history of the
model equals the history of the ordered-map specification; rollback / no-leak).
Tie: random histories on MutableTrie (hook H1 wrappers) and MutableState/PersistentState, compared
operation by operation with the extracted model, the extracted specification and an independent
in-harness reference (BTreeMap stack)."""
import json
from . import common as c
from . import trie_common as tc


def run(ctx):
    ctx.assumptions += [
        "theorems are about the functional radix-tree model (level B) and the ordered-map specification (level A); "
        "the copy-on-write arena of MutableTrie (nodes/entries/values vectors, ChildrenCow, Checkpoint truncation, "
        "borrowed persistent nodes) is tied to the model by the differential correspondence only (PARTIAL)",
        "backing store = in-memory Vec<u8> loader; file/OS behaviour, RwLock poisoning and concurrent use are out of scope",
        "the `slab` crate is replaced by a functional shim with the same LIFO key reuse",
        "hashing (SHA-256) of frozen nodes is exercised but not compared here (C04)",
    ]
    st = tc.setup(ctx)
    if st is None:
        return
    proof_broken, binp, runner = st
    if getattr(ctx, "replay", None):
        tc.replay_file(ctx, binp, runner)
        return
    ncorp = tc.corpus_replay(ctx, binp, runner, "C03")
    n = 5000 if ctx.quick else 100000
    stats = tc.correspondence_chunked(ctx, binp, runner, ["hist", "c03"], ctx.seed, n, "H",
                                      "state history (profile c03)")
    ctx.notes["history_distribution_c03"] = stats
    # a slice of lock-heavy histories as well: the ordered-map view must hold under locks too
    m = 1000 if ctx.quick else 20000
    stats2 = tc.correspondence_chunked(ctx, binp, runner, ["hist", "c15"], ctx.seed + 7919, m, "H",
                                       "state history (profile c15)")
    ctx.notes["history_distribution_c15"] = stats2
    # the nibble-path primitives (Stem / MutStem / StemIter / follow_stem) against Nibbles.v
    k = 3000 if ctx.quick else 60000
    stats3 = tc.correspondence_chunked(ctx, binp, runner, ["stem"], ctx.seed, k, "N",
                                       "nibble-path primitives", with_spec=False)
    ctx.notes["stem_cases"] = stats3
    # the arena model (level C): observations AND the sizes of the nodes/entries/values/generations vectors after
    # every operation must agree with the implementation; the runner also checks copy-on-write (nothing below the
    # checkpoint of the current generation changes) after every operation of the model
    ka = 2000 if ctx.quick else 40000
    stats4 = tc.correspondence_chunked(ctx, binp, runner, ["arena"], ctx.seed, ka, "A",
                                       "arena history (observations + arena sizes)", with_spec=False)
    ctx.notes["arena_histories"] = stats4
    ctx.notes["arena_vs_tree_model"] = tc.arena_refines_model(ctx, binp, runner, ctx.seed + 31, 1000 if ctx.quick else 20000)
    rc, out = c.run_bin(binp, ["directed"], timeout=300)
    dd, _, _ = tc.parse_lines(out)
    obs = {}
    for l in out.split("\n"):
        if l.startswith("D "):
            t = l.split(" ", 2)
            try:
                obs[t[1]] = json.loads(t[2])
            except Exception:
                pass
    ctx.notes["directed"] = obs
    ctx.notes["corpus_cases"] = ncorp
    q = obs.get("fresh_generation_untouched", {})
    if q.get("leak_after_get_inner"):
        ctx.violation({"case": "MutableState: get_inner; make_fresh_generation; insert in the new generation; "
                               "the key is visible in the older generation", "observed": q},
                      "changes in a fresh generation leak into the older generation (MutableState API)")
    ctx.cov["rule"] = (
        "histories of 1-400 operations (40% 1-20, 40% 20-100, 20% 100-400) over an adversarial key universe per history "
        "(1-3 bases of 0-70 bytes from {00,ff,10,01,0f,f0,11,ab,80,7f,random}; variants appending a byte, flipping its low or "
        "high nibble, extending by 1-5 bytes, proper prefixes, the empty key; 10% keys outside the universe); values of "
        "length 0,1,63,64,65,300 and 0-11; operations insert/get/read/set/get_mut/delete/delete_prefix/iter/next/"
        "delete_iter/new_generation/normalize/freeze/thaw(3 variants: in memory, stored, stored+reloaded from the backing "
        "store); every 4th history runs generations through MutableState (get_inner/make_fresh_generation/freeze/thaw), "
        "the others drive MutableTrie through the H1 wrappers; rollbacks are `- r` (touch the parent) or `~ r` (abandon: drop the "
        "newer MutableStates without touching the parent, 40%); stem cases: push/truncate/extend/prepend_parts/iterator probes/"
        "follow_stem on nibble strings of length 0-3, 62-66, 126-129 and 0-11, 1/12 of the partial stems with a dirty low nibble; "
        "non-trivial = the implementation returned at least one "
        "result other than skip/locked/none; distinct = distinct hash of the operation list")
    tc.finish(ctx, proof_broken)
