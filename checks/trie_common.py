"""Shared machinery of the C03 / C15 checks (trie model family).

Histories are produced by the Rust harness `c03` (which runs them on the implementation and on an
in-harness reference = BTreeMap stack + lock multiset), then replayed on the extracted Coq model
(level B: radix tree + prefix map + lazy iterators) and on the extracted Coq specification
(level A: sorted association list + snapshot iterators).  All four must agree operation by operation.
"""
import json
import os
import subprocess

from . import common as c

COQ_MODEL_TARGETS = ["Trie/Radix.vo", "Trie/PrefixMap.vo", "Trie/Locks.vo", "Trie/Nibbles.vo", "Trie/InstanceState.vo", "Trie/Arena.vo"]


def parse_lines(out):
    """-> dict tag -> {id: body} for the line-oriented outputs (H/R/O/M/P/J lines), plus S stats."""
    d = {"H": {}, "R": {}, "O": {}, "M": {}, "P": {}, "J": {}, "D": {}, "N": {}, "A": {}}
    stats = {}
    order = []
    for l in out.split("\n"):
        if len(l) < 2 or l[1] != " ":
            continue
        tag = l[0]
        if tag == "S":
            try:
                stats = json.loads(l[2:])
            except Exception:
                pass
            continue
        if tag not in d:
            continue
        t = l.split(" ", 2)
        d[tag][t[1]] = t[2] if len(t) > 2 else ""
        if tag in ("H", "P", "J", "N", "A"):
            order.append((tag, t[1]))
    return d, stats, order


def run_model(runner, mode, text, timeout=3000):
    """Feed H/P/J lines to the extracted runner; returns {id: outs}."""
    p = subprocess.run([runner, mode], input=text.encode(), stdout=subprocess.PIPE, stderr=subprocess.STDOUT,
                       timeout=timeout)
    out = p.stdout.decode("utf-8", "replace")
    if p.returncode != 0:
        raise RuntimeError("model runner failed (%s): %s" % (mode, out[-1500:]))
    d, _, _ = parse_lines(out)
    return d["M"]


def first_diff(a, b):
    xa, xb = a.split(";"), b.split(";")
    for i in range(max(len(xa), len(xb))):
        ea = xa[i] if i < len(xa) else "<missing>"
        eb = xb[i] if i < len(xb) else "<missing>"
        if ea != eb:
            return i, ea, eb
    return None


class Side:
    """One tag family: how to replay on the implementation and on the model."""

    def __init__(self, tag, replay_mode):
        self.tag = tag
        self.replay_mode = replay_mode


SIDES = {"H": Side("H", "replay"), "P": Side("P", "preplay"), "J": Side("J", "ireplay"), "N": Side("N", "sreplay"), "A": Side("A", "areplay")}


def evaluate(binp, runner, tag, hid, ops, with_spec=True):
    """Run one history (list of op strings) everywhere.  Returns dict with impl/model/spec outs,
    oracle verdict and the list of disagreements."""
    line = "%s %s %s\n" % (tag, hid, ";".join(ops))
    rc, out = c.run_bin(binp, [SIDES[tag].replay_mode], timeout=600, input=line.encode())
    d, _, _ = parse_lines(out)
    impl = d["R"].get(hid)
    orc = None
    if hid in d["O"]:
        try:
            orc = json.loads(d["O"][hid])
        except Exception:
            orc = None
    res = {"impl": impl, "oracle": orc, "problems": []}
    if rc != 0 or impl is None:
        res["problems"].append("harness replay failed rc=%s: %s" % (rc, out[-300:]))
        return res
    if tag == "J" and ("DISAGREE" in impl or "READ-LEN" in impl or "KEY-LEN" in impl or "error" in impl.split(";")):
        res["problems"].append("impl-flag")
    model = run_model(runner, "model", line).get(hid)
    res["model"] = model
    if model != impl:
        res["problems"].append("impl!=model")
    if with_spec and tag == "H":
        spec = run_model(runner, "spec", line).get(hid)
        res["spec"] = spec
        if spec != model:
            res["problems"].append("model!=spec")
    if "!" in impl or "PANIC" in impl:
        res["problems"].append("impl-flag")
    if orc is not None and not orc.get("ok", True):
        res["problems"].append("oracle")
    return res


def shrink(binp, runner, tag, hid, ops, budget=160):
    """Delta debugging on the operation list: keep any sublist that still shows a problem."""
    def bad(o):
        if not o:
            return False
        try:
            return bool(evaluate(binp, runner, tag, hid, o)["problems"])
        except Exception:
            return False
    cur = list(ops)
    n = 2
    calls = 0
    # first: cut the tail after the first disagreement
    while len(cur) >= 2 and calls < budget:
        chunk = max(1, len(cur) // n)
        reduced = False
        i = 0
        while i < len(cur) and calls < budget:
            cand = cur[:i] + cur[i + chunk:]
            calls += 1
            if cand and bad(cand):
                cur = cand
                reduced = True
                n = max(n - 1, 2)
            else:
                i += chunk
        if not reduced:
            if chunk == 1:
                break
            n = min(n * 2, len(cur))
    return cur


def describe(res, ops):
    """Human-readable summary of the first disagreement of an `evaluate` result."""
    impl = res.get("impl") or ""
    for other in ("model", "spec"):
        if res.get(other) is not None and res[other] != impl:
            fd = first_diff(impl, res[other])
            if fd:
                i, a, b = fd
                return "op #%d `%s`: implementation -> %s, %s -> %s" % (
                    i, ops[i][:60] if i < len(ops) else "?", a[:80], other, b[:80])
    o = res.get("oracle")
    if o and not o.get("ok", True):
        i = o.get("first_bad", -1)
        return "op #%s `%s`: implementation -> %s, reference (ordered-map stack + lock multiset) -> %s%s" % (
            i, ops[i][:60] if 0 <= i < len(ops) else "end", str(o.get("got"))[:80], str(o.get("exp"))[:80],
            " PANIC: %s" % o["panic"] if o.get("panic") else "")
    return "; ".join(res.get("problems", []))


def correspondence(ctx, binp, runner, args, tag, what, max_report=2, with_spec=True):
    """Run a generator mode of the harness and compare with the model (and the spec).
    Returns statistics dict; reports violations through ctx."""
    rc, out = c.run_bin(binp, args, timeout=3000)
    if rc != 0:
        ctx.violation({"layer": "harness run", "args": args, "output": out[-2000:]},
                      "%s: harness crashed" % what, no_input=True)
        return {"histories": 0}
    d, stats, order = parse_lines(out)
    text = "".join("%s %s %s\n" % (tag, hid, d[tag][hid]) for t, hid in order if t == tag)
    model = run_model(runner, "model", text)
    spec = run_model(runner, "spec", text) if (with_spec and tag == "H") else None
    nbad = 0
    seen = set()
    nontrivial = set()
    ops_total = 0
    for t, hid in order:
        if t != tag:
            continue
        h = d[tag][hid]
        impl = d["R"].get(hid, "<none>")
        ops_total += h.count(";") + 1 if h else 0
        key = c.digest(h)
        seen.add(key)
        if any(x and x[0] not in "xL-E" and x != "skip" for x in impl.split(";")):
            nontrivial.add(key)
        problems = []
        if model is not None and model.get(hid) != impl:
            problems.append("impl!=model")
        if spec is not None and spec.get(hid) != model.get(hid):
            problems.append("model!=spec")
        if "!" in impl or "PANIC" in impl or "DISAGREE" in impl:
            problems.append("impl-flag")
        if hid in d["O"]:
            try:
                if not json.loads(d["O"][hid]).get("ok", True):
                    problems.append("oracle")
            except Exception:
                problems.append("oracle-unparsable")
        if not problems:
            continue
        nbad += 1
        if nbad > max_report:
            continue
        ops = [o for o in h.split(";") if o]
        # everything after the first disagreement is irrelevant: cut the tail first
        cut = len(ops)
        for other in (model, spec):
            if other is not None and other.get(hid) is not None and other.get(hid) != impl:
                fd = first_diff(impl, other[hid])
                if fd:
                    cut = min(cut, fd[0] + 1)
        try:
            fb = json.loads(d["O"][hid]).get("first_bad", -1) if hid in d["O"] else -1
            if fb is not None and 0 <= fb < len(ops):
                cut = min(cut, fb + 1)
        except Exception:
            pass
        start = ops[:cut]
        if cut < len(ops) and not evaluate(binp, runner, tag, hid, start)["problems"]:
            start = ops
        small = shrink(binp, runner, tag, hid, start)
        res = evaluate(binp, runner, tag, hid, small)
        if not res["problems"]:
            small = ops
            res = evaluate(binp, runner, tag, hid, small)
        summary = "%s: %s (history of %d ops, shrunk from %d): %s" % (
            what, "/".join(res["problems"] or problems), len(small), len(ops), describe(res, small))
        only_model_spec = (res["problems"] or problems) == ["model!=spec"]
        replay = {"tag": tag, "id": hid, "history": ";".join(small), "original_length": len(ops),
                  "implementation": res.get("impl"), "model": res.get("model"), "spec": res.get("spec"),
                  "reference_oracle": res.get("oracle"),
                  "theorem": "history_refines / prefixmap_refines_multiset (model proved equal to the ordered-map "
                             "specification; the implementation disagrees)"}
        if only_model_spec:
            replay["layer"] = "extracted model vs extracted specification (theorem history_refines would be false)"
        ctx.violation(replay, summary, no_input=only_model_spec)
        try:
            os.makedirs(os.path.join(c.VERIF, "corpus", ctx.prop), exist_ok=True)
        except Exception:
            pass
    stats = dict(stats)
    stats.update({"histories": len(seen), "ops_total": ops_total, "mismatching": nbad})
    ctx.cov["evaluations"] += ops_total
    ctx.cov["traces_validated_against_impl"] += sum(1 for t, _ in order if t == tag)
    ctx._distinct = getattr(ctx, "_distinct", set()) | nontrivial
    ctx.cov["distinct_nontrivial"] = len(ctx._distinct)
    samples = [(hid, d[tag][hid]) for t, hid in order if t == tag and 0 < d[tag][hid].count(";") < 8][:2]
    for hid, h in samples:
        ctx.cov["samples"].append({"history": h[:400], "implementation": d["R"].get(hid, "")[:400]})
    return stats


def correspondence_chunked(ctx, binp, runner, mode_args, seed, total, tag, what, chunk=20000, **kw):
    """Run `total` histories in chunks (bounded memory); chunk i uses seed + i * 1000003."""
    agg = {}
    done = 0
    i = 0
    while done < total:
        n = min(chunk, total - done)
        args = [mode_args[0], seed + i * 1000003, n] + list(mode_args[1:])
        st = correspondence(ctx, binp, runner, args, tag, what, **kw)
        for k, v in st.items():
            if isinstance(v, (int, float)):
                agg[k] = agg.get(k, 0) + v
        done += n
        i += 1
        if len([1 for _, _, ni in ctx.violations if not ni]) >= 4:
            break
    return agg


def arena_refines_model(ctx, binp, runner, seed, n):
    """Executable refinement test between the two Coq models: the arena machine (level C, Arena.v) and the
    radix-tree machine (level B, Locks.v) must give the same observations on the same histories."""
    rc, out = c.run_bin(binp, ["arena", seed, n], timeout=3000)
    d, _, order = parse_lines(out)
    ids = [hid for t, hid in order if t == "A"]
    a_text = "".join("A %s %s\n" % (hid, d["A"][hid]) for hid in ids)
    h_text = "".join("H %s %s\n" % (hid, d["A"][hid]) for hid in ids)
    am = run_model(runner, "model", a_text)
    hm = run_model(runner, "model", h_text)
    bad = 0
    for hid in ids:
        stripped = ";".join(x.split("#")[0] for x in am.get(hid, "").split(";"))
        if stripped != hm.get(hid):
            bad += 1
            if bad <= 2:
                fd = first_diff(stripped, hm.get(hid, ""))
                ctx.violation({"layer": "extracted arena model (Arena.v) vs extracted radix-tree model (Locks.v)",
                               "history": d["A"][hid][:2000], "arena": stripped[:1000], "tree": hm.get(hid, "")[:1000],
                               "first_difference": fd},
                              "the arena model and the radix-tree model disagree (the two Coq models are inconsistent)",
                              no_input=True)
    ctx.cov["evaluations"] += len(ids)
    return {"histories": len(ids), "disagreeing": bad}


def corpus_replay(ctx, binp, runner, prop):
    """Replay the regression corpus (corpus/<prop>/*.txt with H/P/J lines)."""
    d = os.path.join(c.VERIF, "corpus", prop)
    n = 0
    if not os.path.isdir(d):
        return 0
    for fn in sorted(os.listdir(d)):
        if not fn.endswith(".txt"):
            continue
        for l in open(os.path.join(d, fn)):
            l = l.rstrip("\n")
            if len(l) < 3 or l[0] not in "HPJNA" or l[1] != " ":
                continue
            t = l.split(" ", 2)
            ops = [o for o in (t[2] if len(t) > 2 else "").split(";") if o]
            res = evaluate(binp, runner, t[0], t[1], ops)
            n += 1
            if res["problems"]:
                ctx.violation({"tag": t[0], "id": t[1], "history": ";".join(ops), "implementation": res.get("impl"),
                               "model": res.get("model"), "spec": res.get("spec"), "reference_oracle": res.get("oracle"),
                               "corpus_file": fn},
                              "corpus case %s/%s: %s: %s" % (fn, t[1], "/".join(res["problems"]), describe(res, ops)))
    ctx.cov["evaluations"] += n
    return n


def replay_file(ctx, binp, runner):
    """./check Cxx --replay FILE : re-run the history stored in a replay file."""
    obj = json.load(open(ctx.replay))
    r = obj.get("replay", obj)
    if "history" not in r:
        ctx.log("replay file names no input (%s)" % r.get("layer", r.get("theorem", "?")))
        return False
    ops = [o for o in r["history"].split(";") if o]
    res = evaluate(binp, runner, r.get("tag", "H"), r.get("id", "t0"), ops)
    ctx.log("replay: implementation:", (res.get("impl") or "")[:300])
    ctx.log("replay: model         :", (res.get("model") or "")[:300])
    if res["problems"]:
        ctx.violation({"tag": r.get("tag", "H"), "id": r.get("id", "t0"), "history": r["history"],
                       "implementation": res.get("impl"), "model": res.get("model"), "spec": res.get("spec"),
                       "reference_oracle": res.get("oracle")},
                      "replay still fails: %s: %s" % ("/".join(res["problems"]), describe(res, ops)))
    else:
        ctx.log("replay: no disagreement any more")
    return True


def setup(ctx):
    """Proofs, extraction, harness build.  Returns (proof_broken, binp, runner) or None when a build failed
    (violation already reported)."""
    ok, info = c.coq_prove(ctx)
    proof_broken = None
    if not ok:
        proof_broken = info
        ctx.log("proof obligations broken:", info.get("failed_file"), str(info.get("error"))[-400:])
        c.coq_build(ctx, [t for t in COQ_MODEL_TARGETS if os.path.exists(os.path.join(c.COQ, t[:-1]))])
    ok, runner = c.extract_build(ctx, "ExtractTrie.v", "driver_trie.ml", "trie")
    if not ok:
        ctx.violation({"layer": "extraction of the Coq model", "error": runner},
                      "the extracted model runner does not build", no_input=True)
        return None
    ok, binp = c.cargo_build(ctx, "c03")
    if not ok:
        ctx.violation({"layer": "harness build against the repository (hook H1 wrappers)", "error": binp},
                      "harness no longer builds against the implementation", no_input=True)
        return None
    return proof_broken, binp, runner


def finish(ctx, proof_broken):
    if proof_broken:
        found = any(not ni for _, _, ni in ctx.violations)
        ctx.violation({"layer": "Coq proof obligations", "broken": proof_broken},
                      "theorem(s) of Props/%s.v no longer check (%s)" % (ctx.prop, proof_broken.get("failed_file")),
                      no_input=not found)
    if ctx.tier == "thorough":
        ok, out = c.coqchk(ctx)
        if not ok:
            ctx.violation({"layer": "coqchk", "output": out[-2000:]}, "coqchk rejected Props/%s.vo" % ctx.prop,
                          no_input=True)
