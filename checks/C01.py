"""C01 - compiled Wasm execution conforms to WebAssembly semantics.

Three correspondence layers on the same generated programs (DESIGN.md 7.C01):
  (iii) Sem.v (reference interpreter = the specification)  vs  Artifact::run      <- the property
  (i)   Compile.v (transcription of artifact.rs) bytes/registers/constants  vs  Module::compile
  (ii)  Machine.v (transcription of machine.rs) on that code  vs  Artifact::run
A layer-(iii) mismatch is a KNOWN-FINDING only if the program is in a known defect class
(KnownClasses.v / rem_s overflow trap) AND layers (i),(ii) hold for it, i.e. the faithful model
reproduces the implementation's wrong answer exactly.  Everything else is a VIOLATION.
"""
import json
import os
import re
import subprocess
from concurrent.futures import ThreadPoolExecutor
from . import common as c

FUEL = 400000
CFGS = ["v0", "v1", "v0m0", "v0m1", "v1m0", "v1m1"]
DUMPED = {"v0": "v1", "v1": "v1", "v0m0": "v1m0", "v1m0": "v1m0", "v0m1": "v1m1", "v1m1": "v1m1"}
SIGNEXT = {"c0", "c1", "c2", "c3", "c4"}
KF = {"f1": "KF-C01-1", "f2": "KF-C01-2", "f3": "KF-C01-3"}
HENV = {}

NAMES = {0x00: "unreachable", 0x01: "nop", 0x02: "block", 0x03: "loop", 0x04: "if", 0x05: "else", 0x0b: "end",
         0x0c: "br", 0x0d: "br_if", 0x0e: "br_table", 0x0f: "return", 0x10: "call", 0x11: "call_indirect",
         0x1a: "drop", 0x1b: "select", 0x20: "local.get", 0x21: "local.set", 0x22: "local.tee",
         0x23: "global.get", 0x24: "global.set", 0x3f: "memory.size", 0x40: "memory.grow",
         0x41: "i32.const", 0x42: "i64.const", 0x45: "i32.eqz", 0x50: "i64.eqz", 0xa7: "i32.wrap_i64",
         0xac: "i64.extend_i32_s", 0xad: "i64.extend_i32_u", 0xc0: "i32.extend8_s", 0xc1: "i32.extend16_s",
         0xc2: "i64.extend8_s", 0xc3: "i64.extend16_s", 0xc4: "i64.extend32_s", 0xfe: "tick"}
_REL = ["eq", "ne", "lt_s", "lt_u", "gt_s", "gt_u", "le_s", "le_u", "ge_s", "ge_u"]
_BIN = ["add", "sub", "mul", "div_s", "div_u", "rem_s", "rem_u", "and", "or", "xor", "shl", "shr_s", "shr_u", "rotl", "rotr"]
for _i, _n in enumerate(_REL):
    NAMES[0x46 + _i] = "i32." + _n
    NAMES[0x51 + _i] = "i64." + _n
for _i, _n in enumerate(["clz", "ctz", "popcnt"] + _BIN):
    NAMES[0x67 + _i] = "i32." + _n
    NAMES[0x79 + _i] = "i64." + _n
for _b, _n in {0x28: "i32.load", 0x29: "i64.load", 0x2c: "i32.load8_s", 0x2d: "i32.load8_u", 0x2e: "i32.load16_s",
               0x2f: "i32.load16_u", 0x30: "i64.load8_s", 0x31: "i64.load8_u", 0x32: "i64.load16_s", 0x33: "i64.load16_u",
               0x34: "i64.load32_s", 0x35: "i64.load32_u", 0x36: "i32.store", 0x37: "i64.store", 0x3a: "i32.store8",
               0x3b: "i32.store16", 0x3c: "i64.store8", 0x3d: "i64.store16", 0x3e: "i64.store32"}.items():
    NAMES[_b] = _n


def disasm(tok):
    p = tok.split(":")
    b = int(p[0], 16)
    n = NAMES.get(b, "op_" + p[0])
    if b in (2, 3, 4):
        return n + {"40": "", "7f": " (result i32)", "7e": " (result i64)"}[p[1]]
    if 0x28 <= b <= 0x3e:
        return "%s offset=%s" % (n, p[1])
    return " ".join([n] + p[1:])


# ---------------------------------------------------------------- program text helpers
class Prog:
    """Parsed line format (see harness/c01/src/ast.rs); keeps everything but function bodies opaque."""

    def __init__(self, line):
        t = line.split()
        i = t.index("F")
        self.head = t[:i]
        nf = int(t[i + 1])
        p = i + 2
        self.funcs = []
        for _ in range(nf):
            ty = t[p]
            nl = int(t[p + 1])
            locs = t[p + 2:p + 2 + nl]
            p += 2 + nl
            nops = int(t[p])
            ops = t[p + 1:p + 1 + nops]
            p += 1 + nops
            self.funcs.append([ty, locs, ops])
        assert t[p] == "X"
        k = int(t[p + 1])
        self.entries = t[p + 2:p + 2 + k]
        self.args = t[p + 2 + k:]

    def line(self):
        out = list(self.head) + ["F", str(len(self.funcs))]
        for ty, locs, ops in self.funcs:
            out += [ty, str(len(locs))] + locs + [str(len(ops))] + ops
        out += ["X", str(len(self.entries))] + self.entries + self.args
        return " ".join(out)

    def uses_signext(self):
        return any(o.split(":")[0] in SIGNEXT for f in self.funcs for o in f[2])

    def pretty(self):
        return ["func %d (type %s, locals %s): %s" % (i, f[0], " ".join(f[1]) or "-", "; ".join(disasm(o) for o in f[2]))
                for i, f in enumerate(self.funcs)]


def model_request(case):
    parts = ["FULL", str(FUEL), case["prog"], "C"]
    cfgs = [k for k in ("v1", "v1m0", "v1m1") if k in case.get("code", {}) and isinstance(case["code"][k]["in"], list)]
    parts.append(str(len(cfgs)))
    for k in cfgs:
        fs = case["code"][k]["in"]
        parts += [k, "0" if k == "v1" else "1", str(len(fs))]
        for f in fs:
            ops = f.split()
            parts += [str(len(ops))] + ops
    return " ".join(parts)


def parse_outcome(e):
    e = e.strip()
    if not e.startswith("ok"):
        w = e.split()
        return {"k": w[0] if w else "ERR", "why": " ".join(w[1:])}
    head, mem = e.split(" P ")
    pages, nz = mem.split(" M")
    energy = None
    if " E " in head:
        head, energy = head.split(" E ")
    h = head.split(" G")
    return {"k": "ok", "r": h[0].split()[1], "g": h[1].split(), "pages": int(pages), "nz": nz.strip(), "energy": energy}


def parse_model(line):
    """-> {'sem': [outcome..], 'cfg': {name: {'funcs': [(code, regs, consts, f1, f2)], 'mach': [outcome..]}}}"""
    if line.startswith("ERR"):
        return {"err": line}
    parts = line.split(" ## ")
    res = {"sem": [parse_outcome(x) for x in parts[0].split(" | ")], "cfg": {}}
    for p in parts[1:]:
        left, mach = p.split(" @ ")
        w = left.split()
        funcs = []
        for f in w[1:]:
            code, regs, consts, f1, f2, frag = (f.split(":") + ["????"])[:6]
            funcs.append({"code": code, "regs": int(regs), "consts": [x for x in consts.split(",") if x], "f1": f1 == "1", "f2": f2 == "1",
                          "frag": frag})
        m = mach.strip()
        res["cfg"][w[0]] = {"funcs": funcs, "mach": None if m in ("nocode", "noartifact") else [parse_outcome(x) for x in m.split(" | ")], "machraw": m}
    return res


def same_outcome(run, m):
    """implementation run (harness JSON) vs model outcome"""
    if run["k"] == "trap":
        return m["k"] == "trap"
    if run["k"] == "ok":
        return m["k"] == "ok" and run["r"] == m["r"] and run["pages"] == m["pages"] and run["nz"] == m["nz"] and run.get("memrem", 0) == 0
    return False


def brief(run):
    if run["k"] == "ok":
        return {"result": run["r"], "pages": run["pages"], "nonzero_memory": (run["nz"][:200] + ("..." if len(run["nz"]) > 200 else ""))}
    return {k: v for k, v in run.items() if k in ("k", "msg", "why")}


class Evaluator:
    def __init__(self, ctx, binp, runner, kf_ids):
        self.ctx, self.binp, self.runner, self.kf_ids = ctx, binp, runner, kf_ids
        self.stats = {"programs": 0, "comparisons_iii": 0, "comparisons_i": 0, "comparisons_ii": 0, "model_out_of_fuel": 0,
                      "impl_traps": 0, "impl_ok": 0, "rejected_as_expected": 0, "class_f1_programs": 0, "class_f2_programs": 0,
                      "known_mismatches": 0, "energy_checked": 0,
                      # per dumped configuration: how many compiled functions lie in the fragments of the simulation
                      # theorems (old = blocks_ok/blocks_ok_r, new = blocks_ok_dead/blocks_ok_r_dead), how many have
                      # dead code, and on how many Compile.v(body) = Compile.v(strip body) (dead_code_compiles_away)
                      "proved_fragment": {}}
        self.nontrivial = set()
        self.samples = []

    def run_model(self, cases):
        if not cases:
            return []
        inp = "".join(model_request(cs) + "\n" for cs in cases)
        chunks = max(1, min(12, len(cases) // 40))
        lines = inp.splitlines(True)
        per = (len(lines) + chunks - 1) // chunks
        pieces = ["".join(lines[i:i + per]) for i in range(0, len(lines), per)]

        def one(piece):
            r = subprocess.run([self.runner], input=piece.encode(), stdout=subprocess.PIPE, stderr=subprocess.STDOUT, timeout=3000,
                               env=dict(os.environ, OCAMLRUNPARAM="l=4G"))
            return r.stdout.decode("utf-8", "replace").splitlines()
        with ThreadPoolExecutor(max_workers=12) as ex:
            outs = list(ex.map(one, pieces))
        out = [l for o in outs for l in o]
        if len(out) != len(cases):
            raise RuntimeError("model runner returned %d lines for %d cases: %s" % (len(out), len(cases), out[-1:] if out else ""))
        return [parse_model(l) for l in out]

    def run_impl_lines(self, lines):
        """run programs given in the line format; returns harness JSON rows (one per program)"""
        inp = "\n".join(lines) + "\n"
        rc, out = c.run_bin(self.binp, ["run"], timeout=1800, input=inp.encode(), env=HENV)
        rows = [json.loads(l) for l in out.splitlines() if l.startswith("{")]
        return [r for r in rows if "id" in r or "HANG" in r]

    def evaluate(self, case, model):
        """Returns a list of findings: dicts with 'kind' in {'violation','known','tie'}."""
        out = []
        self.stats["programs"] += 1
        if "parse_error" in case:
            return [{"kind": "violation", "what": "harness cannot parse the program text", "cfg": "-"}]
        if "err" in model:
            return [{"kind": "violation", "what": "model runner failed: " + model["err"], "cfg": "-"}]
        prog = Prog(case["prog"])
        signext = prog.uses_signext()
        res = case["res"]
        any_ok = False
        for cfg in CFGS:
            v = res[cfg]
            expect_reject = cfg.startswith("v0") and signext
            if v["inst"] != "ok":
                if v["inst"] == "rejected" and expect_reject:
                    self.stats["rejected_as_expected"] += 1
                else:
                    out.append({"kind": "violation", "cfg": cfg, "what": "instantiate %s: %s" % (v["inst"], v.get("msg", "")[:200])})
                continue
            if expect_reject:
                out.append({"kind": "violation", "cfg": cfg, "what": "sign-extension operators accepted under ValidationConfig::V0"})
                continue
            dcfg = DUMPED[cfg]
            mc = model["cfg"].get(dcfg)
            # --- layers (i) and (ii) on the dumped configurations
            tie_ok = mc is not None
            if cfg == dcfg and mc is not None:
                dump = case["code"][cfg]
                inp = dump["in"]
                if cfg == "v1" and [self._noalign(f.split()) for f in inp] != [self._noalign(f[2]) for f in prog.funcs]:
                    # parse + validate must hand the compiler exactly the opcodes of the module
                    out.append({"kind": "tie", "layer": "parse", "cfg": cfg, "what": "opcodes after parse/validate differ from the module text"})
                fr = self.stats["proved_fragment"].setdefault(cfg, {"functions": 0, "in_blocks_ok": 0, "in_blocks_ok_dead": 0,
                                                                    "with_dead_code": 0, "with_dead_code_in_blocks_ok_dead": 0,
                                                                    "strip_compile_equal": 0})
                for fi, mf in enumerate(mc["funcs"]):
                    g = mf.get("frag", "????")
                    if g == "rrrr":     # explicit empty else: the opcode stream is not flatten_body of its structured form
                        fr["not_a_flatten_image"] = fr.get("not_a_flatten_image", 0) + 1
                        continue
                    if len(g) != 4 or "?" in g:
                        continue
                    fr["functions"] += 1
                    fr["in_blocks_ok"] += g[0] == "1"
                    fr["in_blocks_ok_dead"] += g[1] == "1"
                    fr["with_dead_code"] += g[2] == "1"
                    fr["with_dead_code_in_blocks_ok_dead"] += g[2] == "1" and g[1] == "1"
                    fr["strip_compile_equal"] += g[3] == "1"
                    if g[3] != "1" or (g[0] == "1" and g[1] != "1"):
                        out.append({"kind": "tie", "layer": "extracted model vs its theorems (dead_code_compiles_away / dead_code_fragment_widens)",
                                    "cfg": cfg, "func": fi, "what": "Compile.v on the stripped body differs, or blocks_ok without blocks_ok_dead: flags " + g})
                for fi, (mf, jf) in enumerate(zip(mc["funcs"], dump["out"])):
                    self.stats["comparisons_i"] += 1
                    if mf["code"] != jf["code"] or mf["regs"] != jf["regs"] or mf["consts"] != jf["consts"]:
                        tie_ok = False
                        out.append({"kind": "tie", "layer": "(i) compiler model vs Module::compile", "cfg": cfg, "func": fi,
                                    "what": "compiled code differs", "model": {k: mf[k] for k in ("code", "regs", "consts")}, "impl": jf})
                        break
            elif mc is not None:
                # v0-family: the compiler input is identical to the v1-family one
                tie_ok = all(mf["code"] == jf["code"] for mf, jf in zip(mc["funcs"], case["code"][dcfg]["out"]))
            for ei, run in enumerate(v["runs"]):
                if run["k"] in ("PANIC", "interrupt"):
                    out.append({"kind": "violation", "cfg": cfg, "entry": ei, "what": "implementation %s: %s" % (run["k"], run.get("msg", "")[:200])})
                    continue
                if run["k"] == "ok":
                    any_ok = True
                    self.stats["impl_ok"] += 1
                else:
                    self.stats["impl_traps"] += 1
                sem = model["sem"][ei]
                mach = mc["mach"][ei] if (mc and mc["mach"]) else None
                # layer (ii)
                mach_same = None
                if mach is not None and mach["k"] != "fuel":
                    self.stats["comparisons_ii"] += 1
                    mach_same = same_outcome(run, mach)
                    if mach_same and run["k"] == "ok" and mach.get("energy") is not None and cfg != "v0" and cfg != "v1":
                        self.stats["energy_checked"] += 1
                        if mach["energy"] != run["energy"]:
                            mach_same = False
                    if not mach_same:
                        out.append({"kind": "tie", "layer": "(ii) machine model vs Artifact::run", "cfg": cfg, "entry": ei,
                                    "what": "machine model and implementation disagree", "model": brief(mach), "impl": brief(run)})
                # layer (iii): the property
                if sem["k"] == "fuel":
                    self.stats["model_out_of_fuel"] += 1
                    continue
                if sem["k"] not in ("ok", "trap"):
                    out.append({"kind": "violation", "cfg": cfg, "entry": ei, "what": "reference interpreter is %s on a validated module" % sem["k"]})
                    continue
                self.stats["comparisons_iii"] += 1
                if same_outcome(run, sem):
                    continue
                # classify
                classes = []
                if mc is not None:
                    if mach is not None and mach["k"] == "trap" and mach["why"] == "rem_s_overflow":
                        classes.append("f3")
                    else:
                        if any(f["f1"] for f in mc["funcs"]):
                            classes.append("f1")
                        if any(f["f2"] for f in mc["funcs"]):
                            classes.append("f2")
                rec = {"cfg": cfg, "entry": ei, "spec": brief(sem), "impl": brief(run), "classes": classes,
                       "faithful_model_reproduces": bool(tie_ok and mach_same)}
                if classes and tie_ok and mach_same and all(KF[x] in self.kf_ids for x in classes):
                    rec["kind"] = "known"
                    self.stats["known_mismatches"] += 1
                else:
                    rec["kind"] = "violation"
                    rec["what"] = "result differs from the WebAssembly semantics" + ("" if not classes else " (in class %s but the faithful model does not reproduce it)" % classes)
                out.append(rec)
        if model["cfg"].get("v1"):
            if any(f["f1"] for f in model["cfg"]["v1"]["funcs"]):
                self.stats["class_f1_programs"] += 1
            if any(f["f2"] for f in model["cfg"]["v1"]["funcs"]):
                self.stats["class_f2_programs"] += 1
        if any_ok:
            self.nontrivial.add(c.digest(case["prog"]))
        return out

    @staticmethod
    def _noalign(ops):
        return [":".join(o.split(":")[:2]) if re.match(r"^(2[89a-f]|3[0-9a-e]):", o) else o for o in ops]

    # ------------------------------------------------------------ shrinking
    def still_fails(self, lines, want):
        """For each candidate program line: does a violation of the same kind persist?"""
        rows = self.run_impl_lines(lines)
        rows = [r for r in rows if "id" in r]
        if len(rows) != len(lines):
            return [False] * len(lines)
        good = [i for i, r in enumerate(rows) if "parse_error" not in r and r["res"]["v1"]["inst"] == "ok"]
        models = self.run_model([rows[i] for i in good])
        res = [False] * len(lines)
        for i, m in zip(good, models):
            saved = dict(self.stats)
            fs = self.evaluate(rows[i], m)
            self.stats = saved
            res[i] = any(f["kind"] == want[0] and f.get("layer") == want[1] for f in fs)
        return res

    def shrink(self, line, want, rounds=8):
        cur = Prog(line)
        cur.entries = cur.entries[:1]
        if not self.still_fails([cur.line()], want)[0]:
            cur = Prog(line)
        for _ in range(rounds):
            cands = []
            for fi, f in enumerate(cur.funcs):
                ops = f[2]
                for j, o in enumerate(ops[:-1]):
                    b = o.split(":")[0]
                    if b in ("02", "03", "04"):
                        # find the matching end
                        d, k = 0, j
                        while True:
                            bb = ops[k].split(":")[0]
                            if bb in ("02", "03", "04"):
                                d += 1
                            elif bb == "0b":
                                d -= 1
                                if d == 0:
                                    break
                            k += 1
                        cands.append((fi, ops[:j] + ops[k + 1:]))          # drop the whole construct
                        if b != "04" and not any(x.split(":")[0] == "05" for x in ops[j:k]):
                            cands.append((fi, ops[:j] + ops[j + 1:k] + ops[k + 1:]))  # unwrap
                    elif b not in ("05", "0b"):
                        cands.append((fi, ops[:j] + ops[j + 1:]))
            if not cands:
                break
            # the entry function (and what it calls) is what matters: try it first
            entry = int(cur.entries[0]) if cur.entries else len(cur.funcs) - 1
            cands.sort(key=lambda c_: (c_[0] != entry, -c_[0]))
            cands = cands[:500]
            lines = []
            for fi, ops in cands:
                p = Prog(cur.line())
                p.funcs[fi][2] = ops
                lines.append(p.line())
            ok = self.still_fails(lines, want)
            progressed = False
            # greedily take the candidate that removes the most
            best = None
            for (fi, ops), good, l in zip(cands, ok, lines):
                if good and (best is None or len(l) < len(best)):
                    best = l
            if best is not None:
                cur = Prog(best)
                progressed = True
            if not progressed:
                break
        return cur.line()


def wasm_corpus(ctx, ev):
    """Layer (i) on the real modules of the repository: every function of every .wasm file that the
    engine accepts, plain and metered (cost V1), must compile to the same bytes/registers/constants in
    Compile.v and in Module::compile."""
    files = []
    for root, _, fs in os.walk(os.path.join(c.REPO, "smart-contracts")):
        if "/target/" in root + "/":
            pass
        files += [os.path.join(root, f) for f in fs if f.endswith(".wasm")]
    files.sort()
    rc, out = c.run_bin(ev.binp, ["wasm"] + files, timeout=1800, env=HENV)
    rows = [json.loads(l) for l in out.splitlines() if l.startswith("{")]
    good = [r for r in rows if "out" in r]
    reqs = []
    for r in good:
        t = ["CMPW", "T", str(len(r["types"]))]
        for ty in r["types"]:
            t += [str(len(ty["p"]))] + ty["p"] + [str(len(ty["r"]))] + ty["r"]
        t += ["I", str(len(r["imports"]))] + [str(x) for x in r["imports"]]
        t += ["F", str(len(r["funcs"]))]
        for f in r["funcs"]:
            ops = f["ops"].split()
            t += [str(f["ty"]), str(len(f["locals"]))] + f["locals"] + [str(len(ops))] + ops
        reqs.append(" ".join(t))
    outs = []
    if reqs:
        pr = subprocess.run([ev.runner], input=("\n".join(reqs) + "\n").encode(), stdout=subprocess.PIPE, stderr=subprocess.STDOUT,
                            timeout=1800, env=dict(os.environ, OCAMLRUNPARAM="l=4G"))
        outs = pr.stdout.decode("utf-8", "replace").splitlines()
    stats = {"files": len(files), "accepted_dumps": len(good), "functions_compared": 0,
             "rejected": sorted({(os.path.basename(r["file"]), r["rejected"][:60]) for r in rows if "rejected" in r})[:12]}
    if len(outs) != len(good):
        ctx.violation({"layer": "(i) on the .wasm corpus", "lines": len(outs), "expected": len(good), "tail": outs[-1:]},
                      "model runner failed on the .wasm corpus", no_input=True)
        return stats
    bad = 0
    for r, o in zip(good, outs):
        ms = o.split()
        if o.startswith("ERR") or len(ms) != len(r["out"]):
            bad += 1
            if bad <= 3:
                ctx.violation({"layer": "(i) compiler model vs Module::compile", "file": r["file"], "cfg": r["cfg"], "model": o[:300]},
                              "compiler model failed on %s" % os.path.basename(r["file"]))
            continue
        for fi, (m, j) in enumerate(zip(ms, r["out"])):
            code, regs, consts = m.split(":")
            stats["functions_compared"] += 1
            if code != j["code"] or int(regs) != j["regs"] or [x for x in consts.split(",") if x] != j["consts"]:
                bad += 1
                if bad <= 3:
                    ctx.violation({"layer": "(i) compiler model vs Module::compile", "file": r["file"], "cfg": r["cfg"], "function": fi,
                                   "ops": r["funcs"][fi]["ops"][:4000], "model": {"code": code, "regs": regs, "consts": consts}, "impl": j},
                                  "compiled code of function %d of %s (%s) differs between Compile.v and Module::compile" % (
                                      fi, os.path.basename(r["file"]), r["cfg"]))
                break
    stats["mismatching_functions_or_modules"] = bad
    ctx.cov["evaluations"] += stats["functions_compared"]
    return stats


def cached_extract(ctx):
    """extract_build, skipped when the extracted closure and the driver are byte-identical to the
    ones the existing runner was built from (content hash stamp next to the runner)."""
    import hashlib
    h = hashlib.sha256()
    for f in c.coq_closure("Run/ExtractWasm.v"):
        h.update(f.encode())
        h.update(open(os.path.join(c.COQ, f), "rb").read())
    h.update(open(os.path.join(c.VERIF, "ocaml", "driver_wasm.ml"), "rb").read())
    d = os.path.join(c.CACHE, "ocaml", "wasm")
    stamp, runner = os.path.join(d, "stamp"), os.path.join(d, "runner")
    if os.path.exists(runner) and os.path.exists(stamp) and open(stamp).read() == h.hexdigest():
        ctx.notes["extraction"] = "runner reused (content hash of the model closure unchanged)"
        return True, runner
    ok, r = c.extract_build(ctx, "ExtractWasm.v", "driver_wasm.ml", "wasm")
    if ok:
        open(stamp, "w").write(h.hexdigest())
    return ok, r


def gen_shards(ctx, binp, n, shards):
    per = (n + shards - 1) // shards

    def one(s):
        lo, hi = s * per, min(n, (s + 1) * per)
        rows, hang = [], []
        start = lo
        while start < hi:
            rc, out = c.run_bin(binp, ["gen", ctx.seed, hi, start], timeout=2400, env=HENV)
            rs = [json.loads(l) for l in out.splitlines() if l.startswith("{")]
            last = None
            for r in rs:
                if "START" in r:
                    last = r
                elif "id" in r or "stats" in r:
                    rows.append(r)
            if any("HANG" in r for r in rs) and last is not None:
                hang.append(last)
                start = last["START"] + 1
                continue
            if rc != 0:
                raise RuntimeError("harness failed (rc=%s): %s" % (rc, out[-1500:]))
            break
        return rows, hang
    with ThreadPoolExecutor(max_workers=shards) as ex:
        res = list(ex.map(one, range(shards)))
    rows = [r for rs, _ in res for r in rs]
    hangs = [h for _, hs in res for h in hs]
    return rows, hangs


def classify_hang(ctx, ev, h):
    """The implementation did not finish a run within the watchdog time.  Known finding iff the
    program is in class F1/F2, the specification terminates, the compiler model emits the
    implementation's code byte for byte (layer i, from a compile-only harness run) and the
    machine model does not terminate on it either; a violation otherwise."""
    line = h.get("prog")
    rep = {"program": line, "index": h.get("START")}
    try:
        rc, out = c.run_bin(ev.binp, ["compile"], timeout=600, input=(line + "\n").encode(), env=HENV)
        rows = [json.loads(l) for l in out.splitlines() if l.startswith("{")]
        rows = [r for r in rows if "id" in r]
        m = ev.run_model(rows)[0]
        case = rows[0]
        mc = m["cfg"].get("v1")
        same_code = mc is not None and all(mf["code"] == jf["code"] and mf["regs"] == jf["regs"] and mf["consts"] == jf["consts"]
                                           for mf, jf in zip(mc["funcs"], case["code"]["v1"]["out"]))
        classes = [k for k in ("f1", "f2") if mc and any(f[k] for f in mc["funcs"])]
        spec_ok = all(x["k"] in ("ok", "trap") for x in m["sem"])
        mach_loops = bool(mc and mc["mach"] and any(x["k"] == "fuel" for x in mc["mach"]))
        rep.update({"classes": classes, "spec": [brief(x) for x in m["sem"]], "compiler_model_matches": same_code,
                    "machine_model": [x["k"] for x in (mc["mach"] or [])] if mc else None, "program_text": Prog(line).pretty()})
        if classes and same_code and spec_ok and mach_loops and all(KF[x] in ev.kf_ids for x in classes):
            for cl in classes:
                ctx.known_finding(KF[cl], "a generated program of this class terminates in the specification but not in the implementation "
                                          "(run abandoned by the watchdog); the faithful model (identical compiled code) does not terminate either")
            ev.stats["known_mismatches"] += 1
            ev.stats["known_nontermination"] = ev.stats.get("known_nontermination", 0) + 1
            return
    except Exception as e:  # fall through to a violation with what we have
        rep["classification_error"] = repr(e)
    ctx.violation(rep, "implementation did not terminate on a generated program that terminates in the specification")


def report(ctx, ev, case, findings, budget):
    """Turn the findings of one program into KNOWN-FINDING / VIOLATION lines."""
    prog = Prog(case["prog"])
    for f in findings:
        if f["kind"] == "known":
            for cl in f["classes"]:
                what = {"f1": "br_if carrying a value copies into the label's result register before testing (artifact.rs push_br_if_jump)",
                        "f2": "local.set/tee inside a block/loop/if redirects a provider pushed outside it (artifact.rs LocalSet/LocalTee preservation)",
                        "f3": "rem_s(MIN,-1) traps instead of returning 0 (machine.rs checked_rem)"}[cl]
                ctx.known_finding(KF[cl], what + "; generated programs of this class disagree with the specification and the faithful model reproduces the implementation's answer")
    bad = [f for f in findings if f["kind"] in ("violation", "tie")]
    if not bad:
        return
    # the property itself (layer iii) first, a broken tie second
    bad.sort(key=lambda x: x["kind"] != "violation")
    f = bad[0]
    line = case["prog"]
    if budget[0] > 0 and f["kind"] in ("violation", "tie") and f.get("cfg", "-") != "-":
        budget[0] -= 1
        try:
            line = ev.shrink(line, (f["kind"], f.get("layer")))
        except Exception as e:  # shrinking is best effort
            ctx.log("shrink failed:", repr(e))
    p = Prog(line)
    replay = {"id": case.get("id"), "program": line, "program_text": p.pretty(), "entry_and_args": {"entries": p.entries, "args": p.args},
              "findings": bad[:6], "how_to_replay": "echo '<program>' | .cache/target/release/c01 run   (and ./check C01 --replay <this file>)"}
    if f["kind"] == "tie":
        ctx.violation(replay, "correspondence layer %s broke on a generated program (cfg %s): %s" % (f.get("layer"), f.get("cfg"), f.get("what")))
    else:
        ctx.violation(replay, "compiled execution differs from the WebAssembly semantics (cfg %s): %s; spec=%s impl=%s" % (
            f.get("cfg"), f.get("what"), json.dumps(f.get("spec"))[:150], json.dumps(f.get("impl"))[:150]))


def run(ctx):
    kf = c.load_known_findings()
    kf_ids = {f["id"] for f in kf["findings"] if f["property"] == "C01"}
    ctx.assumptions += [
        "Sem.v is the WebAssembly 1.0 integer semantics (+ sign-extension operators) as read from the W3C text; it is the trusted specification",
        "memory.grow succeeds iff the new size is within min(declared max, 65536, 512 pages): the embedder cap allowed by the specification",
        "host functions: none except the metering import account_memory (identity); tick_energy never fails; call depth unbounded",
        "generated modules only: integer subset, single memory/table, no start function, no imports (the engine's parser rejects the rest: C09)",
        "ExtrOcamlBasic extraction and the OCaml line driver are trusted for the correspondence run",
    ]
    ok, info = c.coq_prove(ctx)
    proof_broken = None
    if not ok:
        proof_broken = info
        ctx.log("proof obligations broken:", info.get("failed_file"), info.get("error", "")[-600:])
        c.coq_build(ctx, ["Wasm/Machine.vo", "Wasm/KnownClasses.vo", "Wasm/Opcodes.vo"])
    ctx.log("coq done")
    ok, runner = cached_extract(ctx)
    ctx.log("extraction done")
    if not ok:
        ctx.violation({"layer": "model extraction", "error": runner}, "the Wasm model no longer extracts/compiles", no_input=True)
        return
    ok, binp = c.cargo_build(ctx, "c01")
    for _ in range(8):
        # another harness crate of the shared workspace may be half-written at this moment
        if ok or "failed to load manifest for workspace member" not in binp or "/harness/c01" in binp:
            break
        import time
        time.sleep(10)
        ok, binp = c.cargo_build(ctx, "c01")
    if not ok:
        ctx.violation({"layer": "harness build against /repo", "error": binp},
                      "harness no longer builds against the implementation", no_input=True)
        return
    ctx.log("cargo done")
    ev = Evaluator(ctx, binp, runner, kf_ids)
    budget = [3]
    reported = 0

    # ---- replay mode
    if getattr(ctx, "replay", None):
        rp = json.load(open(ctx.replay))
        line = rp["replay"]["program"]
        rows = [r for r in ev.run_impl_lines([line]) if "id" in r]
        models = ev.run_model(rows)
        for case, m in zip(rows, models):
            report(ctx, ev, case, ev.evaluate(case, m), [0])
        ctx.cov["evaluations"] = ev.stats["comparisons_iii"]
        return

    # ---- 1. corpus: the F1-F3 witnesses and earlier minimised failures
    corpus = []
    cdir = os.path.join(c.VERIF, "corpus", "C01")
    for fn in sorted(os.listdir(cdir)) if os.path.isdir(cdir) else []:
        if fn.endswith(".jsonl"):
            corpus += [json.loads(l) for l in open(os.path.join(cdir, fn)) if l.strip() and not l.startswith("#")]
    rows = [r for r in ev.run_impl_lines([w["prog"] for w in corpus]) if "id" in r]
    if len(rows) != len(corpus):
        ctx.violation({"layer": "corpus replay", "rows": len(rows)}, "harness failed on the corpus", no_input=True)
        return
    models = ev.run_model(rows)
    wit = []
    for w, case, m in zip(corpus, rows, models):
        fs = ev.evaluate(case, m)
        sem0 = m["sem"][0] if "sem" in m else {}
        rec = {"name": w["name"], "kf": w.get("kf"), "spec": sem0.get("r", sem0.get("k")),
               "impl": {cfg: (v["runs"][0].get("r") or v["runs"][0]["k"]) if v["inst"] == "ok" else v["inst"] for cfg, v in case["res"].items()},
               "status": "agrees"}
        if w.get("expect") and sem0.get("r") != w["expect"]:
            ctx.violation({"witness": w, "model": sem0}, "reference interpreter no longer gives the specified result on corpus witness %s" % w["name"], no_input=True)
        if any(f["kind"] == "known" for f in fs):
            rec["status"] = "still failing (known finding, faithful model reproduces it)"
        elif w.get("kf"):
            rec["status"] = "no longer failing on the implementation"
        wit.append(rec)
        report(ctx, ev, case, fs, budget)
    ctx.notes["corpus_witnesses"] = wit
    ctx.log("corpus done")

    # ---- 2. generated programs
    n = 1500 if ctx.quick else 36000
    shards = 8 if ctx.quick else 14
    rows, hangs = gen_shards(ctx, binp, n, shards)
    gstats = {}
    for r in rows:
        if "stats" in r:
            for k, v in r["stats"].items():
                gstats[k] = gstats.get(k, 0) + v
    cases = [r for r in rows if "id" in r]
    ctx.log("generated %d programs, running the models" % len(cases))
    for h in hangs:
        classify_hang(ctx, ev, h)
    models = ev.run_model(cases)
    ctx.log("models done")
    nviol = 0
    for case, m in zip(cases, models):
        fs = ev.evaluate(case, m)
        if any(f["kind"] in ("violation", "tie") for f in fs):
            nviol += 1
            if nviol > 5:
                continue
        report(ctx, ev, case, fs, budget)
        if len(ev.samples) < 3 and not fs:
            p = Prog(case["prog"])
            if len(case["prog"]) < 600:
                ev.samples.append({"program": p.pretty(), "args": p.args, "result_all_configs": case["res"]["v1"]["runs"][0].get("r", case["res"]["v1"]["runs"][0]["k"])})
    if nviol > 5:
        ctx.notes["violating_programs_total"] = nviol
    ctx.cov["evaluations"] = ev.stats["comparisons_iii"] + ev.stats["comparisons_i"] + ev.stats["comparisons_ii"]
    ctx.cov["traces_validated_against_impl"] = ev.stats["comparisons_iii"]
    ctx.cov["distinct_nontrivial"] = len(ev.nontrivial)
    ctx.cov["samples"] += ev.samples
    ctx.cov["rule"] = ("type-directed random modules (1-5 functions + one observer per global; nested block/loop/if with and without results, "
                       "br/br_if/br_table/return to every depth, bounded loops, calls/call_indirect, memory at the edges, memory.grow, boundary constants, "
                       "dead code); each run under 6 configurations (ValidationConfig V0/V1 x metering off/cost V0/cost V1); compared: result value, "
                       "trap/no trap, final memory size and every non-zero byte, globals (observer functions); non-trivial = some run returned normally; "
                       "distinct = distinct program text hash")
    ctx.notes["generator_distribution"] = gstats
    ctx.notes["comparison_stats"] = ev.stats
    if proof_broken:
        ctx.violation({"layer": "Coq proof obligations", "broken": proof_broken},
                      "theorem(s) of Props/C01.v no longer check (%s)" % proof_broken.get("failed_file"), no_input=not ctx.violations)
    if ctx.tier == "thorough":
        ctx.notes["wasm_corpus_layer_i"] = wasm_corpus(ctx, ev)
        ok, out = c.coqchk(ctx)
        if not ok:
            ctx.violation({"layer": "coqchk", "output": out[-2000:]}, "coqchk rejected Props/C01.vo", no_input=True)
