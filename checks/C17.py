"""C17 - CBOR codec and protocol-level token types: Coq theorems over the executable model
(coq/Cbor/*.v), correspondence of the model with the real Rust code (harness/c17), and direct
round-trip / determinism / allocation oracles on the implementation alone."""
import json
import os
import struct
from . import common as c

PRE = ("From Coq Require Import NArith ZArith List Bool String.\nImport ListNotations.\n"
       "From CB Require Import Cbor.CborCore Cbor.CborSchema Cbor.TokenSchemas Cbor.TokenAmount Cbor.Hex Cbor.DecimalConv Cbor.Header Cbor.FloatBits.\n"
       "Local Open Scope N_scope.\n")

PRE_CONV = ("From Coq Require Import NArith List Bool.\nImport ListNotations.\n"
            "From CB Require Import Cbor.CborCore Cbor.TokenAmount Cbor.DecimalConv Cbor.Header Cbor.FloatBits.\n"
            "Local Open Scope N_scope.\n")

# allocation bound asserted on the implementation: peak <= C0 + C1 * |input| per decode.
# (the model's ghost counter is proved to stay below 4096 + 8256 * |input|, see Props/C17.v; the
# factor 3 covers Vec growth (old + new buffer during a move) and error values)
C0 = 16384
C1 = 3 * 8256


# ----------------------------------------------------------------------------- floats (opaque payloads)
def f_short(bits64):
    """shortest IEEE encoding (w, bits) that represents the f64 exactly"""
    x = struct.unpack(">d", struct.pack(">Q", bits64))[0]
    for w, fmt in ((2, ">e"), (4, ">f")):
        try:
            p = struct.pack(fmt, x)
        except (OverflowError, struct.error):
            continue
        if struct.pack(">d", struct.unpack(fmt, p)[0]) == struct.pack(">Q", bits64):
            return w, int.from_bytes(p, "big")
    return 8, bits64


def f_widen(w, bits):
    x = struct.unpack({2: ">e", 4: ">f", 8: ">d"}[w], bits.to_bytes(w, "big"))[0]
    if x != x:
        return "nan"
    return struct.unpack(">Q", struct.pack(">d", x))[0]


def f_canon(bits64):
    x = struct.unpack(">d", struct.pack(">Q", bits64))[0]
    return "nan" if x != x else bits64


# ----------------------------------------------------------------------------- terms
BIGS = []   # [(hex, coq variable)] of let-bound long byte strings (chunk-corpus stage)


def lit(h):
    if len(h) > 64:
        return '(unhex "%s"%%string)' % h
    return "[" + ";".join(str(b) for b in bytes.fromhex(h)) + "]"


def split_big(h, bigs):
    """`h` as a Coq list expression in which every occurrence of a let-bound long string is its variable"""
    parts, i = [], 0
    while i < len(h):
        best = None
        for bh, var in bigs:
            j = h.find(bh, i)
            while j >= 0 and j % 2:
                j = h.find(bh, j + 1)
            if j >= 0 and (best is None or j < best[0]):
                best = (j, bh, var)
        if best is None:
            parts.append(lit(h[i:]))
            break
        j, bh, var = best
        if j > i:
            parts.append(lit(h[i:j]))
        parts.append(var)
        i = j + len(bh)
    return "(" + " ++ ".join(parts or ["[]"]) + ")%list"


def nlist(h):
    if BIGS and len(h) > 2000:
        return split_big(h, BIGS)
    return lit(h)


def v2coq(j):
    t = j[0]
    if t == "P":
        return "(VPos %s)" % j[1]
    if t == "N":
        return "(VNeg %s)" % j[1]
    if t == "B":
        return "(VBytes %s)" % nlist(j[1])
    if t == "T":
        return "(VText %s)" % nlist(j[1])
    if t == "A":
        return "(VArray false [%s])" % ";".join(v2coq(x) for x in j[1])
    if t == "M":
        return "(VMap false [%s])" % ";".join("(%s,%s)" % (v2coq(k), v2coq(x)) for k, x in j[1])
    if t == "G":
        return "(VTag %s %s)" % (j[1], v2coq(j[2]))
    if t == "b":
        return "(VBool %s)" % ("true" if j[1] else "false")
    if t == "z":
        return "VNull"
    if t == "S":
        return "(VSimple %s)" % j[1]
    if t == "F":
        w, b = f_short(int(j[1]))
        return "(VFloat %d %d)" % (w, b)
    raise ValueError(j)


def v_canon(j):
    """canonical python form of a harness value"""
    t = j[0]
    if t in ("P", "N"):
        return (t, int(j[1]))
    if t in ("B", "T"):
        return (t, j[1])
    if t == "A":
        return ("A", tuple(v_canon(x) for x in j[1]))
    if t == "M":
        return ("M", tuple((v_canon(k), v_canon(x)) for k, x in j[1]))
    if t == "G":
        return ("G", int(j[1]), v_canon(j[2]))
    if t == "b":
        return ("b", bool(j[1]))
    if t == "z":
        return ("z",)
    if t == "S":
        return ("S", int(j[1]))
    if t == "F":
        return ("F", f_canon(int(j[1])))
    raise ValueError(j)


def hx(l):
    return bytes(l).hex()


def v_model(t):
    """canonical python form of a model value term (indefinite flags dropped)"""
    if t == "VNull":
        return ("z",)
    h = t[0]
    if h == "VPos":
        return ("P", t[1])
    if h == "VNeg":
        return ("N", t[1])
    if h == "VBytes":
        return ("B", hx(t[1]))
    if h == "VText":
        return ("T", hx(t[1]))
    if h == "VArray":
        return ("A", tuple(v_model(x) for x in t[2]))
    if h == "VMap":
        return ("M", tuple((v_model(k), v_model(x)) for k, x in t[2]))
    if h == "VTag":
        return ("G", t[1], v_model(t[2]))
    if h == "VBool":
        return ("b", t[1] == "true")
    if h == "VSimple":
        return ("S", t[1])
    if h == "VFloat":
        return ("F", f_widen(t[1], t[2]))
    raise ValueError(t)


def z(n):
    n = int(n)
    return "(%d)%%Z" % n


def x2coq(j):
    t = j[0]
    if t == "XN":
        return "(XN %s)" % j[1]
    if t == "XZ":
        return "(XZ %s)" % z(j[1])
    if t == "XBool":
        return "(XBool %s)" % ("true" if j[1] else "false")
    if t == "XText":
        return "(XText %s)" % nlist(j[1])
    if t == "XBytes":
        return "(XBytes %s)" % nlist(j[1])
    if t == "XVal":
        return "(XVal %s)" % v2coq(j[1])
    if t == "XNone":
        return "XNone"
    if t == "XSome":
        return "(XSome %s)" % x2coq(j[1])
    if t == "XList":
        return "(XList [%s])" % ";".join(x2coq(x) for x in j[1])
    if t == "XStruct":
        return "(XStruct [%s] [%s])" % (";".join(x2coq(x) for x in j[1]),
                                        ";".join("(%s,%s)" % (v2coq(k), v2coq(x)) for k, x in j[2]))
    if t == "XVariant":
        return "(XVariant %d%%nat %s)" % (j[1], x2coq(j[2]))
    if t == "XKnown":
        return "(XKnown %s)" % x2coq(j[1])
    if t == "XUnknown":
        return "(XUnknown %s)" % v2coq(j[1])
    raise ValueError(j)


def x_canon(j):
    t = j[0]
    if t in ("XN", "XZ"):
        return (t, int(j[1]))
    if t == "XBool":
        return (t, bool(j[1]))
    if t in ("XText", "XBytes"):
        return (t, j[1])
    if t == "XVal":
        return (t, v_canon(j[1]))
    if t == "XNone":
        return (t,)
    if t in ("XSome", "XKnown"):
        return (t, x_canon(j[1]))
    if t == "XList":
        return (t, tuple(x_canon(x) for x in j[1]))
    if t == "XStruct":
        oth = sorted(((v_canon(k), v_canon(x)) for k, x in j[2]), key=repr)
        return (t, tuple(x_canon(x) for x in j[1]), tuple(oth))
    if t == "XVariant":
        return (t, int(j[1]), x_canon(j[2]))
    if t == "XUnknown":
        return (t, v_canon(j[1]))
    raise ValueError(j)


def x_model(t):
    if t == "XNone":
        return ("XNone",)
    h = t[0]
    if h in ("XN", "XZ"):
        return (h, t[1])
    if h == "XBool":
        return (h, t[1] == "true")
    if h in ("XText", "XBytes"):
        return (h, hx(t[1]))
    if h == "XVal":
        return (h, v_model(t[1]))
    if h in ("XSome", "XKnown"):
        return (h, x_model(t[1]))
    if h == "XList":
        return (h, tuple(x_model(x) for x in t[1]))
    if h == "XStruct":
        oth = sorted(((v_model(k), v_model(x)) for k, x in t[2]), key=repr)
        return (h, tuple(x_model(x) for x in t[1]), tuple(oth))
    if h == "XVariant":
        return (h, t[1], x_model(t[2]))
    if h == "XUnknown":
        return (h, v_model(t[1]))
    if h == "XOther":
        return (h, v_model(t[1]), v_model(t[2]))
    raise ValueError(t)


def opt(t):
    """parse `Some x` / `None`"""
    if t == "None":
        return None
    assert t[0] == "Some", t
    return t[1] if len(t) == 2 else t[1:]


def strs(s):
    return "[" + ";".join(str(b) for b in s.encode()) + "]"


def depth_of(v):
    t = v[0]
    if t == "A":
        return 1 + max([depth_of(x) for x in v[1]] + [0])
    if t == "M":
        return 1 + max([max(depth_of(k), depth_of(x)) for k, x in v[1]] + [0])
    if t == "G":
        return 1 + depth_of(v[2])
    return 0


class Tally:
    def __init__(self, ctx):
        self.ctx = ctx
        self.seen = set()
        self.nontrivial = set()
        self.n = 0
        self.nviol = 0

    def case(self, key, ok_path):
        self.n += 1
        d = c.digest(key)
        self.seen.add(d)
        if ok_path:
            self.nontrivial.add(d)

    def violation(self, obj, summary, **kw):
        self.nviol += 1
        if self.nviol <= 8:
            self.ctx.violation(obj, summary, **kw)


def eval_spread(ctx, name, exprs, shard):
    """coq_eval with the expensive (long) expressions dealt round-robin over the shards instead of
    clustered in one file; answers are returned in the original order."""
    n = len(exprs)
    nsh = max(1, (n + shard - 1) // shard)
    order = sorted(range(n), key=lambda i: -len(exprs[i]))
    buckets = [[] for _ in range(nsh)]
    for j, i in enumerate(order):
        buckets[j % nsh].append(i)
    size = max(len(b) for b in buckets)
    perm = []
    for b in buckets:
        perm.extend(b)
    # all buckets but possibly the last ones have `size` entries; pad by re-evaluating a cheap expression
    flat, index = [], []
    for b in buckets:
        for i in b:
            flat.append(exprs[i]); index.append(i)
        for _ in range(size - len(b)):
            flat.append("0"); index.append(None)
    terms = c.coq_eval(ctx, name, PRE, flat, shard=size)
    res = [None] * n
    for i, t in zip(index, terms):
        if i is not None:
            res[i] = t
    return res



def big_eval(ctx, name, exprs, timeout=1500):
    """one expression per coqc process, unlimited stack (vm_compute on 10^4..10^5-element lists), 12 in parallel"""
    import subprocess
    c.coq_makefile()
    d = os.path.join(ctx.work, "eval_" + name)
    os.makedirs(d, exist_ok=True)
    for f in os.listdir(d):
        os.remove(os.path.join(d, f))
    files = []
    for i, e in enumerate(exprs):
        fn = os.path.join(d, "big_%d.v" % i)
        with open(fn, "w") as f:
            f.write(PRE + "Eval vm_compute in (%s).\n" % e)
        files.append(fn)
    res, running, pending = {}, [], list(enumerate(files))
    while pending or running:
        while pending and len(running) < 12:
            i, fn = pending.pop(0)
            p = subprocess.Popen(["bash", "-c", "ulimit -s unlimited; exec timeout %d coqc -noglob -Q %s CB -w none %s" % (timeout, c.COQ, fn)],
                                 stdout=subprocess.PIPE, stderr=subprocess.STDOUT, cwd=d)
            running.append((i, p))
        i, p = running.pop(0)
        out = p.communicate()[0].decode("utf-8", "replace")
        m = __import__("re").search(r"=\s*\((true|false),\s*(true|false)\)", out)
        res[i] = (m.group(1) == "true", m.group(2) == "true") if (p.returncode == 0 and m) else ("coqc failed", out[-400:])
    return [res[i] for i in range(len(exprs))]


def chunk_stage(ctx, binp, T, bump):
    """Long strings spanning 3+ of the decoder's 4096-byte read chunks, multi-byte code points straddling the
    first / second / several / all chunk boundaries: top-level text, byte strings, nested, indefinite-length
    (segmented) text, and inside token types.  Every case: direct oracle on the implementation
    (decode(encode v) = v, re-encoding stable, allocation); a subset also through the model."""
    global BIGS
    q = ctx.quick
    rc, out = c.run_bin(binp, ["chunks", ctx.seed, 5 if q else 17, 1], timeout=1200)
    ls = lines(out)
    if rc != 0:
        ctx.violation({"layer": "harness run", "mode": "chunks", "output": out[-800:]}, "chunk-corpus harness crashed", no_input=True)
        return
    cases = [x for x in ls if x["k"] == "chunk"]
    # subset evaluated through the model (a 16 KiB string costs ~10 s of vm_compute): quotas per kind, distinct shapes
    quota = {"text": 3, "bytes": 1, "nested": 1, "segmented": 2, "typed": 2} if q else {"text": 12, "bytes": 3, "nested": 4, "segmented": 8, "typed": 9}
    maxchunks = 3 if q else 5
    prefer = ["all", "first", "several", "second", "lastonly"]
    chosen, seen = [], set()
    for cs in sorted([x for x in cases if "big" in x], key=lambda x: prefer.index(x["shape"].split("/")[0])):
        nch = int(cs["shape"].split("/")[-1])
        key = (cs["kind"], cs["shape"].split("/")[0]) if q else (cs["kind"], cs["shape"])
        if nch <= maxchunks and key not in seen and quota.get(cs["kind"], 0) > 0:
            quota[cs["kind"]] -= 1
            seen.add(key)
            chosen.append(cs)
    for cs in cases:
        bump("chunk:" + cs["kind"])
        brief = {k: (v if not isinstance(v, (str, list)) or len(str(v)) < 300 else str(v)[:120] + "...(%d chars)" % len(str(v))) for k, v in cs.items()}
        T.case(["chunk", cs["kind"], cs["shape"], c.digest(cs["hex"])], cs.get("same") is True)
        if "same" not in cs:
            T.violation({"case": brief}, "cbor_encode failed on a long string (%s %s): %s" % (cs["kind"], cs["shape"], cs["hex"][:80]))
            continue
        if not cs["same"]:
            # keep the full input in the replay file
            T.violation({"case": cs, "theorem": "cbor_value_roundtrip (the model decodes this input back to the value)"},
                        "decode(encode v) != v for a %d-byte %s with code points on read-chunk boundaries (%s): %s" % (
                            cs["len"], cs["kind"], cs["shape"], cs["rt"]))
            continue
        if cs.get("reenc_same") is False:
            T.violation({"case": brief}, "re-encoding of a decoded long string differs (%s %s)" % (cs["kind"], cs["shape"]))
        if cs.get("peak", 0) > C0 + C1 * cs["len"]:
            T.violation({"case": brief}, "decode of %d bytes allocated %d bytes" % (cs["len"], cs["peak"]))
    exprs = []
    for cs in chosen:
        bigs = sorted(set(cs["big"]), key=len, reverse=True)
        BIGS = [(h, "b%d" % i) for i, h in enumerate(bigs)]
        lets = "".join('let %s := unhex "%s"%%string in ' % (v, h) for h, v in BIGS)
        R = split_big(cs["hex"], BIGS)
        if cs["kind"] == "typed":
            body = ("let X := %s in let S := schema_of \"%s\"%%string in let R := %s in "
                    "(match encode_typed S X with Some bs => bytes_eqb bs R | None => false end, "
                    "match decode_typed S Fail R with Some y => xeqb y X | None => false end)") % (x2coq(cs["x"]), cs["ty"], R)
        else:
            encp = "true" if cs["kind"] == "segmented" else "bytes_eqb (encode V) R"
            body = ("let V := %s in let R := %s in (%s, match run_top R with Some (v, _) => veqb v V | None => false end)"
                    % (v2coq(cs["v"]), R, encp))
        exprs.append(lets + body)
        BIGS = []
    res = big_eval(ctx, "chunks", exprs)
    for cs, r in zip(chosen, res):
        bump("chunk:model")
        brief = {"kind": cs["kind"], "shape": cs["shape"], "len": cs["len"], "hex_prefix": cs["hex"][:64]}
        if r[0] == "coqc failed":
            ctx.violation({"layer": "model evaluation of a long string", "case": brief, "output": r[1]}, "coqc failed on a chunk-corpus case", no_input=True)
        elif r != (True, True):
            T.violation({"case": cs, "model_agrees": {"encode": r[0], "decode": r[1]}},
                        "model and implementation differ on a %d-byte %s (%s): encode agrees=%s decode agrees=%s" % (
                            cs["len"], cs["kind"], cs["shape"], r[0], r[1]))
    ctx.notes["chunk_corpus"] = {"cases": len(cases), "through_model": len(chosen), "max_len": max([x.get("len", 0) for x in cases] or [0]),
                                 "shapes": sorted({x["shape"].split("/")[0] for x in cases})}


def h_coq(h):
    """harness header JSON -> Coq term of type hdr"""
    k = h[0]
    if k == "HBreak":
        return "HBreak"
    if k in ("HBytes", "HText", "HArray", "HMap"):
        return "(%s %s)" % (k, "None" if h[1] is None else "(Some %s)" % h[1])
    return "(%s %s)" % (k, h[1])


def h_model(t, fbits):
    """model header term -> the harness JSON form (floats as the widened f64 pattern)"""
    if t == "HBreak":
        return ["HBreak"]
    k = t[0]
    if k == "HFloat":
        return ["HFloat", str(fbits)]
    if k in ("HBytes", "HText", "HArray", "HMap"):
        return [k, None if t[1] == "None" else str(t[1][1])]
    return [k, str(t[1])]


def conv_stage(ctx, binp, T, bump):
    """stage 7: Decimal <-> TokenAmount (DecimalConv.v), heads (Header.v / CborCore.pull), float widths (FloatBits.v)"""
    n = 200 if ctx.quick else 2000
    rc, out = c.run_bin(binp, ["conv", ctx.seed, n], timeout=900)
    if rc != 0:
        ctx.violation({"layer": "harness run", "mode": "conv", "output": out[-2000:]}, "conv harness crashed", no_input=True)
        return
    cases = lines(out)
    exprs = []
    for cs in cases:
        k = cs["k"]
        if k == "dec":
            exprs.append("show_conv (try_from_decimal (mk_dec %s %s %d) %d %s)" % ("true" if cs["neg"] else "false", cs["m"], cs["sc"], cs["d"], cs["rule"]))
        elif k == "todec":
            exprs.append("show_dec (try_to_decimal (mk_amt %s %d))" % (cs["value"], cs["decimals"]))
        elif k == "pull":
            bs = "[" + ";".join(str(b) for b in bytes.fromhex(cs["hex"])) + "]"
            exprs.append("(show_pull %s, match pull %s with Some (HFloat w b, _) => fdecode w b | _ => 0 end)" % (bs, bs))
        elif k == "push":
            exprs.append("encode_hdr %s" % h_coq(cs["h"]))
        elif k == "fenc":
            exprs.append("fencode %s" % cs["bits"])
        else:
            exprs.append("fdecode %d %s" % (cs["w"], cs["bits"]))
    terms = c.coq_eval(ctx, "conv", PRE_CONV, exprs, shard=330 if ctx.quick else 800)
    cls = {}
    nonshort = 0
    nan_notes = []
    for cs, t in zip(cases, terms):
        k = cs["k"]
        bump("conv:" + k)
        if k == "dec":
            ir = cs["r"]
            T.case(["dec", cs["neg"], cs["m"], cs["sc"], cs["d"], cs["rule"]], isinstance(ir, list) and ir[0] == 0)
            m, sc, d = int(cs["m"]), cs["sc"], cs["d"]
            key = "dec:%s:%s" % (cs["rule"], {0: "ok", 1: "RustDecimal", 2: "ValueOverflow", 3: "LossOfPrecision"}.get(ir[0], "?") if isinstance(ir, list) else ir)
            cls[key] = cls.get(key, 0) + 1
            if ir == "PANIC":
                T.violation({"case": cs}, "TokenAmount::try_from_rust_decimal panicked")
                continue
            if [t[0], t[1], t[2]] != [ir[0], int(ir[1]), ir[2]]:
                T.violation({"case": cs, "model": list(t), "layer": "DecimalConv.try_from_decimal (theorems token_amount_decimal_*)"},
                            "try_from_rust_decimal(%s%s e-%d, %d, %s) = %s, model %s" % ("-" if cs["neg"] else "", cs["m"], sc, d, cs["rule"], ir, list(t)))
            if ir[0] == 0:
                v = int(ir[1])
                # direct oracles on the implementation alone (exact integers)
                if cs["rule"] == "Exact":
                    if v * 10 ** sc != m * 10 ** d or (cs["neg"] and m != 0):
                        T.violation({"case": cs}, "Exact conversion from rust_decimal changed the numerical value")
                else:
                    if sc > d:
                        kk = 10 ** (sc - d)
                        want = (m + kk // 2) // kk
                        cls["dec:rounded" if m % kk else "dec:round_not_needed"] = cls.get("dec:rounded" if m % kk else "dec:round_not_needed", 0) + 1
                        if m % kk and (m % kk) * 2 == kk:
                            cls["dec:tie"] = cls.get("dec:tie", 0) + 1
                    else:
                        want = m * 10 ** (d - sc)
                    if v != want or (cs["neg"] and v != 0) or abs(v * 10 ** sc - m * 10 ** d) * 2 > 10 ** max(sc, d):
                        T.violation({"case": cs, "want": want}, "AllowRounding conversion is not round-half-up (ties away from zero) of the decimal")
            elif ir[0] == 3 and not (sc > d and m % 10 ** (sc - d)):
                T.violation({"case": cs}, "LossOfPrecision reported for a conversion that needs no rounding")
        elif k == "todec":
            ir = cs["r"]
            T.case(["todec", cs["value"], cs["decimals"]], isinstance(ir, list))
            mt = opt(t)
            mm = None if mt is None else [mt[0] == "true", str(mt[1]), mt[2]]
            if ir == "PANIC" or (ir == "ERR") != (mm is None) or (mm is not None and mm != ir):
                T.violation({"case": cs, "model": mm, "layer": "DecimalConv.try_to_decimal"}, "try_to_rust_decimal differs from the model")
            if isinstance(ir, list) and (cs["back"] is not True or ir != [False, cs["value"], cs["decimals"]]):
                T.violation({"case": cs}, "try_from_rust_decimal(try_to_rust_decimal(a), Exact) != a")
        elif k == "pull":
            ir = cs["r"]
            cls["pull:" + cs["class"]] = cls.get("pull:" + cs["class"], 0) + 1
            T.case(["pull", cs["hex"]], isinstance(ir, dict))
            mt = opt(t[0])
            if ir == "PANIC":
                T.violation({"case": cs}, "ciborium-ll Decoder::pull panicked")
                continue
            if mt is None:
                mm = "ERR"
            else:
                mm = {"off": mt[1], "h": h_model(mt[0], t[1])}
            if mm != ir:
                T.violation({"case": cs, "model": mm, "layer": "CborCore.pull (theorems header_*)"}, "header reader differs from the model on %s" % cs["hex"])
            elif cs["class"] == "nonshortest" and isinstance(ir, dict):
                nonshort += 1
        elif k == "push":
            T.case(["push", cs["h"]], True)
            if cs["r"] == "PANIC" or list(bytes.fromhex(cs["r"])) != list(t):
                T.violation({"case": cs, "model": hx(t), "layer": "Header.encode_hdr"}, "header writer differs from the model on %s" % cs["h"])
        elif k == "fenc":
            cls["fenc:" + cs["class"]] = cls.get("fenc:" + cs["class"], 0) + 1
            T.case(["fenc", cs["bits"]], True)
            b = bytes.fromhex(cs["hex"]) if not cs["hex"].startswith(("ERR", "PANIC")) else b""
            iw = {0xf9: 2, 0xfa: 4, 0xfb: 8}.get(b[0] if b else None)
            got = [iw, int.from_bytes(b[1:], "big")] if iw and len(b) == 1 + iw else cs["hex"]
            cls["fenc:width%s" % (iw,)] = cls.get("fenc:width%s" % (iw,), 0) + 1
            if got != [t[0], t[1]]:
                if cs["nan"] and isinstance(got, list):
                    nan_notes.append({"bits": cs["bits"], "impl": got, "model": [t[0], t[1]]})
                else:
                    T.violation({"case": cs, "model": [t[0], t[1]], "layer": "FloatBits.fencode (theorems float_*)"}, "float width selection differs from the model on bits %s" % cs["bits"])
            if cs["back"] != cs["bits"]:
                if cs["nan"] and cs["back"] is not None:
                    nan_notes.append({"bits": cs["bits"], "decode_encode": cs["back"]})
                else:
                    T.violation({"case": cs}, "decode(encode f) != f bit for bit (non-NaN double)")
        else:
            T.case(["fdec", cs["w"], cs["bits"]], True)
            if cs["r"] != str(t):
                x = int(cs["bits"])
                isnan = {2: (x >> 10) & 31 == 31 and x & 1023, 4: (x >> 23) & 255 == 255 and x & 0x7fffff, 8: (x >> 52) & 2047 == 2047 and x & (2 ** 52 - 1)}[cs["w"]]
                if isnan and cs["r"] not in ("ERR", "PANIC"):
                    nan_notes.append({"w": cs["w"], "bits": cs["bits"], "impl": cs["r"], "model": str(t)})
                else:
                    T.violation({"case": cs, "model": str(t), "layer": "FloatBits.fdecode"}, "float widening differs from the model on %d-byte payload %s" % (cs["w"], cs["bits"]))
    cls["pull:nonshortest_accepted_by_both"] = nonshort
    ctx.notes["conv_distribution"] = cls
    ctx.notes["conv_nan_payload_differences"] = {"count": len(nan_notes), "samples": nan_notes[:5],
        "meaning": "NaN payload handling is hardware/library dependent; differences are recorded, not violations"}


def lines(out):
    return [json.loads(l) for l in out.splitlines() if l.startswith("{")]


def run(ctx):
    q = ctx.quick
    ctx.assumptions += [
        "ciborium-ll 0.2.2: the header reader/writer model (CborCore.pull, Header.encode_hdr) is proved (accept set, consumed bytes, round trip, shortest, every width accepted) and diffed at every width boundary (stage 7); string segments and the UTF-8 chunk parser are modelled in Cbor/CborCore.v and diffed, not verified",
        "floats: Value::Float leaves of stages 1-2 are opaque (width, bits) payloads converted by the check (python struct); the width selection / widening itself is the bit-pattern model Cbor/FloatBits.v (round trip proved for all 64-bit patterns, binary16 shortest by sweep), diffed in stage 7 incl. NaN classes; the narrowing conversions of the real code enter only as 'exact when representable' + NaN quieting",
        "a derive-generated decoder is modelled as the generic item decoder followed by a schema interpretation (Cbor/CborSchema.v); the schema terms of the token types (Cbor/TokenSchemas.v) are proved equal to the terms regenerated from the Rust declarations on every run (translators/gen_cbor_schemas.py -> Gen/CborSchemas.v, theorem generated_schemas_match) and exercised by encoding/decoding every type on both sides; the interpretation of the attributes is that of concordium_base_derive/src/cbor.rs as read by the translator and CborSchema.v",
        "rust_decimal: Decimal::rescale is modelled loop by loop (Cbor/DecimalConv.v) and try_from_rust_decimal / try_to_rust_decimal are proved for all decimals and diffed on Decimal::from_parts (stage 7); string parsing (from_str / from_str_exact) is modelled at the level of its accepted language and result, diffed, not verified; the rounding done while parsing under AllowRounding is diffed only",
        "the code has no nesting limit and the model theorems hold at every depth (nesting_depth_bounded_by_input, nesting_no_limit); beyond depth 64 only the native stack of the real decoder is outside the claim (DESIGN.md O3): behaviour recorded under notes.deep_nesting_observation",
        "size_of::<Value>() = 32 (reported by the harness and asserted)",
    ]
    # 0. translator: Rust declarations of the derive(CborSerialize, CborDeserialize) types -> coq/Gen/CborSchemas.v
    #    (Props/C17.v proves the generated terms equal the hand-written Cbor/TokenSchemas.v)
    import importlib.util
    tie_broken = None
    try:
        spec = importlib.util.spec_from_file_location("gen_cbor_schemas", os.path.join(c.VERIF, "translators", "gen_cbor_schemas.py"))
        gcs = importlib.util.module_from_spec(spec)
        spec.loader.exec_module(gcs)
        ctx.notes["translator"] = gcs.generate(c.REPO, os.path.join(c.COQ, "Gen", "CborSchemas.v"))
    except Exception as ex:
        tie_broken = "translator gen_cbor_schemas failed: %s" % ex
        ctx.log(tie_broken)
    ok, info = c.coq_prove(ctx)
    proof_broken = None
    if not ok:
        proof_broken = info
        ctx.log("proof obligations broken:", info["failed_file"], info["error"][-600:])
    # the proof-free model files build independently of the proofs
    okb, out = c.coq_build(ctx, ["Cbor/TokenSchemas.vo", "Cbor/TokenAmount.vo", "Cbor/Hex.vo", "Cbor/DecimalConv.vo", "Cbor/Header.vo", "Cbor/FloatBits.vo"])
    if not okb:
        ctx.violation({"layer": "Coq model build", "error": out}, "the executable model no longer builds", no_input=True)
        return
    ok, binp = c.cargo_build(ctx, "c17")
    if not ok:
        ctx.violation({"layer": "harness build against /repo", "error": binp},
                      "harness no longer builds against the implementation", no_input=True)
        return
    T = Tally(ctx)
    dist = {}

    def bump(k, n=1):
        dist[k] = dist.get(k, 0) + n

    ctx.log("stage 0. long strings over many read chunks")
    chunk_stage(ctx, binp, T, bump)
    ctx.log("stage 1. values")
    # ------------------------------------------------------------------ 1. values: encode on both sides
    nval = 250 if q else 1500
    maxdepth = 6 if q else 64
    rc, out = c.run_bin(binp, ["values", ctx.seed, nval, maxdepth], timeout=1200)
    if rc != 0:
        ctx.violation({"layer": "harness run", "mode": "values", "output": out[-2000:]}, "value harness crashed", no_input=True)
        return
    cases = lines(out)
    meta = [x for x in cases if x["k"] == "meta"][0]
    ctx.notes["size_of"] = meta
    if meta["value_size"] != 32:
        ctx.violation({"layer": "model constant VALUE_SIZE", "meta": meta}, "size_of::<Value>() is not 32", no_input=True)
    cases = [x for x in cases if x["k"] == "val"]
    BIG = 1200  # hex chars; larger cases are compared inside Coq (printing long lists dominates otherwise)

    def val_expr(cs):
        V = v2coq(cs["v"])
        if len(cs.get("hex", "")) <= BIG or isinstance(cs.get("rt"), str) or not all(ch in "0123456789abcdef" for ch in cs["hex"]):
            return "(encode %s, (value_okb %s, value_sortedb %s), norm %s)" % (V, V, V, V)
        R = v2coq(cs["rt"])
        return "(bytes_eqb (encode %s) %s, (value_okb %s, value_sortedb %s), (veqb (norm %s) %s, veqb %s %s))" % (
            V, nlist(cs["hex"]), V, V, V, R, V, R)
    exprs = [val_expr(cs) for cs in cases]
    terms = eval_spread(ctx, "values", exprs, 40 if q else 100)
    depths = {}
    for cs, t in zip(cases, terms):
        menc, (okb, sortedb), mnorm = t
        big = menc in ("true", "false")
        v = v_canon(cs["v"])
        d = depth_of(v)
        depths[min(d, 64) // 8 * 8] = depths.get(min(d, 64) // 8 * 8, 0) + 1
        T.case(["val", cs["v"]], True)
        bump("values" + (":big" if big else ""))
        if cs["hex"] in ("PANIC",) or cs["hex"].startswith("ERR"):
            T.violation({"case": cs}, "cbor_encode failed/panicked on a Value: %s" % cs["hex"][:80])
            continue
        if (menc != "true") if big else (hx(menc) != cs["hex"]):
            T.violation({"case": cs, "model": "(compared in Coq)" if big else hx(menc),
                         "theorem": "cbor_value_roundtrip / encode_shortest (model proved, impl encodes differently)"},
                        "cbor_encode differs from the proved model on %s" % json.dumps(cs["v"])[:160])
            continue
        if not cs["det"] or not cs.get("reenc_same", False):
            T.violation({"case": cs}, "encoding is not deterministic / not stable under decode+encode")
        rt = cs["rt"]
        if isinstance(rt, str):
            T.violation({"case": cs}, "decode(encode v) fails (%s) for %s" % (rt, json.dumps(cs["v"])[:160]))
            continue
        if big:
            same_as_norm, same_as_v = mnorm[0] == "true", mnorm[1] == "true"
        else:
            rtc = v_canon(rt)
            same_as_norm, same_as_v = rtc == v_model(mnorm), rtc == v
        if okb == "true" and sortedb == "true" and not same_as_v:
            T.violation({"case": cs}, "decode(encode v) != v for a value in deterministic form")
        elif not same_as_norm:
            T.violation({"case": cs, "model_norm": str(mnorm)[:500]}, "decode(encode v) differs from the model's normal form")
        if cs["peak"] > C0 + C1 * (len(cs["hex"]) // 2):
            T.violation({"case": cs}, "decode allocated %d bytes for %d input bytes" % (cs["peak"], len(cs["hex"]) // 2))
    ctx.notes["value_depth_histogram"] = depths
    ctx.cov["samples"] += [{"v": cases[3]["v"], "hex": cases[3]["hex"]}]

    ctx.log("stage 2. hostile byte streams")
    # ------------------------------------------------------------------ 2. hostile byte streams: decode on both sides
    nb = 700 if q else 4500
    rc, out = c.run_bin(binp, ["bytes", ctx.seed, nb, maxdepth], timeout=1200)
    if rc != 0:
        ls = lines(out)
        if ls and ls[-1]["k"] == "pending":
            ctx.violation({"case": ls[-1], "exit_code": rc, "stderr_tail": out[-400:],
                           "theorem": "cbor_decode_alloc_bounded / cbor_decode_total (the model rejects or accepts this input with bounded allocation)"},
                          "cbor_decode::<Value> aborted the process (exit %s) on input %s" % (rc, ls[-1]["hex"][:120]))
        else:
            ctx.violation({"layer": "harness run", "mode": "bytes", "output": out[-1500:]}, "byte-stream harness crashed", no_input=True)
        return
    cases = [x for x in lines(out) if x["k"] != "pending"]
    def bytes_expr(cs):
        B = nlist(cs["hex"])
        if len(cs["hex"]) <= BIG:
            return "(run_top %s, run_prefix %s)" % (B, B)
        top = ("match run_top %s with Some (v, _) => veqb v %s | None => false end" % (B, v2coq(cs["top"]["v"]))
               if isinstance(cs["top"], dict) else "match run_top %s with Some _ => false | None => true end" % B)
        pre = ("match run_prefix %s with Some (v, off, _) => veqb v %s && (off =? %d) | None => false end" % (
            B, v2coq(cs["pre"]["v"]), cs["pre"]["off"])
            if isinstance(cs["pre"], dict) else "match run_prefix %s with Some _ => false | None => true end" % B)
        return "(%s, %s)" % (top, pre)
    exprs = [bytes_expr(cs) for cs in cases]
    terms = eval_spread(ctx, "bytes", exprs, 50 if q else 300)
    acc = rej = 0
    worst = 0.0
    for cs, t in zip(cases, terms):
        for m in cs["muts"] or ["clean"]:
            bump("bytes:" + m)
        itop, ipre = cs["top"], cs["pre"]
        T.case(["bytes", cs["hex"]], isinstance(itop, dict))
        if itop == "PANIC" or ipre == "PANIC":
            T.violation({"case": cs}, "decoder panicked on input %s" % cs["hex"][:120])
            continue
        acc += isinstance(itop, dict)
        rej += not isinstance(itop, dict)
        if isinstance(itop, dict) and cs["stable"] is False:
            T.violation({"case": cs}, "re-encoding of an accepted stream is not stable (encode . decode . encode . decode != encode . decode)")
        bad = None
        mtop = mpre = "(compared in Coq)"
        if t[0] in ("true", "false"):
            bump("bytes:big")
            if t[0] != "true":
                bad = "whole-input decode differs (accept/reject or value)"
            elif t[1] != "true":
                bad = "prefix decode differs (accept/reject, value or consumed bytes)"
        else:
            mtop, mpre = opt(t[0]), opt(t[1])
            if isinstance(itop, dict):
                if mtop is None:
                    bad = "implementation accepts, model rejects"
                elif v_canon(itop["v"]) != v_model(mtop[0]):
                    bad = "decoded values differ"
            elif mtop is not None:
                bad = "implementation rejects, model accepts"
            if bad is None:
                if isinstance(ipre, dict):
                    if mpre is None:
                        bad = "prefix decode: implementation accepts, model rejects"
                    elif v_canon(ipre["v"]) != v_model(mpre[0]) or ipre["off"] != mpre[1]:
                        bad = "prefix decode: value or consumed byte count differ (impl %s, model %s)" % (ipre["off"], mpre[1])
                elif mpre is not None:
                    bad = "prefix decode: implementation rejects, model accepts"
        if bad:
            T.violation({"case": cs, "model_top": str(mtop)[:400], "model_prefix": str(mpre)[:400],
                         "theorem": "correspondence of Decoder / ciborium-ll with Cbor/CborCore.v (dec)"},
                        "%s on input %s" % (bad, cs["hex"][:120]))
        if cs["peak"] > C0 + C1 * cs["len"]:
            T.violation({"case": cs, "bound": C0 + C1 * cs["len"]},
                        "decode of %d bytes allocated %d bytes (largest request %d): %s" % (cs["len"], cs["peak"], cs["maxreq"], cs["hex"][:80]))
        worst = max(worst, cs["peak"] / (C0 + C1 * cs["len"]))
    ctx.notes["bytes_accept_reject"] = {"accepted": acc, "rejected": rej, "worst_alloc_ratio_of_bound": round(worst, 3)}
    ctx.cov["samples"] += [{"hex": cases[1]["hex"], "top": cases[1]["top"]}]

    ctx.log("stage 3. token types")
    # ------------------------------------------------------------------ 3. token types
    nt = 4 if q else 25
    rc, out = c.run_bin(binp, ["typed", ctx.seed, nt], timeout=1200)
    if rc != 0:
        ls = lines(out)
        if ls and ls[-1]["k"] == "pending":
            ctx.violation({"case": ls[-1], "exit_code": rc, "stderr_tail": out[-400:]},
                          "cbor_decode::<%s> aborted the process (exit %s) on input %s" % (ls[-1]["ty"], rc, ls[-1]["hex"][:120]))
        else:
            ctx.violation({"layer": "harness run", "mode": "typed", "output": out[-2000:]}, "typed harness crashed", no_input=True)
        return
    cases = [x for x in lines(out) if x["k"] != "pending"]
    exprs = []
    for cs in cases:
        s = '(schema_of "%s"%%string)' % cs["ty"]
        if cs["k"] == "typed":
            exprs.append("(encode_typed %s %s)" % (s, x2coq(cs["x"])))
        else:
            b = nlist(cs["hex"])
            exprs.append("(decode_typed %s Fail %s, decode_typed %s Ignore %s)" % (s, b, s, b))
    terms = c.coq_eval(ctx, "typed", PRE, exprs, shard=40 if q else 150)
    per_type = {}
    for cs, t in zip(cases, terms):
        pt = per_type.setdefault(cs["ty"], {"enc": 0, "dec_ok": 0, "dec_err": 0})
        if cs["k"] == "typed":
            pt["enc"] += 1
            T.case(["typed", cs["ty"], cs["x"]], True)
            m = opt(t)
            if cs["hex"] == "PANIC" or cs["hex"].startswith("ERR"):
                T.violation({"case": cs}, "cbor_encode of %s failed: %s" % (cs["ty"], cs["hex"][:80]))
                continue
            if m is None or hx(m) != cs["hex"]:
                T.violation({"case": cs, "model": None if m is None else hx(m), "theorem": "schema_roundtrip at " + cs["ty"]},
                            "%s: cbor_encode differs from the schema model" % cs["ty"])
            # direct oracles on the implementation alone
            if cs["rt"] != "same":
                T.violation({"case": cs}, "%s: decode(encode v) != v (%s)" % (cs["ty"], cs["rt"][:200]))
            if not cs["rt_ignore"]:
                T.violation({"case": cs}, "%s: decode(encode v) != v with UnknownMapKeys::Ignore" % cs["ty"])
            if not cs["det"] or not cs["reenc"]:
                T.violation({"case": cs}, "%s: encoding not deterministic (twice / after a round trip)" % cs["ty"])
        else:
            bump("tdec:" + cs["what"])
            okany = False
            for which, mt in (("fail", t[0]), ("ignore", t[1])):
                ir = cs[which]
                mr = opt(mt)
                if ir == "PANIC":
                    T.violation({"case": cs}, "%s decoder panicked" % cs["ty"])
                    continue
                bad = None
                if isinstance(ir, dict):
                    okany = True
                    if mr is None:
                        bad = "implementation accepts, model rejects"
                    elif x_canon(ir["x"]) != x_model(mr):
                        bad = "decoded values differ"
                elif mr is not None:
                    bad = "implementation rejects, model accepts"
                if bad:
                    T.violation({"case": cs, "options": which, "model": str(mr)[:600],
                                 "theorem": "schema laws (missing mandatory field / undeclared field / wrong type) at " + cs["ty"]},
                                "%s (%s, %s): %s on %s" % (cs["ty"], which, cs["what"], bad, cs["hex"][:100]))
            if cs["fix"] is False:
                T.violation({"case": cs}, "%s: an accepted encoding does not round-trip after re-encoding" % cs["ty"])
            if cs["peak"] > C0 + C1 * cs["len"]:
                T.violation({"case": cs}, "%s: decode of %d bytes allocated %d bytes" % (cs["ty"], cs["len"], cs["peak"]))
            pt["dec_ok" if okany else "dec_err"] += 1
            T.case(["tdec", cs["ty"], cs["hex"]], okany)
    ctx.notes["per_type"] = per_type
    typed_first = [cs for cs in cases if cs["k"] == "typed" and cs["ty"] == "TokenOperations"][:1]
    ctx.cov["samples"] += [{"ty": x["ty"], "hex": x["hex"]} for x in typed_first]

    ctx.log("stage 4. events / reject reasons")
    # ------------------------------------------------------------------ 4. events / reject reasons (dispatch on the type string)
    nd = 56 if q else 400
    rc, out = c.run_bin(binp, ["dispatch", ctx.seed, nd], timeout=600)
    if rc != 0:
        ctx.violation({"layer": "harness run", "mode": "dispatch", "output": out[-2000:]}, "dispatch harness crashed", no_input=True)
        return
    cases = lines(out)
    exprs = []
    for cs in cases:
        table = "event_schemas" if cs["k"] == "event" else "reject_schemas"
        if cs["hex"] is None:
            exprs.append("(@None (nat * sval + value))")
        else:
            exprs.append('(decode_dispatch %s "%s"%%string %s)' % (table, cs["ty"], nlist(cs["hex"])))
    terms = c.coq_eval(ctx, "dispatch", PRE, exprs, shard=30 if q else 100)
    for cs, t in zip(cases, terms):
        bump(cs["k"])
        m = opt(t)
        ir = cs["r"]
        T.case([cs["k"], cs["ty"], cs["hex"]], isinstance(ir, dict))
        if ir == "PANIC":
            T.violation({"case": cs}, "%s decoding panicked" % cs["k"])
            continue
        if isinstance(ir, dict):
            if m is None:
                bad = "implementation accepts, model rejects"
            elif "known" in ir:
                bad = None if (m[0] == "inl" and m[1][0] == ir["known"] and x_model(m[1][1]) == x_canon(ir["x"])) else "decoded values differ"
            else:
                bad = None if (m[0] == "inr" and v_model(m[1]) == v_canon(ir["unknown"])) else "unknown-variant values differ"
            # direct oracle: the reject reason that was encoded comes back
            if cs["k"] == "reject" and "known" in ir and cs["hex"] is not None and x_canon(ir["x"]) != x_canon(cs["want"]):
                bad = "decode_reject_reason(encode r) != r"
        else:
            bad = None if m is None else "implementation rejects, model accepts"
        if bad:
            T.violation({"case": cs, "model": str(m)[:500]}, "%s %s: %s" % (cs["k"], cs["ty"], bad))

    ctx.log("stage 5. token amounts")
    # ------------------------------------------------------------------ 5. token amounts: string and JSON forms
    na = 80 if q else 600
    rc, out = c.run_bin(binp, ["amounts", ctx.seed, na], timeout=600)
    if rc != 0:
        ctx.violation({"layer": "harness run", "mode": "amounts", "output": out[-2000:]}, "amount harness crashed", no_input=True)
        return
    cases = lines(out)
    exprs = []
    for cs in cases:
        if cs["k"] == "disp":
            a = "{| amt_value := %s; amt_decimals := %s |}" % (cs["value"], cs["decimals"])
            exprs.append("(to_string A, show (from_str_exact (to_string A) (amt_decimals A)), json_value A)".replace("A", a))
        elif cs["k"] == "parse":
            f = "from_str_exact" if cs["rule"] == "exact" else "from_str_round"
            exprs.append("(show (%s %s %s), parse_decimal %s)" % (f, strs(cs["s"]), cs["decimals"], strs(cs["s"])))
        else:
            dj = cs["decimals"]
            d = dj if isinstance(dj, int) and dj >= 0 else 999
            exprs.append("(show (from_json %s %s))" % (strs(cs["value"]), d))
    terms = c.coq_eval(ctx, "amounts", PRE, exprs, shard=40 if q else 150)

    def am(t):
        t = opt(t)
        if t is None:
            return None
        # {| value := v; decimals := d |} is printed as a record
        return t

    for cs, t in zip(cases, terms):
        bump("amount:" + cs["k"])
        if cs["k"] == "disp":
            ms, mback, mj = t
            T.case(["disp", cs["value"], cs["decimals"]], True)
            s_model = bytes(ms).decode()
            if s_model != cs["s"]:
                T.violation({"case": cs, "model": s_model}, "TokenAmount Display differs from the model")
            want_json = '{"value":"%s","decimals":%d}' % (bytes(mj).decode(), cs["decimals"])
            if cs["json"] != want_json:
                T.violation({"case": cs, "model": want_json}, "TokenAmount JSON form differs from the model")
            if cs["json_back"] != [cs["value"], cs["decimals"]]:
                T.violation({"case": cs}, "TokenAmount JSON form does not parse back to the same amount")
            mb = rec(mback)
            ib = cs["back"]
            if ib == "PANIC":
                T.violation({"case": cs}, "TokenAmount::from_str panicked on its own Display output")
            elif (ib == "ERR") != (mb is None) or (mb is not None and [str(mb[0]), mb[1]] != ib):
                T.violation({"case": cs, "model": mb}, "from_str(to_string(a)) differs from the model")
            elif cs["decimals"] <= 28 and ib != [cs["value"], cs["decimals"]]:
                T.violation({"case": cs}, "from_str(to_string(a), Exact) != a for decimals <= 28")
        elif cs["k"] == "parse":
            mr = rec(t[0])
            ir = cs["r"]
            T.case(["parse", cs["s"], cs["decimals"], cs["rule"]], ir not in ("ERR", "PANIC"))
            if ir == "PANIC":
                T.violation({"case": cs}, "TokenAmount::from_str panicked")
                continue
            if cs["rule"] == "round" and opt(t[1]) is None:
                continue  # strings that rust_decimal rounds while parsing are not modelled under AllowRounding
            if (ir == "ERR") != (mr is None) or (mr is not None and [str(mr[0]), mr[1]] != ir):
                T.violation({"case": cs, "model": mr, "theorem": "token_amount_denotation (string form)"},
                            "TokenAmount::from_str(%r, %d, %s) = %s, model %s" % (cs["s"], cs["decimals"], cs["rule"], ir, mr))
            if cs["rule"] == "exact" and isinstance(ir, list):
                # direct oracle: the accepted amount denotes exactly the number written in the string
                s = cs["s"].replace("_", "").lstrip("+-")
                ip, _, fp = s.partition(".")
                if int((ip or "0") + fp) * 10 ** ir[1] != int(ir[0]) * 10 ** len(fp):
                    T.violation({"case": cs}, "Exact conversion changed the numerical value")
        else:
            mr = rec(t)
            ir = cs["r"]
            T.case(["json", cs["value"], cs["decimals"]], ir is not None)
            if (ir is None) != (mr is None) or (mr is not None and [str(mr[0]), mr[1]] != ir):
                T.violation({"case": cs, "model": mr}, "TokenAmount JSON parsing differs from the model")

    ctx.log("stage 7. conversions: decimal / heads / float widths")
    conv_stage(ctx, binp, T, bump)
    ctx.log("stage 6. nesting deeper")
    # ------------------------------------------------------------------ 6. nesting deeper than 64: observation only
    obs = {}
    for depth in (65, 200, 1000, 100000):
        rc, out = c.run_bin(binp, ["deep", depth], timeout=120)
        ls = lines(out)
        stage = ls[-1]["stage"] if ls else "none"
        obs[str(depth)] = {"exit_code": rc, "last_stage": stage, "result": ls[-1].get("r") if ls else None}
    ctx.notes["deep_nesting_observation"] = obs

    ctx.notes["distribution"] = dist
    ctx.cov["evaluations"] = T.n
    ctx.cov["traces_validated_against_impl"] = T.n
    ctx.cov["distinct_nontrivial"] = len(T.nontrivial)
    ctx.cov["rule"] = (
        "values: structured generator (ints at 0/23/24/255/256/2^16/2^32/2^64-1 and random, negatives, byte/text strings incl. multi-byte "
        "code points and >4096-byte strings around the read-chunk boundary, arrays/maps/tags nested, duplicate keys, 1/4 with unsorted maps, "
        "1/10 deep chains up to the tier depth); bytes: the same values written by a non-canonical writer (non-shortest heads, indefinite "
        "arrays/maps, segmented and nested-indefinite strings, code points split across segments) then 0-2 mutations (truncate, bit flip, "
        "trailing bytes, reserved/break head bytes, huge declared lengths, insert break, delete, swap) plus random bytes; typed: every token "
        "type with all optional-field combinations, then map/tag perturbations (drop entry, unknown text/int key, reorder, duplicate key, "
        "wrong type, null, key typo, retag, untag, array length/element incl. bignums) under non-canonical writers, decoded with Fail and "
        "Ignore; amounts: Display/JSON of boundary amounts, decimal strings incl. malformed ones at precisions 0..255; conversions (stage 7): Decimal::from_parts with mantissas 0/1/5*10^k(+-1)/10^k(-1)/u64::MAX(+1)/2^96-1/random, scales 0..28, decimals 0..30 and 255, both signs and rules; heads of every major type x argument boundary x width, truncations, reserved infos, random bytes; f64 patterns at f16/f32/f64 subnormal/normal/overflow boundaries +-1 ulp, NaN classes, random (distribution in notes.conv_distribution). "
        "non-trivial = the implementation accepted / produced a value; distinct = canonical case hash")
    if tie_broken:
        ctx.violation({"layer": "translator (Rust declarations -> schema terms)", "error": tie_broken},
                      "the derive(CborSerialize, CborDeserialize) declarations can no longer be translated: %s" % tie_broken[:200],
                      no_input=not bool(ctx.violations))
    if proof_broken:
        found = bool(ctx.violations)
        ctx.violation({"layer": "Coq proof obligations", "broken": proof_broken},
                      "theorem(s) of Props/C17.v no longer check (%s)" % proof_broken["failed_file"], no_input=not found)
    if ctx.tier == "thorough":
        ok, out = c.coqchk(ctx)
        if not ok:
            ctx.violation({"layer": "coqchk", "output": out[-2000:]}, "coqchk rejected Props/C17.vo", no_input=True)


def rec(t):
    """`Some (v, d)` / `None` as parsed by parse_coq_term -> (v, d) or None"""
    if t == "None":
        return None
    assert t[0] == "Some", t
    return (t[1][0], t[1][1])
